"""
C06 / finding 1: an ODS sheet with an absurd table:number-rows-repeated on a row that is not the empty
filler at the end is not reported as DataFormatError; reading it never stops in any error mode.

Run:  cd /tmp/wj_c06 && PYTHONPATH=/tmp/wj_c06 /venv/bin/python -W ignore /tmp/hunt4_c06/finding_1.py
Exit code 1 = violation observed, 0 = not observed.
"""
import itertools
import os
import sys
import tempfile
import time
import zipfile

import cutplace
import cutplace.errors
import cutplace.interface

NS = (
    'xmlns:office="urn:oasis:names:tc:opendocument:xmlns:office:1.0" '
    'xmlns:table="urn:oasis:names:tc:opendocument:xmlns:table:1.0" '
    'xmlns:text="urn:oasis:names:tc:opendocument:xmlns:text:1.0"'
)


def row(text, attributes=""):
    return (
        "<table:table-row%s><table:table-cell office:value-type=\"string\"><text:p>%s</text:p>"
        "</table:table-cell></table:table-row>" % (attributes, text)
    )


def write_ods(path, rows_xml):
    content = (
        '<?xml version="1.0" encoding="UTF-8"?><office:document-content %s office:version="1.2">'
        "<office:body><office:spreadsheet><table:table table:name=\"data\">%s</table:table>"
        "</office:spreadsheet></office:body></office:document-content>" % (NS, rows_xml)
    )
    with zipfile.ZipFile(path, "w", zipfile.ZIP_DEFLATED) as ods_zip:
        ods_zip.writestr("mimetype", "application/vnd.oasis.opendocument.spreadsheet", zipfile.ZIP_STORED)
        ods_zip.writestr("content.xml", content)


# More rows than any spreadsheet application can store in a sheet (1048576).
LIMIT = 1100000
ABSURD_COUNT = "1" + "0" * 30

cid = cutplace.interface.create_cid_from_string("d,format,ods\nf,name,,,1...5")
folder = tempfile.mkdtemp()

# Reference: the same absurd count for columns and blanks is a data format error (repair 546d795).
columns_path = os.path.join(folder, "columns.ods")
write_ods(
    columns_path,
    '<table:table-row><table:table-cell table:number-columns-repeated="%s"><text:p>a</text:p></table:table-cell>'
    "</table:table-row>" % ABSURD_COUNT,
)
try:
    list(cutplace.rows(cid, columns_path, on_error="yield"))
    print("reference: absurd number-columns-repeated: no error")
except cutplace.errors.DataFormatError as error:
    print("reference: absurd number-columns-repeated: DataFormatError: %s" % error)

rows_path = os.path.join(folder, "rows.ods")
write_ods(rows_path, row("a") + row("b", ' table:number-rows-repeated="%s"' % ABSURD_COUNT) + row("c"))

violation_count = 0
for on_error in ("yield", "continue", "raise"):
    start_time = time.time()
    reader = cutplace.Reader(cid, rows_path, on_error=on_error)
    try:
        item_count = sum(1 for _ in itertools.islice(reader.rows(), LIMIT))
        print(
            "on_error=%r: no DataFormatError after %d rows (%.1f s), accepted=%d, rejected=%d; the row 'c' after "
            "the repeated row can never be reached"
            % (on_error, item_count, time.time() - start_time, reader.accepted_rows_count, reader.rejected_rows_count)
        )
        violation_count += 1
    except cutplace.errors.DataFormatError as error:
        print("on_error=%r: DataFormatError (as required): %s" % (on_error, error))

if violation_count:
    print("VIOLATION: reading a sheet that declares %s rows does not stop with a data format error" % ABSURD_COUNT)
    sys.exit(1)
print("ok: no violation")
sys.exit(0)
