"""
C08 finding 1: merely *constructing* a Reader or Writer for a CID (no rows read or written with it, even when the
constructor fails) wipes the uniqueness / distinct-count bookkeeping of the single run that is in progress or
finished-but-not-yet-closed on that CID. There is no second run at all, so this is not two runs overlapping.

Exit code 1 if the violation occurs, 0 otherwise.
"""
import io
import sys

import cutplace
from cutplace import errors, interface

CID_TEXT = (
    "d,format,delimited\n"
    "f,id\n"
    "f,name\n"
    "c,id must be unique,IsUnique,id\n"
    "c,at least 2 names,DistinctCount,name >= 2\n"
)
DATA_WITH_DUPLICATE = "1,a\n2,b\n1,c\n"
CLEAN_DATA = "1,a\n2,b\n"


def fresh_cid():
    return interface.create_cid_from_string(CID_TEXT)


def read_with_duplicate(between_first_and_second_row):
    """Outcome of ONE run on a freshly loaded CID; `between_first_and_second_row` is called after the first row."""
    cid = fresh_cid()
    reader = cutplace.Reader(cid, io.StringIO(DATA_WITH_DUPLICATE), on_error="yield")
    outcome = []
    for row_or_error in reader.rows():
        outcome.append(str(row_or_error))
        if len(outcome) == 1:
            between_first_and_second_row(cid)
    try:
        reader.close()
        outcome.append("end of data: ok")
    except errors.CutplaceError as error:
        outcome.append("end of data: %s" % error)
    return outcome


def read_clean_then_close(before_close):
    cid = fresh_cid()
    reader = cutplace.Reader(cid, io.StringIO(CLEAN_DATA))
    outcome = [str(row) for row in reader.rows()]
    before_close(cid)
    try:
        reader.close()
        outcome.append("end of data: ok")
    except errors.CutplaceError as error:
        outcome.append("end of data: %s" % error)
    return outcome


def nothing(cid):
    pass


def construct_unused_writer(cid):
    cutplace.Writer(cid, io.StringIO())  # never written to, never closed


def construct_unused_reader(cid):
    cutplace.Reader(cid, io.StringIO("9,z\n"))  # never read, never closed


def fail_to_construct_writer(cid):
    try:
        cutplace.Writer(cid, "/nonexistent_folder_c08/out.csv")
    except OSError as error:
        print("    (Writer could not be created: %s)" % type(error).__name__)


violated = False
expected = read_with_duplicate(nothing)
print("A. run on a fresh CID, nothing else done with the CID:")
print("   ", expected)
for title, action in (
    ("B. same run, a Writer is constructed (and never used) after the first row", construct_unused_writer),
    ("C. same run, a Reader is constructed (and never used) after the first row", construct_unused_reader),
    ("D. same run, constructing a Writer FAILS with OSError after the first row", fail_to_construct_writer),
):
    print(title + ":")
    actual = read_with_duplicate(action)
    print("   ", actual)
    if actual != expected:
        print("    -> VIOLATION: the duplicate id '1' in row 3 is accepted")
        violated = True

expected = read_clean_then_close(nothing)
print("E. all rows read, then close() (fresh CID, nothing else done):")
print("   ", expected)
print("F. all rows read, a Reader for the next file is constructed (not read), then close():")
actual = read_clean_then_close(construct_unused_reader)
print("   ", actual)
if actual != expected:
    print("    -> VIOLATION: the check at the end of clean data fails with a distinct count of 0")
    violated = True

sys.exit(1 if violated else 0)
