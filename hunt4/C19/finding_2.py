"""
C19 finding 2: an Integer field with a bounded range of more digits than the biggest exact
numeric type of the dialect gets a "type" the dialect does not have (DB2: decimal(p) with p > 31,
Transact-SQL decimal / Oracle number with p > 38) instead of a type able to store the limits or an
error. With 4300 digits, creating the statement fails with a ValueError.
"""
import re
import sys

from cutplace import interface, sql

MAX_PRECISION = {"DB2": 31, "Transact-SQL": 38, "PL/SQL": 38}
violations = 0
# Limits need 32 digits (too many for DB2) respectively 40 digits (too many for all).
for length, rule in (("32", ""), ("", "0...%d" % (10**39)), ("40", "")):
    cid = interface.Cid()
    cid.read("inline", [["D", "Format", "Delimited"], ["F", "big_id", "", "", length, "Integer", rule]])
    for name, max_precision in sorted(MAX_PRECISION.items()):
        statement = sql.SqlFactory(cid, "t", sql.SQL_NAME_TO_DIALECT_MAP[name]).create_table_statement()
        match = re.search(r"big_id (\w+)\((\d+)(?:, (\d+))?\)", statement)
        precision = int(match.group(2))
        is_valid_type = precision <= max_precision
        print(
            "length=%r rule=%r %-12s -> %s (maximum precision of the dialect: %d) valid type: %s"
            % (length, rule[:20], name, match.group(0), max_precision, is_valid_type)
        )
        if not is_valid_type:
            violations += 1

cid = interface.Cid()
cid.read("inline", [["D", "Format", "Delimited"], ["F", "big_id", "", "", "", "Integer", "0..." + "9" * 4300]])
for name in sorted(MAX_PRECISION):
    try:
        sql.SqlFactory(cid, "t", sql.SQL_NAME_TO_DIALECT_MAP[name]).create_table_statement()
        print("4300 digits, %s: statement created" % name)
    except ValueError as error:
        print("4300 digits, %s: ValueError: %s" % (name, str(error)[:60]))
        violations += 1
print("violations:", violations)
sys.exit(1 if violations else 0)
