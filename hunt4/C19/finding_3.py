"""
C19 finding 3: SqlFactory.sql_fields() documents its 5th item as ``is_not_null`` but delivers the
opposite (``is_allowed_to_be_empty``): a field NOT allowed to be empty reports is_not_null=False.
create_table_statement() compensates by negating it again, so only users of sql_fields() are hit.
"""
import sys

from cutplace import interface, sql

cid = interface.Cid()
cid.read(
    "inline",
    [
        ["D", "Format", "Delimited"],
        ["F", "mandatory", "", "", "1...5", "Text"],
        ["F", "optional", "", "X", "1...5", "Text"],
    ],
)
print(sql.SqlFactory.sql_fields.__doc__.strip())
violations = 0
for dialect in sql.SQL_NAME_TO_DIALECT_MAP.values():
    factory = sql.SqlFactory(cid, "t", dialect)
    for field_format, sql_field in zip(cid.field_formats, factory.sql_fields()):
        is_not_null = sql_field[4]
        expected = not field_format.is_allowed_to_be_empty
        print(
            "%-12s field %-9s allowed to be empty=%-5s -> is_not_null=%-5s (expected %s)"
            % (dialect, field_format.field_name, field_format.is_allowed_to_be_empty, is_not_null, expected)
        )
        if is_not_null != expected:
            violations += 1
print("violations:", violations)
sys.exit(1 if violations else 0)
