"""
C19 finding 1: a Decimal rule that is open on one side gets a column whose total digits are
those of the one limit that happens to be written down, although the rule implies no bound.
"""
import re
import sys

from cutplace import interface, sql

violations = 0
for rule, accepted_value in (("0.5...", "123456.5"), ("0...", "98765"), ("0...9.99, 100...", "1234567.25")):
    cid = interface.Cid()
    cid.read("inline", [["D", "Format", "Delimited"], ["F", "amount", "", "", "", "Decimal", rule]])
    field = cid.field_formats[0]
    validated = field.validated(accepted_value)  # the rule accepts this value
    for name, dialect in sorted(sql.SQL_NAME_TO_DIALECT_MAP.items()):
        statement = sql.SqlFactory(cid, "t", dialect).create_table_statement()
        match = re.search(r"amount (\w+)\((\d+), (\d+)\)", statement)
        total_digits, fraction_digits = int(match.group(2)), int(match.group(3))
        integer_digits_of_value = len(str(int(validated)))
        fits = integer_digits_of_value <= total_digits - fraction_digits
        print(
            "rule %-18r %-12s -> %s(%d, %d); value %s accepted by the rule fits: %s"
            % (rule, name, match.group(1), total_digits, fraction_digits, accepted_value, fits)
        )
        if not fits:
            violations += 1
print("violations:", violations)
sys.exit(1 if violations else 0)
