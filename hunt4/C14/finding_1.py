"""
C14 finding 1: with a blank as item delimiter and "skip initial space" the writer accepts rows with an empty
item (no value has a leading blank) and emits them as two adjacent blanks; reading the output back under the
same CID merges the blanks, the row has one item less and is rejected.

Run: cd /tmp/wj_c14 && PYTHONPATH=/tmp/wj_c14 /venv/bin/python -W ignore /tmp/hunt4_c14/finding_1.py
"""
import io
import sys

from cutplace import errors, interface, validio

CID_ROWS = [
    ["d", "format", "delimited"],
    ["d", "encoding", "utf-8"],
    ["d", "item delimiter", "32"],  # a blank
    ["d", "skip initial space", "true"],
    ["d", "line delimiter", "lf"],
    ["f", "customer_id", "", "", "", "Integer"],
    ["f", "middle_name", "", "x", "", "Text"],  # may be empty
    ["f", "surname", "", "", "", "Text"],
]

cid = interface.Cid()
cid.read("inline_cid", CID_ROWS)

rows_to_write = [
    ["1", "B.", "Doe"],
    ["2", "", "Miller"],  # empty item in the middle; no value starts with a blank
    ["3", "C.", "Smith"],
]

out = io.StringIO(newline="")
accepted_rows = []
with validio.Writer(cid, out) as writer:
    for row in rows_to_write:
        try:
            writer.write_row(row)
            accepted_rows.append(row)
        except errors.DataError as error:
            print("writer rejected %r: %s" % (row, error))
text = out.getvalue()
print("writer accepted: %r" % accepted_rows)
print("output         : %r" % text)

violation = False
rows_read = []
try:
    with validio.Reader(cid, io.StringIO(text, newline="")) as reader:
        for row in reader.rows():
            rows_read.append(row)
    print("read back      : %r" % rows_read)
    if rows_read != accepted_rows:
        print("VIOLATION: rows read back differ from the rows the writer accepted")
        violation = True
except errors.DataError as error:
    print("read back      : %r, then %s: %s" % (rows_read, type(error).__name__, error))
    print("VIOLATION: output of the validating writer is rejected when read back under the same CID")
    violation = True

sys.exit(1 if violation else 0)
