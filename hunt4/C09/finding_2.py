"""
C09 finding 2: a DistinctCount rule naming something that is neither a declared field nor resolvable at all
(__dict__, __class__, __init__, ...) is accepted when the name sits in a part that is not evaluated for a count of 0.
The CID then fails at the end of every data set. (Incomplete repair bf213ba: it asks hasattr(builtins, name), which
is also true for the attributes every module object has.)

Run: cd /tmp/wj_c09 && PYTHONPATH=/tmp/wj_c09 /venv/bin/python -W ignore /tmp/hunt4_c09/finding_2.py
Exit code 1 = violation observed, 0 = not observed.
"""
import io
import sys

from cutplace import errors, interface, validio


def outcome(cid_text):
    try:
        return interface.create_cid_from_string(cid_text), None
    except errors.InterfaceError as error:
        return None, error


violations = 0
# Control: an ordinary undeclared name in the unevaluated part is refused at the row of the check.
_, error = outcome("d,format,delimited\nf,a\nc,chk,DistinctCount,a == 0 or b == 1\n")
print("control 'a == 0 or b == 1':", "rejected: %s" % error if error else "ACCEPTED")

for name in ("__dict__", "__class__", "__init__", "__eq__", "__sizeof__"):
    rule = "a == 0 or %s == 1" % name
    cid, error = outcome("d,format,delimited\nf,a\nc,chk,DistinctCount,%s\n" % rule)
    if cid is None:
        print("rule %r: rejected: %s" % (rule, error))
        continue
    violations += 1
    print("rule %r: ACCEPTED although %s is no declared field (nor any other known name)" % (rule, name))
    try:
        with validio.Reader(cid, io.StringIO("x\ny\n")) as reader:
            reader.validate_rows()
        print("    data validated without error")
    except errors.CutplaceError as error:
        print("    reading 2 proper data rows then fails with %s: %s" % (type(error).__name__, error))

if violations:
    print("%d rules naming undeclared names were accepted" % violations)
    sys.exit(1)
print("no violation observed")
sys.exit(0)
