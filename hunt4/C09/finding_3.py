"""
C09 finding 3 (side effect of repair bf213ba): a DistinctCount rule that names only its declared field, builtins and a
variable it binds itself (comprehension or generator variable) is refused as naming something undefined,
although the expression is proper Python and evaluates for every count.

Run: cd /tmp/wj_c09 && PYTHONPATH=/tmp/wj_c09 /venv/bin/python -W ignore /tmp/hunt4_c09/finding_3.py
Exit code 1 = violation observed, 0 = not observed.
"""
import sys

from cutplace import errors, interface

RULES = [
    "a in [n * n for n in range(4)]",
    "a == len([n for n in range(3)])",
    "a <= sum(1 for branch in range(5))",
]

violations = 0
for rule in RULES:
    # The rule as cutplace evaluates it: the field name stands for the number of distinct values.
    plain_results = [eval(rule, {}, {"a": count}) for count in range(6)]
    cid_text = 'd,format,delimited\nf,a\nc,chk,DistinctCount,"%s"\n' % rule
    try:
        interface.create_cid_from_string(cid_text)
        print("rule %r: accepted" % rule)
    except errors.InterfaceError as error:
        violations += 1
        print("rule %r: REJECTED: %s" % (rule, error))
        print("    plain eval for counts 0...5 gives %s, so every name in it can be resolved" % plain_results)

if violations:
    print("%d rules naming only the declared field (plus builtins and their own loop variable) were rejected" % violations)
    sys.exit(1)
print("no violation observed")
sys.exit(0)
