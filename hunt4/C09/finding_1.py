"""
C09 finding 1: whether a length (or rule) with overlapping parts is accepted depends on the order of the parts.

Run: cd /tmp/wj_c09 && PYTHONPATH=/tmp/wj_c09 /venv/bin/python -W ignore /tmp/hunt4_c09/finding_1.py
Exit code 1 = violation observed, 0 = not observed.
"""
import sys

from cutplace import errors, interface


def outcome(cid_text):
    try:
        cid = interface.create_cid_from_string(cid_text)
        return "accepted", "fields=%s" % cid.field_names
    except errors.InterfaceError as error:
        return "rejected", str(error)


CASES = [
    # (what, spelling with the enclosing part first, same parts with the enclosed part first)
    ("length of a Text field (delimited)", 'f,a,,,"1...10, 5...6"', 'f,a,,,"5...6, 1...10"'),
    ("length with an open part (delimited)", 'f,a,,,"...5, 3"', 'f,a,,,"3, ...5"'),
    ("rule of an Integer field", 'f,a,,,,Integer,"0...99, 10...20"', 'f,a,,,,Integer,"10...20, 0...99"'),
    ("rule of a Decimal field", 'f,a,,,,Decimal,"0...9.5, 1.5...2.5"', 'f,a,,,,Decimal,"1.5...2.5, 0...9.5"'),
]

violations = 0
for what, big_first_row, small_first_row in CASES:
    big_first = outcome("d,format,delimited\n" + big_first_row + "\n")
    small_first = outcome("d,format,delimited\n" + small_first_row + "\n")
    print(what)
    print("  %-40s -> %s: %s" % (big_first_row, big_first[0], big_first[1]))
    print("  %-40s -> %s: %s" % (small_first_row, small_first[0], small_first[1]))
    if big_first[0] != small_first[0]:
        violations += 1
        print("  VIOLATION: the same set of parts is %s in one order and %s in the other" % (big_first[0], small_first[0]))

if violations:
    print("%d of %d cases: acceptance of the CID depends on the order of overlapping parts" % (violations, len(CASES)))
    sys.exit(1)
print("no violation observed")
sys.exit(0)
