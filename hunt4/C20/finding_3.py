"""
C20 finding 3: ``interface.import_plugins()`` executes the modules of the plugin folder outside of Python's import
system: the module is never entered in ``sys.modules`` and the plugin folder is not on the module search path.
Plugin modules that are perfectly fine as "standard Python modules" (docs/api.rst) therefore fail while they are
imported, and the field formats and checks they define can never be resolved by name:

A. a plugin that uses a ``dataclass`` together with ``from __future__ import annotations`` (or quoted annotations)
   fails with ``AttributeError: 'NoneType' object has no attribute '__dict__'`` because ``dataclasses`` looks
   up ``sys.modules[cls.__module__]``;
B. a plugin folder where one module builds on a base class from another module of the same folder
   (``from colorbase import ...``) fails with ``ModuleNotFoundError``.

Run: cd /tmp/wj_c20 && PYTHONPATH=/tmp/wj_c20 /venv/bin/python -W ignore /tmp/hunt4_c20/finding_3.py
"""
import os
import subprocess
import sys
import tempfile

from cutplace import errors, interface

PLUGIN_A = '''\
from __future__ import annotations

import dataclasses

from cutplace import errors, fields


@dataclasses.dataclass
class Rgb:
    red: float
    green: float
    blue: float
    count: dataclasses.InitVar[int] = 0


class ColorFieldFormat(fields.AbstractFieldFormat):
    def validated_value(self, value):
        if value != "red":
            raise errors.FieldValueError("color must be red")
        return Rgb(1.0, 0.0, 0.0)
'''

PLUGIN_B_BASE = '''\
from cutplace import fields


class NamedThingFieldFormat(fields.AbstractFieldFormat):
    names = ()

    def validated_value(self, value):
        from cutplace import errors
        if value not in self.names:
            raise errors.FieldValueError("value is %r but must be one of %r" % (value, self.names))
        return value
'''

PLUGIN_B_CHILD = '''\
from namedthingbase import NamedThingFieldFormat


class ShapeFieldFormat(NamedThingFieldFormat):
    names = ("circle", "square")
'''


def create_folder(name_to_source_map):
    result = tempfile.mkdtemp(prefix="c20_plugins_")
    for name, source in name_to_source_map.items():
        with open(os.path.join(result, name), "w", encoding="utf-8") as plugin_file:
            plugin_file.write(source)
    return result


def imports_fine_as_standard_module(folder, module_name):
    """Check in a separate process that the module is a proper Python module."""
    environment = dict(os.environ)
    environment["PYTHONPATH"] = folder + os.pathsep + environment.get("PYTHONPATH", "")
    completed = subprocess.run(
        [sys.executable, "-W", "ignore", "-c", "import %s" % module_name],
        env=environment,
        capture_output=True,
        text=True,
    )
    return completed.returncode == 0


violations = []
cases = [
    ("A", {"colorplugin.py": PLUGIN_A}, "colorplugin", "f,color,,,,Color"),
    ("B", {"namedthingbase.py": PLUGIN_B_BASE, "shapeplugin.py": PLUGIN_B_CHILD}, "shapeplugin", "f,shape,,,,Shape"),
]
for case_name, name_to_source_map, main_module, field_row in cases:
    folder = create_folder(name_to_source_map)
    is_fine = imports_fine_as_standard_module(folder, main_module)
    print("%s: 'import %s' with the folder on the module search path works: %s" % (case_name, main_module, is_fine))
    try:
        interface.import_plugins(folder)
        print("%s: import_plugins() worked" % case_name)
    except Exception as error:
        print("%s: import_plugins() failed: %s: %s" % (case_name, type(error).__name__, error))
        if is_fine:
            violations.append("%s: plugin module %s cannot be imported by import_plugins()" % (case_name, main_module))
    try:
        interface.create_cid_from_string("d,format,delimited\n" + field_row + "\n")
        print("%s: CID row %r resolved" % (case_name, field_row))
    except errors.InterfaceError as error:
        print("%s: CID row %r NOT resolved: %s ..." % (case_name, field_row, str(error)[:90]))
        if is_fine:
            violations.append("%s: CID row %r cannot be resolved" % (case_name, field_row))

print()
for violation in violations:
    print("VIOLATION:", violation)
sys.exit(1 if violations else 0)
