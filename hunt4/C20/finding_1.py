"""
C20 finding 1: a check whose cleanup() fails keeps the checks declared after it from being cleaned up, and
close() is not idempotent any more: a second close() asks every check for its end-of-data verdict again.

Run: cd /tmp/wj_c20 && PYTHONPATH=/tmp/wj_c20 /venv/bin/python -W ignore /tmp/hunt4_c20/finding_1.py
"""
import io
import sys

from cutplace import checks, errors, fields, interface, validio

LOG = []


class RecFieldFormat(fields.AbstractFieldFormat):
    def __init__(self, field_name, is_allowed_to_be_empty, length, rule, data_format):
        super().__init__(field_name, is_allowed_to_be_empty, length, rule, data_format, empty_value="")

    def validated_value(self, value):
        LOG.append(("value", self.field_name, value))
        return value


class RecCheck(checks.AbstractCheck):
    def reset(self):
        LOG.append(("reset", self.description))

    def check_row(self, field_name_to_value_map, location):
        LOG.append(("row", self.description))

    def check_at_end(self, location):
        LOG.append(("end", self.description))

    def cleanup(self):
        LOG.append(("cleanup", self.description))
        if self.rule == "cleanup fails":
            # For example a check that has to give back a file or a database connection.
            raise errors.CutplaceError("cannot release resource of check %r" % self.description)


CID_TEXT = "\n".join(
    [
        "d,format,delimited",
        "f,a,,,,Rec",
        "c,first,Rec,cleanup fails",
        "c,second,Rec,",
        "c,third,Rec,",
    ]
)

violations = []
for kind in ("reader", "writer"):
    cid = interface.create_cid_from_string(CID_TEXT)
    del LOG[:]
    if kind == "reader":
        validator = validio.Reader(cid, io.StringIO("1\n2\n"))
        validator.validate_rows()
    else:
        validator = validio.Writer(cid, io.StringIO())
        validator.write_rows([["1"], ["2"]])
    for attempt in (1, 2):
        try:
            validator.close()
            print("%s: close() #%d: ok" % (kind, attempt))
        except errors.CutplaceError as error:
            print("%s: close() #%d raised: %s" % (kind, attempt, error))
    print("%s: recorded calls: %s" % (kind, LOG))
    cleaned_up = [name for action, name, *_ in LOG if action == "cleanup"]
    end_counts = {name: sum(1 for e in LOG if e[:2] == ("end", name)) for name in ("first", "second", "third")}
    for name in ("second", "third"):
        if name not in cleaned_up:
            violations.append("%s: check %r has never been cleaned up" % (kind, name))
    for name, count in end_counts.items():
        if count != 1:
            violations.append("%s: check %r has been asked %d times for its verdict at the end" % (kind, name, count))

print()
for violation in violations:
    print("VIOLATION:", violation)
sys.exit(1 if violations else 0)
