"""
C20 finding 4 (borderline): a field format taken over from another CID with ``Cid.add_field_format()`` - which
the docstring of that method explicitly offers ("Alternatively it can be copied from existing
Cid.field_formats") - keeps judging cells by the data format of the CID it came from. In a fixed CID the value
hook is then called for cells consisting only of blanks (with the blanks as value) and for cells with
characters the CID does not allow.

Run: cd /tmp/wj_c20 && PYTHONPATH=/tmp/wj_c20 /venv/bin/python -W ignore /tmp/hunt4_c20/finding_4.py
"""
import io
import sys

from cutplace import fields, interface, validio

LOG = []


class RecFieldFormat(fields.AbstractFieldFormat):
    def __init__(self, field_name, is_allowed_to_be_empty, length, rule, data_format):
        super().__init__(field_name, is_allowed_to_be_empty, length, rule, data_format, empty_value="")

    def validated_value(self, value):
        LOG.append(value)
        return value


# The CID to take the field from: delimited, any character allowed.
source_cid = interface.create_cid_from_string("d,format,delimited\nf,code,,x,3,Rec\n")

# The CID to build in the code: fixed, only lower case letters and blanks allowed.
fixed_cid = interface.Cid()
fixed_cid.add_data_format_row(["format", "fixed"])
fixed_cid.add_data_format_row(["allowed characters", "97...122, 32"])
fixed_cid.data_format.validate()
fixed_cid.add_field_format(source_cid.field_formats[0])

# The same CID declared the usual way, for comparison.
declared_cid = interface.create_cid_from_string(
    'd,format,fixed\nd,allowed characters,"97...122, 32"\nf,code,,x,3,Rec\n'
)

DATA = "   \nA  \nab \n"
results = {}
for name, cid in (("declared", declared_cid), ("copied", fixed_cid)):
    del LOG[:]
    for _ in validio.rows(cid, io.StringIO(DATA), on_error="continue"):
        pass
    results[name] = list(LOG)
    print("%-8s CID: value hook called with %r" % (name, results[name]))

violations = []
if "   " in results["copied"]:
    violations.append("value hook called for a cell of a fixed CID that is empty after stripping the blanks")
if "A  " in results["copied"] or "A" in results["copied"]:
    violations.append("value hook called for a cell with a character that is not allowed")
if "ab " in results["copied"]:
    violations.append("value hook called with a value that has not been stripped")
print()
for violation in violations:
    print("VIOLATION:", violation)
sys.exit(1 if violations else 0)
