"""
C20 finding 2: a CID only knows the user defined field formats and checks that existed when the (still empty)
``Cid`` object was created. Classes defined or imported from a plugin folder after ``Cid()`` but before the rows
of the CID are added (``Cid.read()``, ``add_field_format_row()``, ``add_check_row()``) cannot be resolved by name,
while built-ins (and classes defined earlier) resolve fine in the very same calls.

This is the order of docs/api.rst: "Building a CID in the code" creates ``cid = Cid()`` first, the sections
"Adding your own field formats" / "Adding your own checks" define the classes afterwards.

Run: cd /tmp/wj_c20 && PYTHONPATH=/tmp/wj_c20 /venv/bin/python -W ignore /tmp/hunt4_c20/finding_2.py
"""
import os
import sys
import tempfile

from cutplace import checks, errors, fields, interface, rowio

violations = []

# --- Case A: the order used by docs/api.rst ---------------------------------------------------------------------
cid = interface.Cid()
cid.set_location_to_caller()
cid.add_data_format_row(["format", "delimited"])
cid.add_field_format_row(["id", "", "", "1...5", "Integer"])  # a built-in resolves


class ColorFieldFormat(fields.AbstractFieldFormat):
    def validated_value(self, value):
        if value not in ("red", "green", "blue"):
            raise errors.FieldValueError("color is %r but must be one of: red, green, blue" % value)
        return value


class AlwaysFineCheck(checks.AbstractCheck):
    pass


try:
    cid.add_field_format_row(["roof_color", "", "", "", "Color"])
    print("A: field type 'Color' resolved")
except errors.InterfaceError as error:
    print("A: field type 'Color' NOT resolved:", str(error)[:110], "...")
    violations.append("A: field format defined after Cid() cannot be resolved by add_field_format_row()")
try:
    cid.add_check_row(["always_fine", "AlwaysFine", ""])
    print("A: check type 'AlwaysFine' resolved")
except errors.InterfaceError as error:
    print("A: check type 'AlwaysFine' NOT resolved:", str(error)[:110], "...")
    violations.append("A: check defined after Cid() cannot be resolved by add_check_row()")
# The same rows in a CID object created now resolve.
cid_now = interface.Cid()
cid_now.add_data_format_row(["format", "delimited"])
cid_now.add_field_format_row(["roof_color", "", "", "", "Color"])
cid_now.add_check_row(["always_fine", "AlwaysFine", ""])
print("A: the same rows resolve in a Cid() created after the class definitions")

# --- Case B: plugin folder imported between Cid() and Cid.read() ------------------------------------------------
folder = tempfile.mkdtemp(prefix="c20_plugins_")
with open(os.path.join(folder, "lateplugins.py"), "w", encoding="utf-8") as plugin_file:
    plugin_file.write(
        "from cutplace import checks, fields\n"
        "class LateFieldFormat(fields.AbstractFieldFormat):\n"
        "    def validated_value(self, value):\n"
        "        return value\n"
        "class LateCheck(checks.AbstractCheck):\n"
        "    pass\n"
    )
cid_path = os.path.join(folder, "cid.csv")
with open(cid_path, "w", encoding="utf-8") as cid_file:
    cid_file.write("d,format,delimited\nf,some,,,,Late\nc,some_check,Late,\n")
cid_b = interface.Cid()
interface.import_plugins(folder)
try:
    cid_b.read(cid_path, rowio.auto_rows(cid_path))
    print("B: CID using plugin classes could be read")
except errors.InterfaceError as error:
    print("B: CID using plugin classes could NOT be read:", str(error)[:110], "...")
    violations.append("B: plugin imported after Cid() but before Cid.read() cannot be resolved")
interface.Cid(cid_path)
print("B: interface.Cid(cid_path) created afterwards reads the same CID fine")

print()
for violation in violations:
    print("VIOLATION:", violation)
sys.exit(1 if violations else 0)
