"""
C16 finding 1: strings that start with '<r>' and end with '</r>' are not written as text by XlsxRowWriter but
pasted into the workbook as raw XML. They read back as something else, and a table with such a string and an
'&' or '<' in it produces a workbook that cannot be read at all.

Run: cd /tmp/wj_c16 && PYTHONPATH=/tmp/wj_c16 /venv/bin/python -W ignore /tmp/hunt4_c16/finding_1.py
Exit code 1 = violation observed, 0 = not observed.
"""
import os
import sys
import tempfile

from cutplace import errors, rowio

TABLES = [
    [["id", "markup"], ["1", "<r>abc</r>"]],
    [["id", "markup"], ["1", "<r><t>x</t></r>"]],
    [["id", "markup"], ["1", "<r>Fish & Chips</r>"], ["2", "plain"]],
]

violation_count = 0
with tempfile.TemporaryDirectory() as folder:
    for table_index, table in enumerate(TABLES):
        xlsx_path = os.path.join(folder, "table_%d.xlsx" % table_index)
        with rowio.XlsxRowWriter(xlsx_path) as writer:
            writer.write_rows(table)
        try:
            rows_read = list(rowio.excel_rows(xlsx_path))
        except errors.DataFormatError as error:
            rows_read = "DataFormatError: %s" % error
        is_same = rows_read == table
        print("written:   %r" % table)
        print("read back: %r" % (rows_read,))
        print("->", "identical" if is_same else "DIFFERENT")
        print()
        if not is_same:
            violation_count += 1

if violation_count:
    print("VIOLATION: %d of %d tables written with XlsxRowWriter do not read back identically" % (violation_count, len(TABLES)))
    sys.exit(1)
print("no violation observed")
sys.exit(0)
