"""
C16 finding 2 (minor): empty rows at the end of a table written with XlsxRowWriter vanish, so the table that is
read back has fewer rows than the one written. (Empty rows before the last non empty row survive as rows of
empty strings, which is the documented padding.)

Run: cd /tmp/wj_c16 && PYTHONPATH=/tmp/wj_c16 /venv/bin/python -W ignore /tmp/hunt4_c16/finding_2.py
Exit code 1 = violation observed, 0 = not observed.
"""
import os
import sys
import tempfile

from cutplace import rowio

TABLES = [
    [["a"], []],
    [["a", "b"], [], ["c", "d"], [], []],
    [[], []],
]

violation_count = 0
with tempfile.TemporaryDirectory() as folder:
    for table_index, table in enumerate(TABLES):
        xlsx_path = os.path.join(folder, "table_%d.xlsx" % table_index)
        with rowio.XlsxRowWriter(xlsx_path) as writer:
            writer.write_rows(table)
        rows_read = list(rowio.excel_rows(xlsx_path))
        print("written:   %d rows %r" % (len(table), table))
        print("read back: %d rows %r" % (len(rows_read), rows_read))
        # Compare modulo the documented padding to the width of the sheet.
        width = max(len(row) for row in table)
        padded_table = [row + [""] * (width - len(row)) for row in table]
        if rows_read != padded_table:
            print("-> DIFFERENT even after padding the written rows to the width of the sheet")
            violation_count += 1
        else:
            print("-> identical (after padding)")
        print()

if violation_count:
    print("VIOLATION: %d of %d tables lost rows" % (violation_count, len(TABLES)))
    sys.exit(1)
print("no violation observed")
sys.exit(0)
