"""
C17 finding 3 (minor): the data format property "Sheet" counts differently for Excel than for ODS as soon as the
workbook contains a chart sheet: excel_rows() only counts worksheets, so for a workbook with the tabs
[Notes, Chart (chart sheet), Data] the third tab is "Sheet 2". The same workbook stored as ODS (where a chart sheet
becomes an ordinary sheet holding the chart) has the data in sheet 3. Under CIDs that differ only in their Format
property (both say "Sheet 3" as the documentation describes: the number of the sheet in the workbook) the ODS is
accepted but the Excel workbook fails with "must contain at least 3 sheet(s) instead of just 2"; with "Sheet 2" the
Excel CID silently validates the third tab.

Run: cd /tmp/wj_c17 && PYTHONPATH=/tmp/wj_c17 /venv/bin/python -W ignore /tmp/hunt4_c17/finding_3.py
"""
import os
import sys
import tempfile
import zipfile

import xlsxwriter

from cutplace import errors, interface, validio

NOTES = [["some notes"]]
TABLE = [["1", "Miller"], ["2", "Webster"]]


def write_xlsx(path):
    workbook = xlsxwriter.Workbook(path)
    notes = workbook.add_worksheet("Notes")
    notes.write_string(0, 0, NOTES[0][0])
    chart_sheet = workbook.add_chartsheet("Chart")
    data_sheet = workbook.add_worksheet("Data")
    for y, row in enumerate(TABLE):
        for x, item in enumerate(row):
            data_sheet.write_string(y, x, item)
    chart = workbook.add_chart({"type": "column"})
    chart.add_series({"values": "=Data!$A$1:$A$2"})
    chart_sheet.set_chart(chart)
    workbook.close()


def write_ods(path):
    ns = (
        'xmlns:office="urn:oasis:names:tc:opendocument:xmlns:office:1.0" '
        'xmlns:table="urn:oasis:names:tc:opendocument:xmlns:table:1.0" '
        'xmlns:text="urn:oasis:names:tc:opendocument:xmlns:text:1.0"'
    )

    def table_xml(name, rows):
        return '<table:table table:name="%s">%s</table:table>' % (
            name,
            "".join(
                "<table:table-row>"
                + "".join(
                    '<table:table-cell office:value-type="string"><text:p>%s</text:p></table:table-cell>' % c
                    for c in row
                )
                + "</table:table-row>"
                for row in rows
            ),
        )

    # NOTE: ODS has no chart sheets; spreadsheet applications store them as ordinary sheet that holds the chart.
    content = (
        '<?xml version="1.0" encoding="UTF-8"?><office:document-content %s><office:body><office:spreadsheet>'
        "%s%s%s</office:spreadsheet></office:body></office:document-content>"
        % (ns, table_xml("Notes", NOTES), table_xml("Chart", [[""]]), table_xml("Data", TABLE))
    )
    with zipfile.ZipFile(path, "w") as ods_zip:
        ods_zip.writestr("mimetype", "application/vnd.oasis.opendocument.spreadsheet")
        ods_zip.writestr("content.xml", content.encode("utf-8"))


def verdicts(format_name, sheet, data_path):
    cid = interface.create_cid_from_string(
        "D,Format,%s\nD,Sheet,%d\nF,customer_id,,,,Integer,0...99999\nF,surname\n" % (format_name, sheet)
    )
    result = []
    try:
        with validio.Reader(cid, data_path, on_error="yield") as reader:
            for row_or_error in reader.rows():
                if isinstance(row_or_error, errors.DataError):
                    result.append("rejected")
                else:
                    result.append(("accepted", row_or_error))
    except errors.CutplaceError as error:
        result.append("FAILED with %s: %s" % (type(error).__name__, error))
    return result


def main():
    folder = tempfile.mkdtemp(prefix="c17_finding_3_")
    ods_path = os.path.join(folder, "workbook.ods")
    xlsx_path = os.path.join(folder, "workbook.xlsx")
    write_ods(ods_path)
    write_xlsx(xlsx_path)
    is_violated = False
    for sheet in (3, 2):
        ods_verdicts = verdicts("ODS", sheet, ods_path)
        excel_verdicts = verdicts("Excel", sheet, xlsx_path)
        print("Sheet %d, ODS:   %s" % (sheet, ods_verdicts))
        print("Sheet %d, Excel: %s" % (sheet, excel_verdicts))
        if ods_verdicts != excel_verdicts:
            is_violated = True
    print("VIOLATION: verdicts depend on the storage format" if is_violated else "ok: same verdicts")
    return 1 if is_violated else 0


if __name__ == "__main__":
    sys.exit(main())
