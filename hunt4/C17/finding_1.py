"""
C17 finding 1: a table stored as UTF-8 delimited text with a byte order mark (the way Excel's "CSV UTF-8" export and
Windows editors store it) gets a different verdict / value for its first cell than the same table stored as ODS or
Excel, under CIDs that differ only in their Format property (Encoding: UTF-8 as the documentation suggests).

Run: cd /tmp/wj_c17 && PYTHONPATH=/tmp/wj_c17 /venv/bin/python -W ignore /tmp/hunt4_c17/finding_1.py
"""
import csv
import os
import sys
import tempfile
import zipfile

import xlsxwriter

from cutplace import errors, interface, validio

TABLE = [["1", "Miller"], ["2", "Webster"]]


def write_csv_utf8_with_bom(path, rows):
    with open(path, "w", newline="", encoding="utf-8-sig") as csv_file:
        csv.writer(csv_file).writerows(rows)


def write_xlsx(path, rows):
    workbook = xlsxwriter.Workbook(path)
    worksheet = workbook.add_worksheet()
    for y, row in enumerate(rows):
        for x, item in enumerate(row):
            worksheet.write_string(y, x, item)
    workbook.close()


def write_ods(path, rows):
    ns = (
        'xmlns:office="urn:oasis:names:tc:opendocument:xmlns:office:1.0" '
        'xmlns:table="urn:oasis:names:tc:opendocument:xmlns:table:1.0" '
        'xmlns:text="urn:oasis:names:tc:opendocument:xmlns:text:1.0"'
    )
    body = "".join(
        "<table:table-row>"
        + "".join('<table:table-cell office:value-type="string"><text:p>%s</text:p></table:table-cell>' % c for c in row)
        + "</table:table-row>"
        for row in rows
    )
    content = (
        '<?xml version="1.0" encoding="UTF-8"?><office:document-content %s><office:body><office:spreadsheet>'
        '<table:table table:name="Sheet1">%s</table:table></office:spreadsheet></office:body>'
        "</office:document-content>" % (ns, body)
    )
    with zipfile.ZipFile(path, "w") as ods_zip:
        ods_zip.writestr("mimetype", "application/vnd.oasis.opendocument.spreadsheet")
        ods_zip.writestr("content.xml", content.encode("utf-8"))


def verdicts(format_name, data_path):
    cid = interface.create_cid_from_string(
        "D,Format,%s\nD,Encoding,UTF-8\nF,customer_id,,,,Integer,0...99999\nF,surname\n" % format_name
    )
    result = []
    with validio.Reader(cid, data_path, on_error="yield") as reader:
        for row_or_error in reader.rows():
            if isinstance(row_or_error, errors.DataError):
                result.append("rejected")
            else:
                result.append(("accepted", row_or_error))
    return result


def main():
    folder = tempfile.mkdtemp(prefix="c17_finding_1_")
    csv_path = os.path.join(folder, "customers.csv")
    ods_path = os.path.join(folder, "customers.ods")
    xlsx_path = os.path.join(folder, "customers.xlsx")
    write_csv_utf8_with_bom(csv_path, TABLE)
    write_ods(ods_path, TABLE)
    write_xlsx(xlsx_path, TABLE)
    format_to_verdicts = {
        "Delimited": verdicts("Delimited", csv_path),
        "ODS": verdicts("ODS", ods_path),
        "Excel": verdicts("Excel", xlsx_path),
    }
    for format_name, format_verdicts in format_to_verdicts.items():
        print("%-9s %s" % (format_name, format_verdicts))
    is_violated = not (format_to_verdicts["Delimited"] == format_to_verdicts["ODS"] == format_to_verdicts["Excel"])
    print("VIOLATION: verdicts depend on the storage format" if is_violated else "ok: same verdicts")
    return 1 if is_violated else 0


if __name__ == "__main__":
    sys.exit(main())
