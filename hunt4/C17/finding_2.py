"""
C17 finding 2: a table stored as Excel workbook in the "Strict Open XML Spreadsheet (*.xlsx)" variant (ISO/IEC 29500
Strict, offered by Excel's "Save as" dialog since Excel 2013) cannot be validated at all: excel_rows() sees no sheet in
it and fails with a DataFormatError, while the same table stored as transitional xlsx, ODS or delimited text is
accepted row by row. The same holds for a CID stored that way.

Run: cd /tmp/wj_c17 && PYTHONPATH=/tmp/wj_c17 /venv/bin/python -W ignore /tmp/hunt4_c17/finding_2.py
"""
import csv
import os
import sys
import tempfile
import zipfile
from xml.sax.saxutils import escape

from cutplace import errors, interface, validio

TABLE = [["1", "Miller"], ["2", "Webster"]]
CID_ROWS = [["D", "Format", "Excel"], ["F", "customer_id", "", "", "", "Integer", "0...99999"], ["F", "surname"]]

TRANSITIONAL = (
    "http://schemas.openxmlformats.org/spreadsheetml/2006/main",
    "http://schemas.openxmlformats.org/officeDocument/2006/relationships",
)
STRICT = (
    "http://purl.oclc.org/ooxml/spreadsheetml/main",
    "http://purl.oclc.org/ooxml/officeDocument/relationships",
)


def write_xlsx(path, rows, namespaces):
    """Minimal workbook with inline shared strings the way Excel writes it, using the given namespaces."""
    main, rel = namespaces
    strings = []
    sheet_rows = []
    for y, row in enumerate(rows, 1):
        cells = []
        for x, item in enumerate(row):
            cells.append('<c r="%s%d" t="s"><v>%d</v></c>' % (chr(65 + x), y, len(strings)))
            strings.append("<si><t>%s</t></si>" % escape(item))
        sheet_rows.append('<row r="%d">%s</row>' % (y, "".join(cells)))
    package_rel = "http://schemas.openxmlformats.org/package/2006/relationships"
    with zipfile.ZipFile(path, "w") as xlsx_zip:
        xlsx_zip.writestr(
            "[Content_Types].xml",
            '<?xml version="1.0"?><Types xmlns="http://schemas.openxmlformats.org/package/2006/content-types">'
            '<Default Extension="rels" ContentType="application/vnd.openxmlformats-package.relationships+xml"/>'
            '<Default Extension="xml" ContentType="application/xml"/>'
            '<Override PartName="/xl/workbook.xml" ContentType="application/vnd.openxmlformats-officedocument.'
            'spreadsheetml.sheet.main+xml"/>'
            '<Override PartName="/xl/worksheets/sheet1.xml" ContentType="application/vnd.openxmlformats-'
            'officedocument.spreadsheetml.worksheet+xml"/>'
            '<Override PartName="/xl/sharedStrings.xml" ContentType="application/vnd.openxmlformats-officedocument.'
            'spreadsheetml.sharedStrings+xml"/></Types>',
        )
        xlsx_zip.writestr(
            "_rels/.rels",
            '<?xml version="1.0"?><Relationships xmlns="%s"><Relationship Id="rId1" Type="%s/officeDocument" '
            'Target="xl/workbook.xml"/></Relationships>' % (package_rel, rel),
        )
        xlsx_zip.writestr(
            "xl/workbook.xml",
            '<?xml version="1.0"?><workbook xmlns="%s" xmlns:r="%s"%s><sheets><sheet name="Sheet1" sheetId="1" '
            'r:id="rId1"/></sheets></workbook>' % (main, rel, ' conformance="strict"' if namespaces is STRICT else ""),
        )
        xlsx_zip.writestr(
            "xl/_rels/workbook.xml.rels",
            '<?xml version="1.0"?><Relationships xmlns="%s">'
            '<Relationship Id="rId1" Type="%s/worksheet" Target="worksheets/sheet1.xml"/>'
            '<Relationship Id="rId2" Type="%s/sharedStrings" Target="sharedStrings.xml"/></Relationships>'
            % (package_rel, rel, rel),
        )
        xlsx_zip.writestr(
            "xl/worksheets/sheet1.xml",
            '<?xml version="1.0"?><worksheet xmlns="%s"><sheetData>%s</sheetData></worksheet>'
            % (main, "".join(sheet_rows)),
        )
        xlsx_zip.writestr(
            "xl/sharedStrings.xml", '<?xml version="1.0"?><sst xmlns="%s">%s</sst>' % (main, "".join(strings))
        )


def write_ods(path, rows):
    ns = (
        'xmlns:office="urn:oasis:names:tc:opendocument:xmlns:office:1.0" '
        'xmlns:table="urn:oasis:names:tc:opendocument:xmlns:table:1.0" '
        'xmlns:text="urn:oasis:names:tc:opendocument:xmlns:text:1.0"'
    )
    body = "".join(
        "<table:table-row>"
        + "".join(
            '<table:table-cell office:value-type="string"><text:p>%s</text:p></table:table-cell>' % escape(c) for c in row
        )
        + "</table:table-row>"
        for row in rows
    )
    content = (
        '<?xml version="1.0" encoding="UTF-8"?><office:document-content %s><office:body><office:spreadsheet>'
        '<table:table table:name="Sheet1">%s</table:table></office:spreadsheet></office:body>'
        "</office:document-content>" % (ns, body)
    )
    with zipfile.ZipFile(path, "w") as ods_zip:
        ods_zip.writestr("mimetype", "application/vnd.oasis.opendocument.spreadsheet")
        ods_zip.writestr("content.xml", content.encode("utf-8"))


def verdicts(format_name, data_path):
    cid = interface.create_cid_from_string(
        "D,Format,%s\nF,customer_id,,,,Integer,0...99999\nF,surname\n" % format_name
    )
    result = []
    try:
        with validio.Reader(cid, data_path, on_error="yield") as reader:
            for row_or_error in reader.rows():
                if isinstance(row_or_error, errors.DataError):
                    result.append("rejected")
                else:
                    result.append(("accepted", row_or_error))
    except errors.CutplaceError as error:
        result.append("FAILED with %s: %s" % (type(error).__name__, error))
    return result


def main():
    folder = tempfile.mkdtemp(prefix="c17_finding_2_")
    csv_path = os.path.join(folder, "customers.csv")
    with open(csv_path, "w", newline="", encoding="cp1252") as csv_file:
        csv.writer(csv_file).writerows(TABLE)
    ods_path = os.path.join(folder, "customers.ods")
    write_ods(ods_path, TABLE)
    transitional_path = os.path.join(folder, "customers_transitional.xlsx")
    write_xlsx(transitional_path, TABLE, TRANSITIONAL)
    strict_path = os.path.join(folder, "customers_strict.xlsx")
    write_xlsx(strict_path, TABLE, STRICT)
    name_to_verdicts = {
        "Delimited": verdicts("Delimited", csv_path),
        "ODS": verdicts("ODS", ods_path),
        "Excel (transitional)": verdicts("Excel", transitional_path),
        "Excel (strict)": verdicts("Excel", strict_path),
    }
    for name, name_verdicts in name_to_verdicts.items():
        print("%-21s %s" % (name, name_verdicts))

    # The same for a CID.
    strict_cid_path = os.path.join(folder, "cid_strict.xlsx")
    write_xlsx(strict_cid_path, CID_ROWS, STRICT)
    transitional_cid_path = os.path.join(folder, "cid_transitional.xlsx")
    write_xlsx(transitional_cid_path, CID_ROWS, TRANSITIONAL)
    cid_results = []
    for cid_path in (transitional_cid_path, strict_cid_path):
        try:
            cid = interface.Cid(cid_path)
            cid_results.append("ok: %s" % cid.field_names)
        except errors.CutplaceError as error:
            cid_results.append("FAILED with %s: %s" % (type(error).__name__, error))
        print("CID %-25s %s" % (os.path.basename(cid_path), cid_results[-1]))

    is_violated = (len(set(str(v) for v in name_to_verdicts.values())) != 1) or (
        cid_results[0].startswith("ok") != cid_results[1].startswith("ok")
    )
    print("VIOLATION: verdicts depend on the storage format" if is_violated else "ok: same verdicts")
    return 1 if is_violated else 0


if __name__ == "__main__":
    sys.exit(main())
