"""
Borderline (outside the quantification "1..3 fields"): an empty list of field widths.

fixed_rows() documents and asserts its preconditions (source, encoding, every length >= 1, line delimiter) but
accepts an empty list of fields. A CID built with the API (Cid.read() is the only place that insists on fields)
gets as far as Reader.rows(). Then

* with line delimiter LF, CR, CRLF or any: a stream consisting of line delimiters only is accepted and no row is
  returned, so the returned rows do not reproduce the input;
* with line delimiter none: the loop never ends, not even for an empty stream (neither an error nor rows).
"""
import io
import signal
import sys

from cutplace import errors, interface, rowio, validio

violated = False

# 1. Directly: only line delimiters, no fields.
for line_delimiter, text in (("\n", "\n\n\n"), ("\r\n", "\r\n\r\n"), ("any", "\n\r\r\n")):
    try:
        rows = list(rowio.fixed_rows(io.StringIO(text, newline=""), "utf-8", [], line_delimiter))
        print("fixed_rows(%r, [], %r) -> accepted, rows=%r (input has %d characters)" % (text, line_delimiter, rows, len(text)))
        if "".join("".join(row) for row in rows) == "" and text != "":
            violated = True
    except errors.DataFormatError as error:
        print("fixed_rows(%r, [], %r) -> DataFormatError: %s" % (text, line_delimiter, error))
    except AssertionError:
        print("fixed_rows(%r, [], %r) -> AssertionError (look-ahead character that no field consumes)" % (text, line_delimiter))
        violated = True

# 2. Through the API: a CID without fields.
cid = interface.Cid()
cid.add_data_format_row(["format", "fixed"])
cid.add_data_format_row(["line delimiter", "lf"])
cid.data_format.validate()
try:
    with validio.Reader(cid, io.StringIO("\n\n\n", newline="")) as reader:
        rows = list(reader.rows())
    print("Reader(cid without fields, '\\n\\n\\n') -> accepted, rows=%r" % rows)
    violated = True
except errors.CutplaceError as error:
    print("Reader(cid without fields) -> %s: %s" % (type(error).__name__, error))
except AssertionError as error:
    print("Reader(cid without fields) -> AssertionError: %s" % error)


# 3. No line delimiter: never returns.
def on_alarm(*_):
    raise TimeoutError()


signal.signal(signal.SIGALRM, on_alarm)
signal.alarm(3)
try:
    rows = list(rowio.fixed_rows(io.StringIO("", newline=""), "utf-8", [], None))
    print("fixed_rows('', [], None) -> rows=%r" % rows)
except errors.DataFormatError as error:
    print("fixed_rows('', [], None) -> DataFormatError: %s" % error)
except TimeoutError:
    print("fixed_rows('', [], None) -> still running after 3 seconds (endless loop)")
    violated = True
finally:
    signal.alarm(0)

sys.exit(1 if violated else 0)
