"""
C02 / Integer: with only a length given, an integer whose text fits the length is rejected when the
length has a part without upper limit next to another part ("3, 1...", "2...4, 0...", "5..., 1...").
"""
import io
import sys

import cutplace
import cutplace.errors


def fits(text, length_items):
    return any(
        (lower is None or len(text) >= lower) and (upper is None or len(text) <= upper) for lower, upper in length_items
    )


violation = False
for length in ["3, 1...", "2...4, 0...", "5..., 1..."]:
    cid_text = "\n".join(["D,Format,Delimited", 'F,number,,,"%s",Integer,' % length])
    try:
        cid = cutplace.Cid(io.StringIO(cid_text))
    except cutplace.errors.InterfaceError as error:
        print("length %r: declaration refused (%s)" % (length, error))
        continue
    field = cid.field_format_for("number")
    print("length %r -> parts of the length %r, derived range of values: %s" % (length, field.length.items, field.valid_range))
    for text in ["5", "12", "123", "1234", "-5", "123456"]:
        must_accept = fits(text, field.length.items)
        try:
            with cutplace.Reader(cid, io.StringIO(text + "\n")) as reader:
                list(reader.rows())
            accepted = True
            detail = ""
        except cutplace.errors.DataError as error:
            accepted = False
            detail = " (%s)" % error
        print("   cell %-8r fits the length: %-5s accepted: %-5s%s" % (text, must_accept, accepted, detail))
        if must_accept and not accepted:
            violation = True

print("VIOLATION" if violation else "no violation")
sys.exit(1 if violation else 0)
