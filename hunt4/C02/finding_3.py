"""
C02 / DateTime: the characters of the rule that are no place holder need not appear as specified:
letters are compared ignoring case (time.strptime() matches with re.IGNORECASE).
"""
import io
import sys

import cutplace
import cutplace.errors

violation = False
for rule, proper, mutated in [
    ("YYYY-MM-DDThh:mm:ssZ", "2020-01-02T03:04:05Z", "2020-01-02t03:04:05z"),
    ("DD.MM.YYYY UTC", "02.01.2020 UTC", "02.01.2020 utc"),
    ("hhHmm", "13H45", "13h45"),
]:
    cid = cutplace.Cid(io.StringIO('D,Format,Delimited\nF,moment,,,,DateTime,"%s"' % rule))
    for text in (proper, mutated):
        try:
            with cutplace.Reader(cid, io.StringIO(text + "\n")) as reader:
                list(reader.rows())
            accepted = True
        except cutplace.errors.DataError as error:
            accepted = False
        print("rule %-22r cell %-24r accepted: %s" % (rule, text, accepted))
        if text == mutated and accepted:
            violation = True

print("VIOLATION" if violation else "no violation")
sys.exit(1 if violation else 0)
