"""
C02 / RegEx: "^" and "$" of a RegEx rule also match at line breaks inside the cell (re.MULTILINE),
so a rule anchored with "$" accepts cells that the regular expression does not match.
"""
import io
import os
import re
import sys
import tempfile

import cutplace
import cutplace.errors

RULE = r"^\d+$"
CID = "\n".join([
    "D,Format,Delimited",
    "D,Line delimiter,LF",
    "F,code,,,,RegEx," + RULE,
])
# One row whose only cell is the two line text '12<LF>abc; not digits' (quoted, which is legal CSV).
BAD_VALUE = "12\nabc; not digits"
DATA = '"%s"\n' % BAD_VALUE

violation = False

# What the regular expression itself says (ignoring case only, as the statement describes).
plain = re.compile(RULE, re.IGNORECASE)
print("re.compile(%r, re.IGNORECASE).match(%r) -> %r" % (RULE, BAD_VALUE, plain.match(BAD_VALUE)))

cid = cutplace.Cid(io.StringIO(CID))
field = cid.field_format_for("code")
try:
    result = field.validated(BAD_VALUE)
    print("field.validated(%r) -> accepted, returned %r" % (BAD_VALUE, result))
    if plain.match(BAD_VALUE) is None:
        violation = True
except cutplace.errors.FieldValueError as error:
    print("field.validated(%r) -> rejected: %s" % (BAD_VALUE, error))

# Same through a reader on delimited data.
try:
    with cutplace.Reader(cid, io.StringIO(DATA)) as reader:
        rows = list(reader.rows())
    print("Reader (delimited) accepted rows: %r" % rows)
    if rows and plain.match(rows[0][0]) is None:
        violation = True
except cutplace.errors.DataError as error:
    print("Reader (delimited) rejected: %s" % error)

# Same with an Excel sheet, where a cell with a line break is nothing unusual.
try:
    import xlsxwriter

    folder = tempfile.mkdtemp()
    xlsx_path = os.path.join(folder, "data.xlsx")
    workbook = xlsxwriter.Workbook(xlsx_path)
    sheet = workbook.add_worksheet()
    sheet.write_string(0, 0, BAD_VALUE)
    workbook.close()
    excel_cid = cutplace.Cid(io.StringIO("D,Format,Excel\nF,code,,,,RegEx," + RULE))
    try:
        with cutplace.Reader(excel_cid, xlsx_path) as reader:
            rows = list(reader.rows())
        print("Reader (excel) accepted rows: %r" % rows)
        if rows and plain.match(rows[0][0]) is None:
            violation = True
    except cutplace.errors.DataError as error:
        print("Reader (excel) rejected: %s" % error)
except ImportError:
    print("xlsxwriter not available, skipped the Excel part")

# The e-mail rule from docs/writing-an-icd.rst
doc_rule = r"^[A-Z0-9._%+-]+@[A-Z0-9.-]+\.[A-Z]{2,4}$"
doc_cid = cutplace.Cid(io.StringIO('D,Format,Delimited\nF,email,,,,RegEx,"%s"' % doc_rule))
doc_value = "some@example.com\n<anything at all>"
try:
    doc_cid.field_format_for("email").validated(doc_value)
    print("documented e-mail rule accepts %r" % doc_value)
    if re.compile(doc_rule, re.IGNORECASE).match(doc_value) is None:
        violation = True
except cutplace.errors.FieldValueError as error:
    print("documented e-mail rule rejects %r: %s" % (doc_value, error))

print("VIOLATION" if violation else "no violation")
sys.exit(1 if violation else 0)
