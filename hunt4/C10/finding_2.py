"""
C10 finding 2: problems in the CID itself are reported as data errors. A CID stored as CSV with a
stray quote in a cell, an unterminated quote, or a byte that is no UTF-8 (say a comment typed in
Latin-1) makes Cid(), Reader(), validate() and rows() raise cutplace.errors.DataFormatError - a
DataError ("problem in the data") and no InterfaceError ("problem in the CID"), although the data
are perfectly fine. The same holds for a damaged ODS or Excel CID.

Uses only the public API. Exits 1 if the violation occurs, 0 otherwise.
"""
import os
import sys
import tempfile
import zipfile

from cutplace import errors, interface, validio

folder = tempfile.mkdtemp(prefix="c10_f2_")
data_path = os.path.join(folder, "data.csv")
with open(data_path, "wb") as data_file:
    data_file.write(b"1\n2\n")

CID_FILES = [
    ("stray quote in a cell", "cid1.csv", b'd,format,delimited\nf,"x"y\n'),
    ("unterminated quote in a rule cell", "cid2.csv", b'd,format,delimited\nf,x,,,,Choice,"a\n'),
    ("Latin-1 byte in a comment cell", "cid3.csv", b"d,format,delimited\n,Stra\xdfe\nf,x\n"),
    ("ODS CID without content.xml", "cid4.ods", None),
]

violations = 0
for description, name, content in CID_FILES:
    cid_path = os.path.join(folder, name)
    if content is None:
        with zipfile.ZipFile(cid_path, "w") as ods_file:
            ods_file.writestr("mimetype", "application/vnd.oasis.opendocument.spreadsheet")
    else:
        with open(cid_path, "wb") as cid_file:
            cid_file.write(content)
    for label, action in [
        ("Cid(cid_path)", lambda: interface.Cid(cid_path)),
        ("validate(cid_path, data_path)", lambda: validio.validate(cid_path, data_path)),
    ]:
        try:
            action()
            outcome = "succeeded"
        except errors.InterfaceError as error:
            outcome = "InterfaceError (fine): %s" % error
        except errors.DataError as error:
            outcome = "VIOLATION %s (a DataError for a broken CID): %s" % (type(error).__name__, error)
            violations += 1
        except BaseException as error:  # noqa
            outcome = "VIOLATION %s: %s" % (type(error).__name__, error)
            violations += 1
        print("%-34s %-30s -> %s" % (description, label, outcome[:150]))

print("violations:", violations)
sys.exit(1 if violations else 0)
