"""
C10 finding 1: a fixed-width CID with a field length that fits into sys.maxsize but not into
memory (for example 999999999999999, the very value of the already repaired Integer case) is
accepted; validating even a 4 byte data file given as path (or as open text file) then fails
with MemoryError, the Writer fails with MemoryError too, and the command line answers with
exit code 4.

Uses only the public API. Exits 1 if the violation occurs, 0 otherwise.
"""
import io
import logging
import os
import sys
import tempfile

from cutplace import applications, errors, interface, validio

LENGTH = "999999999999999"  # < sys.maxsize, so it passes the check added by 8079c54

folder = tempfile.mkdtemp(prefix="c10_f1_")
cid_path = os.path.join(folder, "cid_fixed.csv")
data_path = os.path.join(folder, "data.txt")
with open(cid_path, "w", encoding="utf-8") as cid_file:
    cid_file.write("d,format,fixed\nf,name,,,%s\n" % LENGTH)
with open(data_path, "w", encoding="cp1252") as data_file:
    data_file.write("abc\n")

violations = []


def observe(label, action):
    try:
        action()
        print("%-42s -> succeeded" % label)
    except errors.CutplaceError as error:
        print("%-42s -> %s (fine): %s" % (label, type(error).__name__, str(error)[:70]))
    except OSError as error:
        print("%-42s -> OSError (documented channel): %s" % (label, error))
    except BaseException as error:  # noqa
        print("%-42s -> VIOLATION %s: %s" % (label, type(error).__name__, error))
        violations.append(label)


cid = interface.Cid(cid_path)
print("CID accepted:", cid)
observe("validate(cid, io.StringIO('abc\\n'))", lambda: validio.validate(cid, io.StringIO("abc\n")))
observe("validate(cid, data_path)", lambda: validio.validate(cid, data_path))


def validate_open_file():
    with open(data_path, "r", encoding="cp1252", newline="") as data_stream:
        validio.validate(cid, data_stream)


observe("validate(cid, open(data_path))", validate_open_file)


def write_one_row():
    with validio.Writer(cid, io.StringIO()) as writer:
        writer.write_row(["abc"])


observe("Writer(cid, io.StringIO()).write_row(['abc'])", write_one_row)

logging.basicConfig(level=logging.CRITICAL)
logging.getLogger("cutplace").setLevel(logging.CRITICAL)
exit_code = applications.main(["cutplace", "--log", "critical", cid_path, data_path])
print("command line: cutplace %s %s -> exit code %d" % (os.path.basename(cid_path), os.path.basename(data_path), exit_code))
if exit_code == 4:
    violations.append("exit code 4")

print("violations:", violations)
sys.exit(1 if violations else 0)
