"""
C10 finding 3: cutplace.Writer (documented as the way "to validate written data") answers a CID whose
data format cell says "excel" or "ods" with NotImplementedError instead of an InterfaceError.

Uses only the public API. Exits 1 if the violation occurs, 0 otherwise.
"""
import io
import os
import sys
import tempfile

import cutplace
from cutplace import errors, interface

folder = tempfile.mkdtemp(prefix="c10_f3_")
violations = 0
for format_name, suffix in (("excel", ".xlsx"), ("ods", ".ods"), ("delimited", ".csv")):
    cid = interface.create_cid_from_string("d,format,%s\nf,x\n" % format_name)
    for target in (io.StringIO(), os.path.join(folder, "out" + suffix)):
        try:
            with cutplace.Writer(cid, target) as writer:
                writer.write_row(["a"])
            outcome = "succeeded"
        except errors.CutplaceError as error:
            outcome = "%s (fine): %s" % (type(error).__name__, error)
        except BaseException as error:  # noqa
            outcome = "VIOLATION %s: %s" % (type(error).__name__, error)
            violations += 1
        print("format=%-10s target=%-10s -> %s" % (format_name, type(target).__name__, outcome))
print("violations:", violations)
sys.exit(1 if violations else 0)
