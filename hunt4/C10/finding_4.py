"""
C10 finding 4 (configuration: warnings promoted to errors, for example PYTHONWARNINGS=error::FutureWarning
or pytest's "filterwarnings = error"): hostile CID cells make Cid.read() fail with FutureWarning or
DeprecationWarning instead of an InterfaceError, and the command line answers with exit code 4.

* RegEx rule "[[a]"           -> re.compile() emits FutureWarning ("Possible nested set"), which
                                 RegExFieldFormat.__init__ does not catch
* quoted character '\d'       -> the "unicode_escape" codec used by ranges.code_for_string_token() emits
                                 DeprecationWarning ("invalid escape sequence"), which is no UnicodeError

Uses only the public API. Exits 1 if the violation occurs, 0 otherwise.
"""
import logging
import os
import sys
import tempfile
import warnings

from cutplace import applications, errors, interface

CASES = [
    ("RegEx rule [[a]", "d,format,delimited\nf,x,,,,RegEx,[[a]\n", FutureWarning),
    ("RegEx rule [a--b]", "d,format,delimited\nf,x,,,,RegEx,[a--b]\n", FutureWarning),
    ("item delimiter '\\d'", "d,format,delimited\nd,item delimiter,'\\d'\nf,x\n", DeprecationWarning),
    ("allowed characters '\\q'", "d,format,delimited\nd,allowed characters,'\\q'\nf,x\n", DeprecationWarning),
    ("field length '\\q'", "d,format,delimited\nf,x,,,'\\q'\n", DeprecationWarning),
]

folder = tempfile.mkdtemp(prefix="c10_f4_")
logging.basicConfig(level=logging.CRITICAL)
violations = 0
for description, cid_text, warning_class in CASES:
    cid_path = os.path.join(folder, "cid.csv")
    with open(cid_path, "w", encoding="utf-8") as cid_file:
        cid_file.write(cid_text)
    with warnings.catch_warnings():
        # The same as running Python with: -W error::FutureWarning -W error::DeprecationWarning
        warnings.simplefilter("error", warning_class)
        try:
            interface.create_cid_from_string(cid_text)
            api_outcome = "accepted"
        except errors.CutplaceError as error:
            api_outcome = "%s (fine)" % type(error).__name__
        except BaseException as error:  # noqa
            api_outcome = "VIOLATION %s: %s" % (type(error).__name__, error)
            violations += 1
        exit_code = applications.main(["cutplace", "--log", "critical", cid_path])
        if exit_code == 4:
            violations += 1
    print("%-26s API -> %-62s command line -> exit code %d" % (description, api_outcome[:62], exit_code))
print("violations:", violations)
sys.exit(1 if violations else 0)
