"""
Finding 2: malformed spellings of the item delimiter that only make sense to
Python's tokenizer are accepted: a backslash followed by a line break (a
Python line continuation) or form feed characters in front of or after a
character code are silently dropped, so the cell

    \
    44

(backslash, line feed, "44") or "<form feed>44" declare a comma as item
delimiter. Neither is a literal character, a decimal or hex code, a quoted
string or a symbolic name.

Exit code 1 if the violation occurs, 0 otherwise.
"""
import csv
import io
import sys

from cutplace import data, errors, interface

MALFORMED = [
    "\\\n44",  # backslash, line feed, 44
    "\\\r\n0x2c",  # backslash, carriage return + line feed, hex code
    "\\\ntab",  # continuation in front of a symbolic name
    '\\\n";"',  # continuation in front of a quoted string
    "\x0c44",  # form feed in front of the code
    "44\x0c",  # form feed after the code
    "\x0c\\\n\x0c44\x0c",  # both mixed
]
# Spellings of the same kind that are refused, for comparison.
SIMILAR_BUT_REFUSED = ["44\\\n", "4_4", "0o54", " 44", "44\n", "(44)"]

violations = 0
for value in MALFORMED + SIMILAR_BUT_REFUSED:
    data_format = data.DataFormat(data.FORMAT_DELIMITED)
    try:
        data_format.set_property(data.KEY_ITEM_DELIMITER, value)
        result = "accepted as %r" % data_format.item_delimiter
        if value in MALFORMED:
            violations += 1
    except errors.InterfaceError as error:
        result = "refused"
    print("item delimiter %r -> %s" % (value, result))

# The same through a complete CID stored as CSV where the value is a cell with a line break.
cid_stream = io.StringIO(newline="")
csv.writer(cid_stream).writerows([["D", "Format", "Delimited"], ["D", "Item delimiter", "\\\n59"], ["F", "a"], ["F", "b"]])
cid_stream.seek(0)
try:
    cid = interface.Cid(cid_stream)
    print("CID with item delimiter cell %r -> accepted as %r" % ("\\\n59", cid.data_format.item_delimiter))
    violations += 1
except errors.InterfaceError as error:
    print("CID with item delimiter cell %r -> refused: %s" % ("\\\n59", error))

if violations:
    print("VIOLATION: %d malformed spellings of the item delimiter are accepted" % violations)
    sys.exit(1)
print("no violation")
sys.exit(0)
