"""
Finding 1: the documented spelling u"\u00dc" (a quoted character with the
string prefix u, see docs/writing-an-icd.rst, section "Ranges", table
"Example escaped text") is refused for the data format properties
"Allowed characters" and "Item delimiter", while the same text without the
prefix is accepted.

Exit code 1 if the violation occurs, 0 otherwise.
"""
import io
import sys

from cutplace import data, errors, interface

DOCUMENTED = 'u"\\u00dc"'  # exactly as printed in the documentation: u"\u00dc", "same as 220"
PLAIN = '"\\u00dc"'

violations = 0


def set_property(name, value):
    data_format = data.DataFormat(data.FORMAT_DELIMITED)
    try:
        data_format.set_property(name, value)
    except errors.InterfaceError as error:
        return "refused: %s" % error
    return "accepted: %r" % (getattr(data_format, name),)


for name in (data.KEY_ALLOWED_CHARACTERS, data.KEY_ITEM_DELIMITER):
    with_prefix = set_property(name, DOCUMENTED)
    without_prefix = set_property(name, PLAIN)
    print("%s = %s -> %s" % (name, DOCUMENTED, with_prefix))
    print("%s = %s -> %s" % (name, PLAIN, without_prefix))
    if with_prefix.startswith("refused") and without_prefix.startswith("accepted"):
        violations += 1

# The same through a complete CID (CSV) read with the public Cid class.
cid_text = 'D,Format,Delimited\nD,Allowed characters,"32...127, u""\\u00dc"""\nF,name\n'
try:
    cid = interface.Cid(io.StringIO(cid_text))
    print("CID with allowed characters 32...127, %s -> accepted: %r" % (DOCUMENTED, cid.data_format.allowed_characters))
except errors.InterfaceError as error:
    print("CID with allowed characters 32...127, %s -> refused: %s" % (DOCUMENTED, error))
    violations += 1

if violations:
    print("VIOLATION: a documented spelling of a character is refused (%d cases)" % violations)
    sys.exit(1)
print("no violation")
sys.exit(0)
