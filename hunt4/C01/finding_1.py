"""
C01 finding 1: a quoted text of three dots is accepted as if it was the single character U+2026.

Run: cd /tmp/wj_c01 && PYTHONPATH=/tmp/wj_c01 /venv/bin/python -W ignore /tmp/hunt4_c01/finding_1.py
"""
import sys

from cutplace import errors, ranges


def verdict(description):
    try:
        return ranges.Range(description)
    except errors.InterfaceError as error:
        return error


def accepts(some_range, value):
    try:
        some_range.validate("x", value)
        return True
    except errors.RangeValueError:
        return False


violated = False
# Neighbours that are quoted texts with more (or less) than one character: all refused, as they should.
for neighbour in ('".."', '"...."', '"ab"', '". ."', '""'):
    result = verdict(neighbour)
    print("%-8s -> %s" % (neighbour, "refused" if isinstance(result, Exception) else "ACCEPTED %s" % result.items))

for description in ('"..."', "'...'", '46, "..."', '"..."...0x2030'):
    result = verdict(description)
    if isinstance(result, Exception):
        print("%-16s -> refused: %s" % (description, result))
    else:
        print(
            "%-16s -> ACCEPTED, items=%s, accepts ord('.')=46: %s, accepts 0x2026: %s"
            % (description, result.items, accepts(result, 46), accepts(result, 0x2026))
        )
        violated = True

if violated:
    print("VIOLATION: a quoted text of 3 characters is taken for the single character U+2026 (horizontal ellipsis)")
sys.exit(1 if violated else 0)
