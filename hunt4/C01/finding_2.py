"""
C01 finding 2: in a decimal range '...' is not interchangeable with ':' and the one-character ellipsis when the
lower limit is written with a trailing dot (a spelling DecimalRange accepts everywhere else).

Run: cd /tmp/wj_c01 && PYTHONPATH=/tmp/wj_c01 /venv/bin/python -W ignore /tmp/hunt4_c01/finding_2.py
"""
import sys

from cutplace import errors, ranges

ELLIPSIS = "…"


def items_of(description):
    try:
        return ranges.DecimalRange(description).items
    except errors.InterfaceError as error:
        return "refused (%s)" % error


def accepts(description, value):
    try:
        ranges.DecimalRange(description).validate("x", value)
        return True
    except errors.RangeValueError:
        return False
    except errors.InterfaceError:
        return None


violated = False
print("'5.' on its own: %s" % items_of("5."))
for lower, upper in (("0.", "5"), ("5.", "6"), ("5.", ""), ("1.", "2.5")):
    results = {}
    for separator in (":", ELLIPSIS, "..."):
        description = lower + separator + upper
        results[separator] = items_of(description)
        print("%-10r -> %s" % (description, results[separator]))
    if not (results[":"] == results[ELLIPSIS] == results["..."]):
        violated = True
print("value 3 in '0.:5': %s; in '0.%s5': %s; in '0....5': %s" % (accepts("0.:5", "3"), ELLIPSIS, accepts("0." + ELLIPSIS + "5", "3"), accepts("0....5", "3")))
if accepts("0.:5", "3") != accepts("0....5", "3"):
    violated = True
if violated:
    print("VIOLATION: the same decimal range means something else (or is refused) when spelled with '...' instead of ':'")
sys.exit(1 if violated else 0)
