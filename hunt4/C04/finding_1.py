"""
C04 finding 1: a single Excel cell that holds a duration of 24 hours or more (or a date in January/February
1900) makes Reader.rows() give up on the whole sheet with a DataFormatError. The row with that cell is not
reported as a rejected row naming the field, and the rows after it, which satisfy the CID, are never accepted.

Run: cd /tmp/wj_c04 && PYTHONPATH=/tmp/wj_c04 /venv/bin/python -W ignore /tmp/hunt4_c04/finding_1.py
"""
import datetime
import os
import sys
import tempfile

import xlsxwriter

from cutplace import errors, interface, validio

CID_TEXT = """d,format,excel
f,name
f,worked
"""


def build_workbook(path, variant):
    workbook = xlsxwriter.Workbook(path)
    worksheet = workbook.add_worksheet()
    worksheet.write_string(0, 0, "alice")
    worksheet.write_string(0, 1, "08:00:00")
    worksheet.write_string(1, 0, "bob")
    if variant == "duration":
        # 36 hours shown by Excel as 36:00:00, the usual way to store working time in a time sheet.
        worksheet.write_number(1, 1, 1.5, workbook.add_format({"num_format": "[h]:mm:ss"}))
    else:
        # A perfectly valid date for Excel: 1900-01-15.
        worksheet.write_datetime(1, 1, datetime.datetime(1900, 1, 15), workbook.add_format({"num_format": "yyyy-mm-dd"}))
    worksheet.write_string(2, 0, "carol")
    worksheet.write_string(2, 1, "07:30:00")
    workbook.close()


def main():
    violated = False
    for variant in ("duration", "date in January 1900"):
        cid = interface.create_cid_from_string(CID_TEXT)
        with tempfile.TemporaryDirectory() as folder:
            path = os.path.join(folder, "timesheet.xlsx")
            build_workbook(path, variant)
            for on_error in ("yield", "continue"):
                results = []
                failure = None
                try:
                    with validio.Reader(cid, path, on_error=on_error) as reader:
                        for row_or_error in reader.rows():
                            results.append(row_or_error)
                except errors.CutplaceError as error:
                    failure = error
                print("variant=%r, on_error=%r" % (variant, on_error))
                for result in results:
                    print("  delivered: %r" % (result,))
                if failure is not None:
                    print("  reading stopped with %s: %s" % (type(failure).__name__, failure))
                accepted_names = [result[0] for result in results if isinstance(result, list)]
                # Row 3 has 2 items, both accepted by the Text fields, so it must be accepted. Row 2 must either
                # be accepted or be reported as a rejected row whose message names field 'worked'.
                row_3_is_accepted = "carol" in accepted_names
                row_2_is_named = (
                    failure is None
                    or ("'worked'" in failure.message)
                )
                if not row_3_is_accepted or not row_2_is_named:
                    violated = True
    if violated:
        print("VIOLATION: one cell stops the whole read; row 3 is never accepted and field 'worked' is not named")
        return 1
    print("no violation observed")
    return 0


if __name__ == "__main__":
    sys.exit(main())
