"""
C04 finding 3: with header rows declared, the limit 'validate_until' counts the header rows when the reader decides
which rows to validate, but cutplace.validate() and the command line count data rows when they decide how many rows
to process. Rows inside the limit are therefore accepted without looking at them:

* cutplace.validate(cid, data, validate_until=2) with 2 header rows processes 2 data rows and validates none,
* 'cutplace --until 1 cid data' ("maximum number of rows to validate") with 1 header row validates no row at all
  and exits with 0.

Run: cd /tmp/wj_c04 && PYTHONPATH=/tmp/wj_c04 /venv/bin/python -W ignore /tmp/hunt4_c04/finding_3.py
"""
import io
import os
import sys
import tempfile

import cutplace
from cutplace import applications, errors, interface

CID_TEXT = """d,format,delimited
d,header,2
f,amount,,,,Integer
"""
# Rows 3 and 4 are the first two data rows. Both are broken.
DATA_TEXT = "first header\nsecond header\nx\ny\n3\n"


def main():
    violated = False
    cid = interface.create_cid_from_string(CID_TEXT)

    print("without limit:")
    try:
        cutplace.validate(cid, io.StringIO(DATA_TEXT))
        print("  no error")
    except errors.DataError as error:
        print("  %s" % error)

    for validate_until in (1, 2):
        print("cutplace.validate(..., validate_until=%d):" % validate_until)
        try:
            cutplace.validate(cid, io.StringIO(DATA_TEXT), validate_until=validate_until)
            print("  no error although the first %d data row(s) are broken" % validate_until)
            violated = True
        except errors.DataError as error:
            print("  %s" % error)
        rows = list(cutplace.rows(cid, io.StringIO(DATA_TEXT), on_error="yield", validate_until=validate_until))
        print("  cutplace.rows(..., on_error='yield') delivers: %r" % rows)

    with tempfile.TemporaryDirectory() as folder:
        cid_path = os.path.join(folder, "cid.csv")
        data_path = os.path.join(folder, "data.csv")
        with open(cid_path, "w", encoding="utf-8") as cid_file:
            cid_file.write("d,format,delimited\nd,header,1\nf,amount,,,,Integer\n")
        with open(data_path, "w", encoding="cp1252") as data_file:
            data_file.write("amount\nx\n")
        exit_code_with_limit = applications.main(["cutplace", "--until", "1", cid_path, data_path])
        exit_code_without_limit = applications.main(["cutplace", cid_path, data_path])
        print("command line: exit code with '--until 1' is %d, without is %d" % (exit_code_with_limit, exit_code_without_limit))
        if (exit_code_with_limit == 0) and (exit_code_without_limit == 1):
            violated = True
    if violated:
        print("VIOLATION: broken rows within the requested number of rows to validate are accepted")
        return 1
    print("no violation observed")
    return 0


if __name__ == "__main__":
    sys.exit(main())
