"""
C04 finding 2: Excel data handed over as a stream (which the API documents as "filelike object or str") cannot be
read at all: every run ends with a DataFormatError blaming the data although all rows satisfy the CID. The same
stream handed over for an ODS CID works.

Run: cd /tmp/wj_c04 && PYTHONPATH=/tmp/wj_c04 /venv/bin/python -W ignore /tmp/hunt4_c04/finding_2.py
"""
import io
import os
import sys
import tempfile

import xlsxwriter

import cutplace
from cutplace import errors, interface

CID_TEXT = """d,format,excel
f,customer_id,,,,Integer
f,name
"""


def main():
    cid = interface.create_cid_from_string(CID_TEXT)
    with tempfile.TemporaryDirectory() as folder:
        path = os.path.join(folder, "customers.xlsx")
        workbook = xlsxwriter.Workbook(path)
        worksheet = workbook.add_worksheet()
        for row_index, row in enumerate([["1", "alice"], ["2", "bob"]]):
            for column_index, item in enumerate(row):
                worksheet.write_string(row_index, column_index, item)
        workbook.close()

        rows_from_path = list(cutplace.rows(cid, path))
        print("rows read from path: %r" % rows_from_path)

        violated = False
        with open(path, "rb") as binary_file:
            in_memory_stream = io.BytesIO(binary_file.read())
        with open(path, "rb") as binary_file:
            for description, stream in (("open(path, 'rb')", binary_file), ("io.BytesIO", in_memory_stream)):
                try:
                    rows_from_stream = list(cutplace.rows(cid, stream))
                    print("rows read from %s: %r" % (description, rows_from_stream))
                    if rows_from_stream != rows_from_path:
                        violated = True
                except errors.DataError as error:
                    print("reading from %s failed with %s: %s" % (description, type(error).__name__, error))
                    violated = True
    if violated:
        print("VIOLATION: rows that satisfy the CID are not accepted when the Excel data come from a stream")
        return 1
    print("no violation observed")
    return 0


if __name__ == "__main__":
    sys.exit(main())
