"""
C03 finding 1: with the delimited property "skip initial space" set, cutplace.Writer validates items
the way the caller passed them instead of the way they end up as cells in the data. An item consisting
only of blanks becomes an EMPTY cell of the written data, and an item with leading blanks becomes a
shorter cell, yet the Writer accepts them for a field that must not be empty / has an exact length.
The Reader rejects the very same data with the very same CID.

Exit code 1: violation observed, 0: not observed.
"""
import io
import sys

import cutplace
from cutplace import errors, interface

CID_TEXT = """d,format,delimited
d,skip initial space,true
f,code,,,2,Text
f,name,,,,Text
"""
# field "code": NOT allowed to be empty, length exactly 2
# field "name": NOT allowed to be empty, no length

cid = interface.create_cid_from_string(CID_TEXT)

rows_to_write = [
    ["ab", " "],   # name consists only of blanks -> empty cell in the written data
    ["  ", "x"],   # code consists only of blanks (2 characters) -> empty cell in the written data
    [" a", "x"],   # code has 2 characters when passed, but the cell in the data has only 1 ("a")
]

violations = 0
for row in rows_to_write:
    out = io.StringIO(newline="")
    writer = cutplace.Writer(cid, out)
    try:
        writer.write_row(row)
        written_text = out.getvalue()
        writer_accepted = True
    except errors.DataError as error:
        writer_accepted = False
        written_text = None
        print("Writer rejected %r: %s" % (row, error))
    finally:
        try:
            writer.close()
        except errors.CutplaceError:
            pass
    if not writer_accepted:
        continue
    print("Writer accepted %r and wrote %r" % (row, written_text))
    # What are the cells of the data just written, according to the same CID?
    reader = cutplace.Reader(cid, io.StringIO(written_text, newline=""), on_error="yield")
    for result in reader.rows():
        if isinstance(result, Exception):
            print("  Reader (same CID, same data) rejects it: %s" % result)
            violations += 1
        else:
            print("  Reader accepts it as %r" % (result,))

if violations:
    print("VIOLATION: %d row(s) accepted by the Writer hold an empty / too short cell in the written data" % violations)
    sys.exit(1)
print("no violation observed")
sys.exit(0)
