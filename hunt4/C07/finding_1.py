"""
C07 finding 1: 'cutplace --gui --until N CID DATA' drops the validation limit.

The command line accepts --until together with --gui, stores the limit in the
application, but hands only the two paths to the graphical front end, whose
"Validate" action reads the data with Reader(cid, data_path, on_error="yield")
and therefore validates and reports every row.

No display is needed: the script lets the command line run up to the point where
it opens the window and records what it passes on. If a display is available it
additionally presses "Validate" and counts the reported rejections.

Exit code 1: violation present, 0: not present.
"""
import inspect
import os
import sys
import tempfile

from cutplace import applications, gui, validio

work = tempfile.mkdtemp(prefix="c07_f1_")
cid_path = os.path.join(work, "cid.csv")
data_path = os.path.join(work, "data.csv")
with open(cid_path, "w") as f:
    f.write("d,format,delimited\nd,header,1\nf,id,,,,Integer\nf,name,,,1...4,Text\n")
with open(data_path, "w") as f:
    f.write("h,h\n1,a\nx,b\n3,c\n")  # the only bad row is row 3

if not gui.has_tk:
    print("tkinter is not available, --gui is refused by the command line: nothing to observe")
    sys.exit(0)

# 1. What the plain command line does with the same limit (reference).
reference_exit_code = applications.main(["cutplace", "--until", "0", cid_path, data_path])
print("cutplace --until 0 CID DATA        -> exit code %d (0 = no rejection reported)" % reference_exit_code)

# 2. What the command line passes on to the graphical front end.
calls = []
original_open_gui = gui.open_gui
gui.open_gui = lambda *args, **kwargs: calls.append((args, kwargs))
try:
    app_exit_code = applications.main(["cutplace", "--gui", "--until", "0", cid_path, data_path])
finally:
    gui.open_gui = original_open_gui
print("cutplace --gui --until 0 CID DATA  -> exit code %d, open_gui called with %r" % (app_exit_code, calls))
open_gui_parameters = list(inspect.signature(original_open_gui).parameters)
frame_parameters = list(inspect.signature(gui.CutplaceFrame.__init__).parameters)
print("parameters of gui.open_gui: %s" % open_gui_parameters)
print("parameters of gui.CutplaceFrame: %s" % frame_parameters)
limit_reaches_gui = any("until" in name for name in open_gui_parameters + frame_parameters) or any(
    0 in args or 0 in kwargs.values() for args, kwargs in calls
)
print("limit handed over to the graphical front end: %s" % limit_reaches_gui)

# 3. What "Validate" in the window does (same call as in CutplaceFrame.validate()).
validate_source = inspect.getsource(gui.CutplaceFrame.validate)
reader_line = [line.strip() for line in validate_source.splitlines() if "validio.Reader(" in line]
print("reader used by CutplaceFrame.validate(): %s" % reader_line)
gui_uses_limit = any("validate_until" in line for line in reader_line)
rejections = [
    item for item in validio.Reader(cid_path, data_path, on_error="yield").rows() if isinstance(item, Exception)
]
print("rejections that reader reports: %d (row 3 > limit 0, so 0 are allowed)" % len(rejections))

# 4. With a display: really press "Validate".
reported_in_window = None
try:
    import tkinter

    root = tkinter.Tk()
    try:
        frame = gui.CutplaceFrame(root, cid_path, data_path)
        frame.validate()
        reported_in_window = frame.validation_report.count("ERROR")
        print("window opened with a display: report shows %d error line(s)" % reported_in_window)
    finally:
        root.destroy()
except Exception as error:  # no display
    print("no display to open the window (%s); relying on the recorded call" % error)

if reported_in_window is not None:
    is_violated = reported_in_window > 0
else:
    is_violated = bool(calls) and not limit_reaches_gui and not gui_uses_limit and len(rejections) > 0
print("VIOLATION" if is_violated else "no violation")
sys.exit(1 if is_violated else 0)
