"""
C02 finding 3: with Excel data, an Integer field rejects integer cells of 10^16 and more although they are
inside the range of the rule, because the reader hands them over as '1e+16'. A Decimal field with the same
rule accepts the same cells.

Run: cd /tmp/wi_c02 && PYTHONPATH=/tmp/wi_c02 /venv/bin/python -W ignore /tmp/hunt2_c02/finding_3.py
"""
import os
import sys
import tempfile

import xlsxwriter

from cutplace import errors, interface, validio

numbers = [999999999999999, 9007199254740992, 10000000000000000, 20000000000000000000, -10000000000000000]
folder = tempfile.mkdtemp(prefix="hunt2_c02_")
xlsx_path = os.path.join(folder, "numbers.xlsx")
workbook = xlsxwriter.Workbook(xlsx_path)
worksheet = workbook.add_worksheet()
for row_index, number in enumerate(numbers):
    worksheet.write_number(row_index, 0, number)
workbook.close()

rule = "-99999999999999999999...99999999999999999999"
violation_count = 0
for field_type in ("Integer", "Decimal"):
    cid = interface.create_cid_from_string("d,format,excel\nf,n,,,,%s,%s\n" % (field_type, rule))
    print("%s with rule %s" % (field_type, rule))
    with validio.Reader(cid, xlsx_path, on_error="yield") as reader:
        for number, row_or_error in zip(numbers, reader.rows()):
            if isinstance(row_or_error, errors.DataError):
                print("  cell %d -> REJECTED: %s" % (number, row_or_error))
                if field_type == "Integer":
                    violation_count += 1
            else:
                print("  cell %d -> accepted as %r" % (number, cid.field_formats[0].validated(row_or_error[0])))
if violation_count:
    print("VIOLATION: %d integer cells inside the range of the rule are rejected by the Integer field" % violation_count)
    sys.exit(1)
print("no violation")
sys.exit(0)
