"""
C02 finding 4 (low practical relevance): an Integer field whose rule has no upper limit (or whose length has
none) rejects integer literals of more than 4300 digits although they are inside the rule's range; the limit
is the one of Python's int() for the conversion of text, not one of the rule.

Run: cd /tmp/wi_c02 && PYTHONPATH=/tmp/wi_c02 /venv/bin/python -W ignore /tmp/hunt2_c02/finding_4.py
"""
import io
import sys

from cutplace import errors, interface, validio

violation_count = 0
for length, rule in (("", "0..."), ("1...", "")):
    cid = interface.create_cid_from_string("d,format,delimited\nf,n,,,%s,Integer,%s\n" % (length, rule))
    print("Integer with length %r and rule %r (valid range: %s)" % (length, rule, cid.field_formats[0].valid_range))
    for digit_count in (4300, 4301):
        value = "1" * digit_count
        try:
            list(validio.rows(cid, io.StringIO(value + "\n")))
            print("  integer with %d digits -> accepted" % digit_count)
        except errors.DataError as error:
            print("  integer with %d digits -> REJECTED: %s..." % (digit_count, str(error)[:90]))
            violation_count += 1
if violation_count:
    print("VIOLATION: %d integer literals inside the range are rejected" % violation_count)
    sys.exit(1)
print("no violation")
sys.exit(0)
