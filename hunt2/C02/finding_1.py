"""
C02 finding 1: a Decimal field ignores the decimal/thousands separator of the data format when the
data format row that declares it comes after the field row in the CID.

Run: cd /tmp/wi_c02 && PYTHONPATH=/tmp/wi_c02 /venv/bin/python -W ignore /tmp/hunt2_c02/finding_1.py
"""
import io
import sys

from cutplace import errors, interface, validio

CID_FIELD_FIRST = """d,format,delimited
d,item delimiter,;
f,amount,,,,Decimal,0...10000
d,decimal separator,","
d,thousands separator,.
"""
CID_FORMAT_FIRST = """d,format,delimited
d,item delimiter,;
d,decimal separator,","
d,thousands separator,.
f,amount,,,,Decimal,0...10000
"""


def verdicts(cid_text, values):
    cid = interface.create_cid_from_string(cid_text)
    data_format = cid.data_format
    print(
        "  data format says: decimal separator=%r, thousands separator=%r"
        % (data_format.decimal_separator, data_format.thousands_separator)
    )
    result = {}
    for value in values:
        try:
            list(validio.rows(cid, io.StringIO(value + "\n")))
            result[value] = "accepted as %r" % cid.field_formats[0].validated(value)
        except errors.DataError as error:
            result[value] = "rejected"
        print("  %-10r -> %s" % (value, result[value]))
    return result


values = ["1,5", "1.234,5", "1.5"]
print("CID with the field row before the separator rows:")
field_first = verdicts(CID_FIELD_FIRST, values)
print("same CID with the separator rows before the field row:")
format_first = verdicts(CID_FORMAT_FIRST, values)

violated = (
    field_first["1,5"] == "rejected"
    or field_first["1.234,5"] == "rejected"
    or field_first["1.5"].startswith("accepted as Decimal('1.5')")
)
if violated:
    print(
        "VIOLATION: the data format declares ',' as decimal and '.' as thousands separator, but the Decimal "
        "field declared before these rows rejects '1,5' and '1.234,5' and accepts '1.5' as 1.5"
    )
    sys.exit(1)
print("no violation")
sys.exit(0)
