"""
C02 finding 5 (low): in fixed data, a Constant or Choice value listed with a leading or trailing blank can
never be accepted, not even when the cell holds exactly the listed text; the CID is accepted without complaint.

Run: cd /tmp/wi_c02 && PYTHONPATH=/tmp/wi_c02 /venv/bin/python -W ignore /tmp/hunt2_c02/finding_5.py
"""
import csv
import io
import sys

from cutplace import errors, interface, validio


def cid_for(field_type, length, rule):
    with io.StringIO() as cid_io:
        writer = csv.writer(cid_io)
        writer.writerow(["d", "format", "fixed"])
        writer.writerow(["f", "x", "", "", length, field_type, rule])
        cid_text = cid_io.getvalue()
    return interface.create_cid_from_string(cid_text)


violation_count = 0
for field_type, length, rule, cell in (
    ("Constant", "2", '"A "', "A "),
    ("Constant", "2", '" A"', " A"),
    ("Choice", "2", '"A ", "BB"', "A "),
):
    cid = cid_for(field_type, length, rule)
    try:
        list(validio.rows(cid, io.StringIO(cell + "\n")))
        print("%s %s: cell %r -> accepted" % (field_type, rule, cell))
    except errors.DataError as error:
        print("%s %s: cell %r -> REJECTED: %s" % (field_type, rule, cell, error))
        violation_count += 1
if violation_count:
    print("VIOLATION: %d cells holding exactly a listed value are rejected" % violation_count)
    sys.exit(1)
print("no violation")
sys.exit(0)
