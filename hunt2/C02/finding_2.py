"""
C02 finding 2: Choice / Constant rules whose listed values are Python string tokens with a prefix (u"..."),
triple quoted strings, or unquoted values starting with '#' are silently turned into other values: the listed
values are rejected and values that are not listed are accepted.

Run: cd /tmp/wi_c02 && PYTHONPATH=/tmp/wi_c02 /venv/bin/python -W ignore /tmp/hunt2_c02/finding_2.py
"""
import csv
import io
import sys

from cutplace import errors, interface, validio


def cid_for(field_type, rule):
    with io.StringIO() as cid_io:
        writer = csv.writer(cid_io)
        writer.writerow(["d", "format", "delimited"])
        writer.writerow(["f", "x", "", "", "", field_type, rule])
        cid_text = cid_io.getvalue()
    return interface.create_cid_from_string(cid_text)  # NOTE: loads without any InterfaceError


def is_accepted(cid, value):
    with io.StringIO() as data_io:
        csv.writer(data_io).writerow([value])
        data_text = data_io.getvalue()
    try:
        list(validio.rows(cid, io.StringIO(data_text)))
        return True
    except errors.DataError:
        return False


violation_count = 0
# (type, rule, values a reader of the rule considers listed, values nobody listed)
cases = [
    ("Choice", 'u"red", u"green"', ["red", "green"], ['"red', '"green']),
    ("Constant", 'u"sales"', ["sales"], ['"sales']),
    ("Choice", '"""red""", """green"""', ["red", "green"], ['""red""']),
    ("Choice", "#ff0000, #00ff00", ["#ff0000", "#00ff00"], ["#ff0000, #00ff00"]),
]
for field_type, rule, listed_values, unlisted_values in cases:
    cid = cid_for(field_type, rule)
    print("%s with rule %s" % (field_type, rule))
    for value in listed_values:
        accepted = is_accepted(cid, value)
        print("  listed value   %-22r -> %s" % (value, "accepted" if accepted else "REJECTED"))
        if not accepted:
            violation_count += 1
    for value in unlisted_values:
        accepted = is_accepted(cid, value)
        print("  unlisted value %-22r -> %s" % (value, "ACCEPTED" if accepted else "rejected"))
        if accepted:
            violation_count += 1

if violation_count:
    print("VIOLATION: %d verdicts contradict 'exactly one of the listed values'" % violation_count)
    sys.exit(1)
print("no violation")
sys.exit(0)
