"""
C18 finding 2: an ODS (data file or CID) with deeply nested text:span or table:table-row-group elements
makes the command exit with 4 ("program must be fixed") instead of 1; files named after it are not judged.

Run: cd /tmp/wi_c18 && PYTHONPATH=/tmp/wi_c18 /venv/bin/python -W ignore /tmp/hunt2_c18/finding_2.py
"""
import logging
import os
import shutil
import sys
import tempfile
import zipfile

import cutplace
import cutplace.errors
from cutplace import applications

logging.basicConfig(level=logging.INFO)
folder = tempfile.mkdtemp(prefix="c18_f2_")
DEPTH = 1200  # more than sys.getrecursionlimit()

_CONTENT = (
    '<?xml version="1.0" encoding="UTF-8"?>'
    '<office:document-content xmlns:office="urn:oasis:names:tc:opendocument:xmlns:office:1.0"'
    ' xmlns:table="urn:oasis:names:tc:opendocument:xmlns:table:1.0"'
    ' xmlns:text="urn:oasis:names:tc:opendocument:xmlns:text:1.0">'
    '<office:body><office:spreadsheet><table:table table:name="s">%s</table:table>'
    "</office:spreadsheet></office:body></office:document-content>"
)


def write_ods(name, table_xml):
    result = os.path.join(folder, name)
    with zipfile.ZipFile(result, "w") as ods_zip:
        ods_zip.writestr("mimetype", "application/vnd.oasis.opendocument.spreadsheet")
        ods_zip.writestr("content.xml", _CONTENT % table_xml)
    return result


def row_xml(*values):
    return "<table:table-row>%s</table:table-row>" % "".join(
        "<table:table-cell><text:p>%s</text:p></table:table-cell>" % value for value in values
    )


cid_path = os.path.join(folder, "cid.csv")
with open(cid_path, "w") as cid_file:
    cid_file.write("d,format,ods\nf,id,,,,Integer\n")

nested_span = "<text:span>" * DEPTH + "1" + "</text:span>" * DEPTH
spans_path = write_ods("deep_spans.ods", row_xml(nested_span))
groups_path = write_ods(
    "deep_groups.ods", "<table:table-row-group>" * DEPTH + row_xml("1") + "</table:table-row-group>" * DEPTH
)
flat_path = write_ods("flat.ods", row_xml("<text:span>1</text:span>"))
rejected_path = write_ods("rejected.ods", row_xml("x"))
# A CID stored as ODS whose first cell is "d" wrapped in nested spans.
deep_cid_path = write_ods("cid_deep.ods", row_xml(("<text:span>" * DEPTH + "d" + "</text:span>" * DEPTH), "format", "ods"))

results = {}
results["flat ods data (accepted)"] = applications.main(["cutplace", cid_path, flat_path])
results["ods data with %d nested text:span" % DEPTH] = applications.main(["cutplace", cid_path, spans_path])
results["ods data with %d nested table:table-row-group" % DEPTH] = applications.main(["cutplace", cid_path, groups_path])
results["nested ods followed by a rejected file"] = applications.main(["cutplace", cid_path, spans_path, rejected_path])
results["rejected file followed by nested ods"] = applications.main(["cutplace", cid_path, rejected_path, spans_path])
results["CID stored as ods with nested text:span"] = applications.main(["cutplace", deep_cid_path])

print()
for description, exit_code in results.items():
    print("exit code %d: %s" % (exit_code, description))
try:
    cutplace.validate(cid_path, spans_path)
    print("API: accepted")
except cutplace.errors.CutplaceError as error:
    print("API: rejected with %s" % type(error).__name__)
except Exception as error:
    print("API: fails with %s: %s" % (type(error).__name__, error))

shutil.rmtree(folder, ignore_errors=True)
is_violated = any(exit_code not in (0, 1, 2, 3) for exit_code in results.values())
if is_violated:
    print("VIOLATION: exit code 4 instead of 1 for an ODS cutplace cannot process")
sys.exit(1 if is_violated else 0)
