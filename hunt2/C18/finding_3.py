"""
C18 finding 3 (completeness of repair 0a9122c): a DistinctCount rule can still terminate the command with an
exit code of its choice, without any verdict on the file or the files after it. Only Exception and SystemExit
are intercepted by DistinctCountCheck._eval(); other BaseExceptions and os._exit() are not.

Run: cd /tmp/wi_c18 && PYTHONPATH=/tmp/wi_c18 /venv/bin/python -W ignore /tmp/hunt2_c18/finding_3.py
"""
import os
import shutil
import subprocess
import sys
import tempfile

folder = tempfile.mkdtemp(prefix="c18_f3_")
data_path = os.path.join(folder, "data.csv")
with open(data_path, "w") as data_file:
    data_file.write("1\n2\n")  # 2 distinct values, every rule below demands 0 of them
rejected_path = os.path.join(folder, "rejected.csv")
with open(rejected_path, "w") as data_file:
    data_file.write("1,surplus\n")


def exit_code_for(rule, *data_paths):
    cid_path = os.path.join(folder, "cid.csv")
    with open(cid_path, "w") as cid_file:
        cid_file.write('d,format,delimited\nf,a\nc,distinct_a,DistinctCount,"%s"\n' % rule)
    command = [sys.executable, "-W", "ignore", "-m", "cutplace.applications", cid_path] + list(data_paths)
    return subprocess.run(command, stdout=subprocess.DEVNULL, stderr=subprocess.DEVNULL).returncode


rules = [
    ("plain rule, for reference", "a == 0"),
    ("exit(), repaired by 0a9122c", "a == 0 or exit(0)"),
    ("KeyboardInterrupt", "a == 0 or (lambda: (yield))().throw(KeyboardInterrupt)"),
    ("os._exit(0)", "a == 0 or __import__('os')._exit(0)"),
]
results = {}
for description, rule in rules:
    results[description] = (
        exit_code_for(rule),
        exit_code_for(rule, data_path),
        exit_code_for(rule, data_path, rejected_path),
    )
    print(
        "%-30s CID only: %d; with data: %d; with data and a rejected file: %d" % ((description + ":",) + results[description])
    )
shutil.rmtree(folder, ignore_errors=True)

is_violated = any(
    exit_codes[0] == 0 and (exit_codes[1] != 1 or exit_codes[2] != 1) for exit_codes in results.values()
)
if is_violated:
    print("VIOLATION: the CID loads (exit code 0 on its own) but the exit code with rejected data is not 1")
sys.exit(1 if is_violated else 0)
