"""
C18 finding 1: a damaged (but perfectly readable) .xlsx is reported with exit code 3 ("file cannot be
read") instead of 1 ("rejected"), both as data file and as CID. The same damage in an ODS gives 1.

Run: cd /tmp/wi_c18 && PYTHONPATH=/tmp/wi_c18 /venv/bin/python -W ignore /tmp/hunt2_c18/finding_1.py
"""
import logging
import os
import shutil
import struct
import sys
import tempfile
import zipfile

import xlsxwriter

import cutplace
import cutplace.errors
from cutplace import applications

logging.basicConfig(level=logging.INFO)
folder = tempfile.mkdtemp(prefix="c18_f1_")


def write_xlsx(path, rows):
    workbook = xlsxwriter.Workbook(path)
    sheet = workbook.add_worksheet()
    for y, row in enumerate(rows):
        for x, value in enumerate(row):
            sheet.write(y, x, value)
    workbook.close()


def with_damaged_directory_offset(source_path, target_path):
    """Copy of the ZIP where the "offset of central directory" in the end record is 100000 too big."""
    with open(source_path, "rb") as source_file:
        raw = source_file.read()
    end_record_index = raw.rfind(b"PK\x05\x06")
    (offset,) = struct.unpack("<L", raw[end_record_index + 16 : end_record_index + 20])
    with open(target_path, "wb") as target_file:
        target_file.write(raw[: end_record_index + 16] + struct.pack("<L", offset + 100000) + raw[end_record_index + 20 :])


def with_garbage_in_bzip2_member(source_path, target_path, member="xl/workbook.xml"):
    """Copy of the ZIP using bzip2 compression where the compressed bytes of ``member`` are garbage."""
    with zipfile.ZipFile(source_path) as source_zip, zipfile.ZipFile(target_path, "w", zipfile.ZIP_BZIP2) as target_zip:
        for name in source_zip.namelist():
            target_zip.writestr(name, source_zip.read(name))
    with zipfile.ZipFile(target_path) as target_zip:
        info = target_zip.getinfo(member)
    with open(target_path, "rb") as target_file:
        raw = bytearray(target_file.read())
    data_start = info.header_offset + 30 + len(info.filename.encode()) + len(info.extra)
    for index in range(data_start + 4, data_start + 30):
        raw[index] ^= 0xFF
    with open(target_path, "wb") as target_file:
        target_file.write(bytes(raw))


cid_excel_path = os.path.join(folder, "cid_excel.csv")
with open(cid_excel_path, "w") as cid_file:
    cid_file.write("d,format,excel\nf,id,,,,Integer\nf,name\n")
cid_ods_path = os.path.join(folder, "cid_ods.csv")
with open(cid_ods_path, "w") as cid_file:
    cid_file.write("d,format,ods\nf,id,,,,Integer\nf,name\n")

intact_path = os.path.join(folder, "intact.xlsx")
write_xlsx(intact_path, [[1, "a"], [2, "b"]])
damaged_offset_path = os.path.join(folder, "damaged_offset.xlsx")
with_damaged_directory_offset(intact_path, damaged_offset_path)
damaged_bzip2_path = os.path.join(folder, "damaged_bzip2.xlsx")
with_garbage_in_bzip2_member(intact_path, damaged_bzip2_path)
damaged_ods_path = os.path.join(folder, "damaged_offset.ods")
shutil.copy(damaged_offset_path, damaged_ods_path)

# A CID that is rejected (unknown field type "Integr") stored as xlsx, intact and damaged.
rejected_cid_path = os.path.join(folder, "cid_rejected.xlsx")
write_xlsx(rejected_cid_path, [["d", "format", "delimited"], ["f", "id", "", "", "", "Integr"]])
damaged_cid_path = os.path.join(folder, "cid_damaged.xlsx")
with_damaged_directory_offset(rejected_cid_path, damaged_cid_path)

for path in (damaged_offset_path, damaged_bzip2_path, damaged_cid_path):
    with open(path, "rb") as readable_file:
        assert len(readable_file.read()) > 0  # the named file CAN be read

results = {}
results["intact xlsx data"] = applications.main(["cutplace", cid_excel_path, intact_path])
results["xlsx data, damaged directory offset"] = applications.main(["cutplace", cid_excel_path, damaged_offset_path])
results["xlsx data, garbage in bzip2 member"] = applications.main(["cutplace", cid_excel_path, damaged_bzip2_path])
results["same damaged archive as ods data"] = applications.main(["cutplace", cid_ods_path, damaged_ods_path])
results["intact xlsx CID that is rejected"] = applications.main(["cutplace", rejected_cid_path])
results["damaged xlsx CID"] = applications.main(["cutplace", damaged_cid_path])

print()
for description, exit_code in results.items():
    print("exit code %d: %s" % (exit_code, description))
try:
    cutplace.validate(cid_excel_path, damaged_offset_path)
    print("API: accepted")
except cutplace.errors.CutplaceError as error:
    print("API: rejected with %s" % type(error).__name__)
except Exception as error:
    print("API: fails with %s: %s" % (type(error).__name__, error))

shutil.rmtree(folder, ignore_errors=True)
is_violated = (
    results["xlsx data, damaged directory offset"] == 3
    or results["xlsx data, garbage in bzip2 member"] == 3
    or results["damaged xlsx CID"] == 3
)
if is_violated:
    print("VIOLATION: readable but damaged xlsx gives exit code 3 instead of 1")
sys.exit(1 if is_violated else 0)
