"""
C05 finding 1: the graphical front end (cutplace --gui, cutplace.gui.CutplaceFrame.validate) never finishes the
validation: it reads all rows with a Reader but never calls close(), so DistinctCount.check_at_end() is never
asked and a data set that violates 'field <comparison> n' is reported as fine.

No display is available here, so CutplaceFrame.validate() is called with a stand-in for the Tk widgets (only the
widgets are replaced; the code of validate() that reads the CID, creates the Reader and reports is the original).
"""
import logging
import os
import sys
import tempfile

from cutplace import applications, gui

if not gui.has_tk:
    print("tkinter cannot be imported, cannot run the GUI code")
    sys.exit(0)

folder = tempfile.mkdtemp(prefix="c05_f1_")
cid_path = os.path.join(folder, "cid.csv")
data_path = os.path.join(folder, "data.csv")
with open(cid_path, "w", encoding="utf-8") as cid_file:
    cid_file.write(
        "d,format,delimited\n"
        "f,branch,,,,Text\n"
        "f,customer,,,,Integer\n"
        "c,at most 2 branches,DistinctCount,branch <= 2\n"
    )
with open(data_path, "w", encoding="utf-8", newline="") as data_file:
    data_file.write("a,1\r\nb,2\r\nc,3\r\nd,4\r\n")  # 4 distinct branches, only 2 allowed

# 1. What the command line says about these data.
logging.basicConfig(level=logging.CRITICAL)
exit_code = applications.main(["cutplace", cid_path, data_path])
print("command line: exit code %d (1 = data rejected)" % exit_code)


# 2. What the GUI says about the same data.
class _Text:
    def __init__(self):
        self.lines = []

    def config(self, **_):
        pass

    def insert(self, _, text):
        self.lines.append(text)

    def see(self, _):
        pass


class _Anything:
    def __getattr__(self, _):
        return lambda *args, **keywords: None


class _FrameStandIn:
    def __init__(self):
        self.cid_path = cid_path
        self.data_path = data_path
        self._validation_report_text = _Text()
        self._validation_status_text = _Anything()
        self.master = _Anything()

    def clear_validation_report_text(self):
        pass

    def _enable_usable_widgets(self):
        pass


frame = _FrameStandIn()
gui.CutplaceFrame.validate(frame)
report = "".join(frame._validation_report_text.lines)
print("GUI validation report:")
print(report)
gui_reports_error = "ERROR" in report
if exit_code == 1 and not gui_reports_error:
    print("VIOLATION: 4 distinct values of 'branch' with rule 'branch <= 2', but the GUI finishes without any error")
    sys.exit(1)
print("no violation observed")
sys.exit(0)
