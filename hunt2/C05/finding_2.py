"""
C05 finding 2: a Reader whose rows are read again after close() never delivers the end-of-data verdict again.

Reader.rows() is made for being read repeatedly (it resets all checks and restarts the row numbers each time),
but BaseValidator.close() remembers "_is_closed" for ever. So for the second and every further run close() does
nothing: a violated DistinctCount goes unnoticed (and likewise 'with reader:' after a first close()).
"""
import os
import sys
import tempfile

from cutplace import Cid, Reader, errors

folder = tempfile.mkdtemp(prefix="c05_f2_")
cid_path = os.path.join(folder, "cid.csv")
data_path = os.path.join(folder, "data.csv")
with open(cid_path, "w", encoding="utf-8") as cid_file:
    cid_file.write(
        "d,format,delimited\n"
        "f,branch,,,,Text\n"
        "f,customer,,,,Integer\n"
        "c,at most 2 branches,DistinctCount,branch <= 2\n"
    )


def write_data(branches):
    with open(data_path, "w", encoding="utf-8", newline="") as data_file:
        for number, branch in enumerate(branches):
            data_file.write("%s,%d\r\n" % (branch, number))


def run(reader):
    """Validate everything, finish the validation and tell the verdict at the end of the data."""
    reader.validate_rows()
    try:
        reader.close()
        return "accepted"
    except errors.CheckError as error:
        return "rejected: %s" % error


cid = Cid(cid_path)
reader = Reader(cid, data_path)

write_data("ab")  # 2 distinct branches: fine
first_verdict = run(reader)
print("run 1, 2 distinct branches, rule 'branch <= 2':", first_verdict)

write_data("abcd")  # meanwhile the file got 4 distinct branches: must fail
second_verdict = run(reader)
print("run 2, 4 distinct branches, rule 'branch <= 2':", second_verdict)

# For comparison: a fresh reader on the very same file.
fresh_verdict = run(Reader(cid, data_path))
print("fresh reader, same file:", fresh_verdict)

if first_verdict == "accepted" and second_verdict == "accepted" and fresh_verdict.startswith("rejected"):
    print("VIOLATION: finishing the second validation does not fail although 4 distinct values violate 'branch <= 2'")
    sys.exit(1)
print("no violation observed")
sys.exit(0)
