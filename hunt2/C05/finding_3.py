"""
C05 finding 3 (neighbour of the repaired "fixed rows are validated the way they are written", 90fd85a):
with delimited data and 'skip initial space', the Writer decides uniqueness and the distinct count on other
values than the ones that make up the written data set.

Writer.write_row() checks ' a' and 'a' as two different keys, DelimitedRowWriter writes ' a' without quotes, and
under the declared data format (skip initial space) the written row has the value 'a'. So the written data set
contains two rows with the same key (both accepted, none rejected), and its distinct count is 1 while the
Writer judged 2. Reading the Writer's own output with the same CID gives the opposite verdicts.
"""
import io
import sys

from cutplace import Reader, Writer, errors
from cutplace.interface import create_cid_from_string

CID_TEXT = """d,format,delimited
d,skip initial space,true
f,customer,,,,Text
f,amount,,,,Integer
c,customer must be unique,IsUnique,customer
c,at least 2 customers,DistinctCount,customer >= 2
"""

cid = create_cid_from_string(CID_TEXT)
out = io.StringIO(newline="")
writer = Writer(cid, out)
writer_rejected = []
for row in [["a", "1"], [" a", "2"]]:
    try:
        writer.write_row(row)
    except errors.CheckError as error:
        writer_rejected.append(str(error))
try:
    writer.close()
    writer_end = "accepted"
except errors.CheckError as error:
    writer_end = "rejected: %s" % error
written = out.getvalue()
print("written data: %r" % written)
print("Writer: rows rejected by IsUnique: %s; verdict at end (customer >= 2): %s" % (writer_rejected, writer_end))

reader = Reader(create_cid_from_string(CID_TEXT), io.StringIO(written, newline=""), on_error="yield")
read_rows = list(reader.rows())
reader_rejected = [str(item) for item in read_rows if isinstance(item, errors.CheckError)]
try:
    reader.close()
    reader_end = "accepted"
except errors.CheckError as error:
    reader_end = "rejected: %s" % error
print("values of the written data set: %r" % [item for item in read_rows if isinstance(item, list)])
print("Reader: rows rejected by IsUnique: %s; verdict at end (customer >= 2): %s" % (reader_rejected, reader_end))

if not writer_rejected and writer_end == "accepted" and reader_rejected and reader_end.startswith("rejected"):
    print(
        "VIOLATION: the Writer accepted two rows whose key in the written data set is 'a' both times, and accepted "
        "'customer >= 2' for a data set with 1 distinct customer"
    )
    sys.exit(1)
print("no violation observed")
sys.exit(0)
