"""
C20 finding 3: the validation of the graphical user interface (cutplace --gui, CutplaceFrame.validate())
iterates Reader.rows() but never closes the reader: no check is asked for its end-of-data verdict and no
check is cleaned up, so a failing end check goes unreported.
"""
import os
import sys
import tempfile
from unittest import mock

from cutplace import checks, errors, gui

CALLS = []


class HuntGuiCheck(checks.AbstractCheck):
    def reset(self):
        CALLS.append(("reset", self.description))

    def check_row(self, field_name_to_value_map, location):
        CALLS.append(("row", self.description))

    def check_at_end(self, location):
        CALLS.append(("end", self.description))
        raise errors.CheckError("end of data verdict: rejected", location)

    def cleanup(self):
        CALLS.append(("cleanup", self.description))


if not gui.has_tk:
    print("tkinter is not available, cannot run")
    sys.exit(0)

folder = tempfile.mkdtemp()
cid_path = os.path.join(folder, "cid_hunt.csv")
data_path = os.path.join(folder, "hunt.csv")
with open(cid_path, "w", encoding="utf-8") as cid_file:
    cid_file.write("d,format,delimited\nf,some,,,,Text\nc,first,HuntGui,\nc,few_distinct,DistinctCount,some < 2\n")
with open(data_path, "w", encoding="utf-8") as data_file:
    data_file.write("a\nb\nc\n")

report_lines = []
frame = None
try:
    import tkinter

    root = tkinter.Tk()
    frame = gui.CutplaceFrame(root, cid_path, data_path)
    frame.validate()
    report_lines = frame.validation_report.split("\n")
    root.destroy()
    print("(used a real Tk window)")
except Exception as error:  # no display available: run the unchanged validate() with stand-ins for the widgets
    print("(no Tk window available: %s; using stand-ins for the widgets)" % error)
    del CALLS[:]
    stand_in = mock.MagicMock()
    stand_in.cid_path = cid_path
    stand_in.data_path = data_path
    stand_in._validation_report_text.insert.side_effect = lambda _, line: report_lines.append(line.rstrip("\n"))
    gui.CutplaceFrame.validate(stand_in)

print("validation report of the GUI:")
for line in report_lines:
    if line:
        print("   ", line)
print("calls:", CALLS)
end_calls = [call for call in CALLS if call[0] == "end"]
cleanup_calls = [call for call in CALLS if call[0] == "cleanup"]
has_rows = any(call[0] == "row" for call in CALLS)
if has_rows and (not end_calls or not cleanup_calls):
    print("VIOLATION: rows were checked but the run was never closed: %d end verdicts, %d cleanups; the failing "
          "HuntGui and DistinctCount checks are not reported" % (len(end_calls), len(cleanup_calls)))
    sys.exit(1)
sys.exit(0)
