"""
C20 finding 2: in fixed data the padding blanks are judged against the allowed characters, so a cell that
is non-empty after blank-stripping, has only allowed characters and fits the declared length is rejected
without its value hook being called - even for blanks the Writer appended itself.
"""
import io
import sys

from cutplace import errors, fields, interface, validio

CALLS = []


class HuntPadFieldFormat(fields.AbstractFieldFormat):
    def validated_value(self, value):
        CALLS.append((self.field_name, value))
        return value


CID_TEXT = '''d,format,fixed
d,allowed characters,"""a""...""z"""
f,code,,,4,HuntPad
f,note,,X,3,HuntPad
'''
cid = interface.create_cid_from_string(CID_TEXT)

violation = False

# Writer: the cell "ab" is not empty, consists of allowed characters only and is not longer than 4.
del CALLS[:]
target = io.StringIO()
try:
    with validio.Writer(cid, target) as writer:
        writer.write_row(["ab", "xyz"])
    print("writer: accepted, calls=%r, written=%r" % (CALLS, target.getvalue()))
except errors.DataError as error:
    print("writer: row ['ab', 'xyz'] rejected: %s" % error)
    print("writer: value hook calls: %r (expected [('code', 'ab'), ('note', 'xyz')])" % CALLS)
    violation = True

# Reader: same for the cell "ab  "; the all blank cell "   " however is accepted (fix f57aa2a).
for data_text in ("ab  xyz", "abcd   "):
    del CALLS[:]
    try:
        with validio.Reader(cid, io.StringIO(data_text)) as reader:
            for _ in reader.rows():
                pass
        print("reader: %r accepted, calls=%r" % (data_text, CALLS))
    except errors.DataError as error:
        print("reader: %r rejected: %s; calls=%r" % (data_text, error, CALLS))
        violation = True

if violation:
    print("VIOLATION: value hook not called for a non-empty cell with allowed characters and proper length")
    sys.exit(1)
sys.exit(0)
