"""
C20 finding 4: BaseValidator.close() keeps asking the remaining checks only if the failing one raised a
CheckError. A check whose end-of-data verdict fails with any other error - the built-in DistinctCount with a
rule that cannot be evaluated for the final count (InterfaceError), or a user check that uses
ranges.Range.validate() like the example plugin does (RangeValueError) - silences all checks declared after it.
(Repair 305bc2f is incomplete.)
"""
import io
import sys

from cutplace import checks, errors, interface, ranges, validio

CALLS = []


class HuntEndCheck(checks.AbstractCheck):
    """
    Records its calls; with a rule, the number of rows must be in the range described by it, judged at the end the
    same way examples/plugins.py judges rows: with Range.validate().
    """

    def __init__(self, description, rule, available_field_names, location=None):
        super().__init__(description, rule, available_field_names, location)
        self._row_count_range = ranges.Range(rule)
        self.reset()

    def reset(self):
        self._row_count = 0

    def check_row(self, field_name_to_value_map, location):
        self._row_count += 1

    def check_at_end(self, location):
        CALLS.append(("end", self.description))
        self._row_count_range.validate("number of rows", self._row_count, location)

    def cleanup(self):
        CALLS.append(("cleanup", self.description))


def end_calls_for(cid_text, data_text):
    cid = interface.create_cid_from_string(cid_text)
    del CALLS[:]
    try:
        with validio.Reader(cid, io.StringIO(data_text), on_error="continue") as reader:
            for _ in reader.rows():
                pass
        print("  no error")
    except errors.CutplaceError as error:
        print("  %s: %s" % (type(error).__name__, error))
    result = [description for kind, description in CALLS if kind == "end"]
    print("  end-of-data verdicts asked: %s; cleanups: %s"
          % (result, [description for kind, description in CALLS if kind == "cleanup"]))
    return result


print("A) built-in DistinctCount between two user checks; the rule is fine for every count but 2")
cid_a = "d,format,delimited\nf,some,,,,Text\nc,before,HuntEnd,\nc,dc,DistinctCount,some < 10 // (count - 2)\nc,after,HuntEnd,\n"
print(" data with 1 distinct value:")
ends_a1 = end_calls_for(cid_a, "x\n")
print(" data with 2 distinct values:")
ends_a2 = end_calls_for(cid_a, "x\ny\n")

print("B) user check failing at the end with the RangeValueError of Range.validate()")
cid_b = "d,format,delimited\nf,some,,,,Text\nc,before,HuntEnd,\nc,at_most_1_row,HuntEnd,...1\nc,after,HuntEnd,\n"
ends_b = end_calls_for(cid_b, "x\ny\n")

violation = False
if ends_a1 == ["before", "after"] and ends_a2 != ["before", "after"]:
    print("VIOLATION (A): check 'after' is never asked for its end-of-data verdict")
    violation = True
if ends_b != ["before", "at_most_1_row", "after"]:
    print("VIOLATION (B): check 'after' is never asked for its end-of-data verdict")
    violation = True
sys.exit(1 if violation else 0)
