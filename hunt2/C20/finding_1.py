"""
C20 finding 1: classes in a plugin folder whose name contains "[" and "]" are never registered,
so a CID cannot resolve them by class name (import_plugins() uses the folder name as glob pattern).
"""
import os
import sys
import tempfile

from cutplace import errors, interface

PLUGIN_SOURCE = """
from cutplace import checks, fields

class %(name)sFieldFormat(fields.AbstractFieldFormat):
    def validated_value(self, value):
        return value

class %(name)sCheck(checks.AbstractCheck):
    pass
"""


def resolves(folder_name, class_qualifier):
    base_folder = tempfile.mkdtemp()
    plugin_folder = os.path.join(base_folder, folder_name)
    os.makedirs(plugin_folder)
    with open(os.path.join(plugin_folder, "myplugins.py"), "w", encoding="utf-8") as plugin_file:
        plugin_file.write(PLUGIN_SOURCE % {"name": class_qualifier})
    interface.import_plugins(plugin_folder)
    cid_text = "d,format,delimited\nf,some,,,,%s\nc,some_check,%s,\n" % (class_qualifier, class_qualifier)
    try:
        cid = interface.create_cid_from_string(cid_text)
        print("folder %r: resolved %s and %s" % (
            folder_name, type(cid.field_formats[0]).__name__, type(cid.check_for("some_check")).__name__))
        return True
    except errors.InterfaceError as error:
        print("folder %r: NOT resolved: %s" % (folder_name, str(error)[:110] + "..."))
        return False


ordinary_ok = resolves("cutplace_plugins", "HuntOrdinary")
bracket_ok = resolves("cutplace_plugins[v2]", "HuntBracket")
if ordinary_ok and not bracket_ok:
    print("VIOLATION: plugin classes of a folder with '[...]' in its name do not resolve like built-ins")
    sys.exit(1)
sys.exit(0)
