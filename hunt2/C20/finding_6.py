"""
C20 finding 6: Reader.rows() can be iterated again ("start at the first row again in case the rows have
already been read before") and resets the checks for that, but once the reader has been closed the second run
over the data never gets end-of-data verdicts or cleanups because close() does nothing anymore.
"""
import os
import sys
import tempfile

from cutplace import checks, errors, interface, validio

CALLS = []


class HuntAgainCheck(checks.AbstractCheck):
    def reset(self):
        CALLS.append("reset")

    def check_row(self, field_name_to_value_map, location):
        CALLS.append("row")

    def check_at_end(self, location):
        CALLS.append("end")
        raise errors.CheckError("end of data verdict: rejected", location)

    def cleanup(self):
        CALLS.append("cleanup")


cid = interface.create_cid_from_string("d,format,delimited\nf,some,,,,Text\nc,again,HuntAgain,\n")
data_path = os.path.join(tempfile.mkdtemp(), "hunt.csv")
with open(data_path, "w", encoding="utf-8") as data_file:
    data_file.write("a\nb\n")

reader = validio.Reader(cid, data_path)
runs = []
for run in (1, 2):
    del CALLS[:]
    reader.validate_rows()
    try:
        reader.close()
        outcome = "close() reported nothing"
    except errors.CheckError as error:
        outcome = "close() reported: %s" % error
    print("run %d: %s; %s" % (run, CALLS, outcome))
    runs.append(list(CALLS))

if ("end" in runs[0]) and ("row" in runs[1]) and ("end" not in runs[1] or "cleanup" not in runs[1]):
    print("VIOLATION: the second run over the data saw all rows but no end-of-data verdict and no cleanup")
    sys.exit(1)
sys.exit(0)
