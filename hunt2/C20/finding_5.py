"""
C20 finding 5: a Writer resets the checks only when it is constructed, not before its first row. With two
writers created on one CID and then filled one after the other, the second data set is validated without any
reset after the first run was closed (and cleaned up): the checks still hold the state of the first data set.
"""
import io
import sys

from cutplace import checks, errors, interface, validio

CALLS = []


class HuntSeenCheck(checks.AbstractCheck):
    def __init__(self, description, rule, available_field_names, location=None):
        super().__init__(description, rule, available_field_names, location)
        self.reset()

    def reset(self):
        CALLS.append("reset")
        self._row_count = 0

    def check_row(self, field_name_to_value_map, location):
        self._row_count += 1
        CALLS.append("row(%s) #%d" % (field_name_to_value_map["id"], self._row_count))

    def check_at_end(self, location):
        CALLS.append("end")

    def cleanup(self):
        CALLS.append("cleanup")


cid = interface.create_cid_from_string(
    "d,format,delimited\nf,id,,,,Integer\nc,seen,HuntSeen,\nc,id_must_be_unique,IsUnique,id\n"
)
del CALLS[:]
north_target = io.StringIO()
south_target = io.StringIO()
north_writer = validio.Writer(cid, north_target)
south_writer = validio.Writer(cid, south_target)

north_writer.write_rows([["1"], ["2"]])
north_writer.close()
CALLS.append("-- second data set --")
second_error = None
try:
    south_writer.write_rows([["1"], ["3"]])
except errors.DataError as error:
    second_error = error
south_writer.close()

print("calls:", CALLS)
print("first target: %r, second target: %r" % (north_target.getvalue(), south_target.getvalue()))
calls_of_second_run = CALLS[CALLS.index("-- second data set --") + 1:]
if second_error is not None:
    print("second data set rejected: %s" % second_error)
if ("reset" not in calls_of_second_run) and (second_error is not None or "row(1) #3" in calls_of_second_run):
    print("VIOLATION: no reset between the cleanup of the first run and the first row of the second data set")
    sys.exit(1)
sys.exit(0)
