"""
C01 / finding 2 (marginal): a well-formed multi item range description that is spread over several lines of
a CID cell is refused depending on the *indentation* of the lines, because the description is fed to the
Python tokenizer, which applies Python's block indentation rules to it.

Run: cd /tmp/wi_c01 && PYTHONPATH=/tmp/wi_c01 /venv/bin/python -W ignore /tmp/hunt2_c01/finding_2.py
"""
import io
import sys

from cutplace import errors, interface, ranges, validio

EXPECTED_ITEMS = [(1, 5), (7, 7), (9, None)]

# Same tokens, only blanks/tabs at the beginning of the lines differ.
DESCRIPTIONS = [
    "1...5, 7, 9...",  # one line
    "1...5,\n7,\n9...",  # three lines, no indentation
    "  1...5,\n  7,\n  9...",  # all lines indented the same
    " 1...5,\n  7,\n 9...",  # dedent back to a previous level
    "  1...5,\n 7,\n9...",  # dedent to a level that has not been used before -> refused
    "   1...5,\n 7, 9...",  # same with two lines -> refused
    "\t1...5,\n        7, 9...",  # tab in one line, blanks in the next -> refused
    "1...5,\n  7,\n 9...",  # continuation lines indented differently -> refused
]


def main():
    violated = False
    for range_class in (ranges.Range, ranges.DecimalRange):
        for description in DESCRIPTIONS:
            try:
                items = [
                    (None if lower is None else int(lower), None if upper is None else int(upper))
                    for lower, upper in range_class(description).items
                ]
                verdict = "accepted" if items == EXPECTED_ITEMS else "WRONG ITEMS %r" % items
                if items != EXPECTED_ITEMS:
                    violated = True
            except errors.InterfaceError as error:
                verdict = "REFUSED: %s" % error
                violated = True
            print("%s(%r): %s" % (range_class.__name__, description, verdict))

    # The same through a CID (CSV with a quoted multi line cell), as a user would meet it.
    # NOTE: The CID reader strips the rule, so the first line always starts in column 0.
    cid_text = 'D,Format,Delimited\nF,x,,,,Integer,"1...5,\n  7,\n 9..."\n'
    try:
        cid = interface.create_cid_from_string(cid_text)
        with validio.Reader(cid, io.StringIO("7\n")) as reader:
            reader.validate_rows()
        print("CID with multi line rule: accepted")
    except errors.InterfaceError as error:
        print("CID with multi line rule: REFUSED: %s" % error)
        violated = True
    print("violation" if violated else "no violation")
    return 1 if violated else 0


if __name__ == "__main__":
    sys.exit(main())
