"""
C01 / finding 1 (marginal): a single-value range description that is stored in an Excel CID as a *numeric* cell
is refused once the number reaches 1e16, because the CID reader turns the cell into the text '1e+16'.

Run: cd /tmp/wi_c01 && PYTHONPATH=/tmp/wi_c01 /venv/bin/python -W ignore /tmp/hunt2_c01/finding_1.py
"""
import os
import sys
import tempfile

import xlsxwriter

from cutplace import errors, interface, ranges


def cid_path_with_numeric_rule(folder, rule_number):
    path = os.path.join(folder, "cid_%d.xlsx" % rule_number)
    workbook = xlsxwriter.Workbook(path)
    sheet = workbook.add_worksheet()
    rows = [
        ["D", "Format", "Delimited"],
        # name, example, empty, length, type, rule; the rule is written as number cell, the way a
        # spreadsheet application stores a cell into which the user typed 10000000000000000.
        ["F", "big_id", "", "", "", "Integer", rule_number],
    ]
    for y, row in enumerate(rows):
        for x, cell in enumerate(row):
            sheet.write(y, x, cell)
    workbook.close()
    return path


def main():
    violated = False
    folder = tempfile.mkdtemp(prefix="c01_f1_")
    # All of these are exactly representable as double, so nothing is lost in the spreadsheet.
    for rule_number in (5, 10**15, 10**16, 2**60):
        text = str(rule_number)
        # The same description as text is fine:
        assert ranges.Range(text).items == [(rule_number, rule_number)]
        try:
            cid = interface.Cid(cid_path_with_numeric_rule(folder, rule_number))
            items = cid.field_formats[0].valid_range.items
            print("numeric cell %s: accepted, items=%r" % (text, items))
            if items != [(rule_number, rule_number)]:
                violated = True
        except errors.InterfaceError as error:
            print("numeric cell %s: REFUSED: %s" % (text, error))
            violated = True
    print("violation" if violated else "no violation")
    return 1 if violated else 0


if __name__ == "__main__":
    sys.exit(main())
