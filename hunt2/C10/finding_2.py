"""
Finding 2: an ODS document (data or CID) with deeply nested but well formed
elements - text:span inside a cell or table:table-row-group around a row -
fails with RecursionError instead of DataFormatError; the command line
answers with exit code 4.
"""
import io
import logging
import os
import sys
import tempfile
import zipfile

from cutplace import applications, errors, interface, validio

NAMESPACES = (
    'xmlns:office="urn:oasis:names:tc:opendocument:xmlns:office:1.0" '
    'xmlns:table="urn:oasis:names:tc:opendocument:xmlns:table:1.0" '
    'xmlns:text="urn:oasis:names:tc:opendocument:xmlns:text:1.0"'
)


def write_ods(path, table_xml):
    content = (
        '<?xml version="1.0" encoding="UTF-8"?><office:document-content %s><office:body><office:spreadsheet>'
        '<table:table table:name="s">%s</table:table></office:spreadsheet></office:body>'
        "</office:document-content>" % (NAMESPACES, table_xml)
    )
    with zipfile.ZipFile(path, "w", zipfile.ZIP_DEFLATED) as ods:
        ods.writestr("mimetype", "application/vnd.oasis.opendocument.spreadsheet")
        ods.writestr("content.xml", content)


def nested_span_table(depth):
    return (
        "<table:table-row><table:table-cell><text:p>"
        + "<text:span>" * depth
        + "x"
        + "</text:span>" * depth
        + "</text:p></table:table-cell></table:table-row>"
    )


def nested_group_table(depth):
    return (
        "<table:table-row-group>" * depth
        + "<table:table-row><table:table-cell><text:p>x</text:p></table:table-cell></table:table-row>"
        + "</table:table-row-group>" * depth
    )


violations = 0
logging.disable(logging.CRITICAL)
cid = interface.create_cid_from_string("d,format,ods\nf,a\n")

with tempfile.TemporaryDirectory() as folder:
    ods_path = os.path.join(folder, "nested.ods")
    cid_path = os.path.join(folder, "cid.csv")
    with io.open(cid_path, "w", encoding="utf-8") as cid_file:
        cid_file.write("d,format,ods\nf,a\n")
    for name, table_function in (("text:span", nested_span_table), ("table:table-row-group", nested_group_table)):
        for depth in (100, 2000):
            write_ods(ods_path, table_function(depth))
            label = "%s nested %d times" % (name, depth)
            # As data.
            try:
                validio.validate(cid, ods_path)
                print("%s, as data: valid" % label)
            except errors.CutplaceError as error:
                print("%s, as data: %s: %s" % (label, type(error).__name__, str(error)[:80]))
            except Exception as error:
                violations += 1
                print("%s, as data: VIOLATION %s: %s" % (label, type(error).__name__, error))
            # As CID.
            try:
                interface.Cid(ods_path)
                print("%s, as CID: accepted" % label)
            except errors.CutplaceError as error:
                print("%s, as CID: %s: %s" % (label, type(error).__name__, str(error)[:80]))
            except Exception as error:
                violations += 1
                print("%s, as CID: VIOLATION %s: %s" % (label, type(error).__name__, error))
            # Command line.
            exit_code = applications.main(["cutplace", cid_path, ods_path])
            print("%s, command line exit code: %d" % (label, exit_code))
            if exit_code == 4:
                violations += 1
                print("VIOLATION: exit code 4")

sys.exit(1 if violations else 0)
