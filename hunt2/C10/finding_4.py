"""
Finding 4: the repairs for absurdly big numbers (eb7b141 for the length of
Integer fields, 546d795 for repeat counts in ODS) leave neighbours that still
end in MemoryError instead of InterfaceError / DataFormatError:

a) a Decimal field with the 13 character rule "1e-999999999": every message
   about a rejected value (or example) formats the limits with 999999999
   digits after the decimal separator, which takes several gigabytes.
b) an ODS cell repeated 100000000 times: the row itself still fits into
   memory, so the check added by 546d795 does not trigger, but the message
   about the surplus items does not.

The address space of this process is limited to 2 GB to keep the
demonstration harmless and deterministic. Without the limit a) needs about
6 GB and 12 seconds for each rejected value.
"""
import io
import os
import resource
import sys
import tempfile
import zipfile

from cutplace import errors, interface, validio

LIMIT = 2 * 1024**3
_, hard_limit = resource.getrlimit(resource.RLIMIT_AS)
resource.setrlimit(resource.RLIMIT_AS, (LIMIT, hard_limit))

violations = 0


def report(label, action):
    global violations
    try:
        action()
        print("%s: accepted" % label)
    except errors.CutplaceError as error:
        print("%s: %s: %s" % (label, type(error).__name__, str(error)[:80]))
    except Exception as error:
        violations += 1
        print("%s: VIOLATION %s" % (label, type(error).__name__))


# a) Decimal rule with an absurd number of digits after the decimal separator.
for rule in ("1e-9", "1e-999999999"):
    report(
        "Decimal rule %r, example '1'" % rule,
        lambda: interface.create_cid_from_string("d,format,delimited\nf,a,1,,,Decimal,%s\n" % rule),
    )

    def validate_with_decimal_rule():
        cid = interface.create_cid_from_string("d,format,delimited\nf,a,,,,Decimal,%s\n" % rule)
        validio.validate(cid, io.StringIO("1\n"))

    report("Decimal rule %r, data '1'" % rule, validate_with_decimal_rule)

# b) ODS cell with a repeat count that fits into memory once but not several times.
NAMESPACES = (
    'xmlns:office="urn:oasis:names:tc:opendocument:xmlns:office:1.0" '
    'xmlns:table="urn:oasis:names:tc:opendocument:xmlns:table:1.0" '
    'xmlns:text="urn:oasis:names:tc:opendocument:xmlns:text:1.0"'
)
ods_cid = interface.create_cid_from_string("d,format,ods\nf,a\n")
with tempfile.TemporaryDirectory() as folder:
    ods_path = os.path.join(folder, "repeated.ods")
    for repeat_count in (1000, 100000000, 100000000000):
        content = (
            '<?xml version="1.0" encoding="UTF-8"?><office:document-content %s><office:body><office:spreadsheet>'
            '<table:table table:name="s"><table:table-row>'
            '<table:table-cell table:number-columns-repeated="%d"><text:p>x</text:p></table:table-cell>'
            "</table:table-row></table:table></office:spreadsheet></office:body></office:document-content>"
            % (NAMESPACES, repeat_count)
        )
        with zipfile.ZipFile(ods_path, "w") as ods:
            ods.writestr("content.xml", content)
        report("ODS cell repeated %d times" % repeat_count, lambda: validio.validate(ods_cid, ods_path))

sys.exit(1 if violations else 0)
