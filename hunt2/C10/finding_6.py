"""
Finding 6 (borderline, concerns writing instead of reading): data that cannot
be encoded with the encoding declared in the CID are reported as
DataFormatError only if the codec raises UnicodeEncodeError. Codecs that raise
a plain UnicodeError - "idna" for labels that are empty or too long,
"undefined" for everything - let the UnicodeError escape from
cutplace.Writer, although the readers translate the very same situation to
DataFormatError (see the notes about "idna" in rowio.delimited_rows() and
rowio.fixed_rows()).
"""
import io
import os
import sys
import tempfile

from cutplace import errors, interface, validio

violations = 0
with tempfile.TemporaryDirectory() as folder:
    for data_format, field_row, value in (
        ("delimited", "f,a", "a..b"),
        ("fixed", "f,a,,,4", "a..b"),
    ):
        for encoding in ("ascii", "idna", "undefined"):
            cid = interface.create_cid_from_string(
                "d,format,%s\nd,encoding,%s\n%s\n" % (data_format, encoding, field_row)
            )
            for rows_to_write in ([[value]], [["ä" + value[1:]]]):
                target_path = os.path.join(folder, "written.txt")
                label = "%s, encoding %s, write %r" % (data_format, encoding, rows_to_write[0])
                try:
                    with validio.Writer(cid, target_path) as writer:
                        writer.write_rows(rows_to_write)
                    print("%s: written" % label)
                except errors.CutplaceError as error:
                    print("%s: %s: %s" % (label, type(error).__name__, str(error)[:70]))
                except Exception as error:
                    violations += 1
                    print("%s: VIOLATION %s: %s" % (label, type(error).__name__, error))
            # For comparison: reading with the same encoding never lets a UnicodeError escape.
            data_path = os.path.join(folder, "data.txt")
            with io.open(data_path, "wb") as data_file:
                data_file.write(b"a..b")
            try:
                validio.validate(cid, data_path)
                print("%s, encoding %s, read b'a..b': valid" % (data_format, encoding))
            except errors.CutplaceError as error:
                print("%s, encoding %s, read b'a..b': %s" % (data_format, encoding, type(error).__name__))
            except Exception as error:
                violations += 1
                print("%s, encoding %s, read b'a..b': VIOLATION %s" % (data_format, encoding, type(error).__name__))
sys.exit(1 if violations else 0)
