"""
Finding 1: a fixed-format CID whose field length is a range that is open at
both ends (for example "...5, 7...") fails with TypeError instead of
InterfaceError; the command line answers with exit code 4.
"""
import io
import logging
import os
import sys
import tempfile

from cutplace import applications, errors, interface

violations = 0

for field_type in ("", "Text", "Decimal", "RegEx", "Pattern", "DateTime"):
    cid_text = 'd,format,fixed\nf,a,,,"...5, 7...",%s,\n' % field_type
    try:
        interface.create_cid_from_string(cid_text)
        print("type %-8r: CID accepted" % field_type)
    except errors.CutplaceError as error:
        print("type %-8r: %s: %s" % (field_type, type(error).__name__, error))
    except Exception as error:
        violations += 1
        print("type %-8r: VIOLATION %s: %s" % (field_type, type(error).__name__, error))

# Same CID through the command line.
logging.disable(logging.CRITICAL)
with tempfile.TemporaryDirectory() as folder:
    cid_path = os.path.join(folder, "cid_fixed.csv")
    data_path = os.path.join(folder, "data.txt")
    with io.open(cid_path, "w", encoding="utf-8") as cid_file:
        cid_file.write('d,format,fixed\nf,a,,,"...5, 7..."\n')
    with io.open(data_path, "w", encoding="utf-8") as data_file:
        data_file.write("abc\n")
    exit_code = applications.main(["cutplace", cid_path, data_path])
    print("command line exit code: %d" % exit_code)
    if exit_code == 4:
        violations += 1
        print("VIOLATION: exit code 4")

sys.exit(1 if violations else 0)
