"""
Finding 5: the repair for DistinctCount rules that leave the application
(0a9122c) covers SystemExit only. The rule is still evaluated with eval(), so

a) a rule raising another exception not derived from Exception, for example
   KeyboardInterrupt, passes through Cid() respectively
   Reader.close() unchanged, and
b) a rule whose result cannot be compared with True and False fails outside
   of the try block in DistinctCountCheck._eval(), for example with
   decimal.InvalidOperation.
"""
import io
import sys

from cutplace import errors, interface, validio

violations = 0


def report(label, action):
    global violations
    try:
        action()
        print("%s: accepted" % label)
    except errors.CutplaceError as error:
        print("%s: %s: %s" % (label, type(error).__name__, str(error)[:90]))
    except BaseException as error:
        violations += 1
        print("%s: VIOLATION %s: %s" % (label, type(error).__name__, error))


def cid_with_rule(rule):
    return interface.create_cid_from_string(
        'd,format,delimited\nf,a\nc,chk,DistinctCount,"%s"\n' % rule.replace('"', '""')
    )


def validated(rule):
    validio.validate(cid_with_rule(rule), io.StringIO("x\ny\n"))


# Reference: the repaired case.
report("a == 0 and exit(7) [while reading the CID]", lambda: cid_with_rule("a == 0 and exit(7)"))
# a) other exceptions not derived from Exception.
report(
    "a == 0 and exec('raise KeyboardInterrupt') [while reading the CID]",
    lambda: cid_with_rule("a == 0 and exec('raise KeyboardInterrupt')"),
)
report(
    "a < 2 or exec('raise KeyboardInterrupt') [at the end of the data]",
    lambda: validated("a < 2 or exec('raise KeyboardInterrupt')"),
)
# b) result that cannot be compared.
report(
    "a or __import__('decimal').Decimal('sNaN') [while reading the CID]",
    lambda: cid_with_rule("a or __import__('decimal').Decimal('sNaN')"),
)
report(
    "a < 2 or __import__('decimal').Decimal('sNaN') [at the end of the data]",
    lambda: validated("a < 2 or __import__('decimal').Decimal('sNaN')"),
)
sys.exit(1 if violations else 0)
