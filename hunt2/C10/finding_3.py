"""
Finding 3: a long rule written in a single line - for example a Choice field
with 20000 choices, which is a cell of about 129000 characters - needs several
gigabytes to be split into tokens and fails with MemoryError instead of being
accepted or rejected with an InterfaceError.

_tools.generated_tokens() collects all tokens in a list, and each token
carries its own copy of the line it was found in, so the memory needed grows
with the square of the length of the line (about 0.3 GB for 5000 choices,
1.2 GB for 10000, more than 3 GB for 20000, more than 100 GB for 100000).

To keep the demonstration harmless and deterministic, the address space of
this process is limited to 3 GB.
"""
import resource
import sys
import time

from cutplace import errors, interface

LIMIT = 3 * 1024**3
_, hard_limit = resource.getrlimit(resource.RLIMIT_AS)
resource.setrlimit(resource.RLIMIT_AS, (LIMIT, hard_limit))

violations = 0
for choice_count in (1000, 5000, 20000):
    rule = ",".join("c%d" % choice_index for choice_index in range(choice_count))
    cid_text = 'd,format,delimited\nf,a,,,,Choice,"%s"\n' % rule
    start_time = time.time()
    try:
        interface.create_cid_from_string(cid_text)
        outcome = "CID accepted"
    except errors.CutplaceError as error:
        outcome = "%s: %s" % (type(error).__name__, str(error)[:80])
    except Exception as error:
        violations += 1
        outcome = "VIOLATION %s" % type(error).__name__
    print(
        "%6d choices, rule of %6d characters: %s (%.1f s, peak memory %d MB)"
        % (
            choice_count,
            len(rule),
            outcome,
            time.time() - start_time,
            resource.getrusage(resource.RUSAGE_SELF).ru_maxrss // 1024,
        )
    )
sys.exit(1 if violations else 0)
