"""
C08 finding 1: a Reader that has been closed once never performs the end-of-data checks again.

Run 1 reads a file with a reader and closes it. Run 2 reads with the same reader (same CID) again - which
Reader.rows() supports: it resets the row numbers, the counters and the checks - and closes it. The second
close() does nothing because the reader is still marked as closed from run 1, so the end-of-data verdict of
run 2 (DistinctCount) is lost, while the same run on a freshly loaded CID fails with a CheckError.
"""
import os
import sys
import tempfile

from cutplace import errors, interface, validio

CID_TEXT = """d,format,delimited
f,id,,,,Integer
f,branch
c,id must be unique,IsUnique,id
c,at most 2 branches,DistinctCount,branch <= 2
"""


def end_of_data_verdict(reader):
    try:
        reader.close()
        return "ok"
    except errors.CheckError as error:
        return "CheckError: %s" % error


def main():
    folder = tempfile.mkdtemp()
    data_path = os.path.join(folder, "branches.csv")

    def write_data(text):
        with open(data_path, "w", encoding="cp1252", newline="") as data_file:
            data_file.write(text)

    violated = False

    # Scenario A: first run is clean; the data set is replaced; the second run must fail at the end of the data.
    cid = interface.create_cid_from_string(CID_TEXT)
    write_data("1,north\n2,south\n")
    reader = validio.Reader(cid, data_path)
    with reader:
        rows_1 = list(reader.rows())
    print("A run 1: rows=%r, end of data: ok" % rows_1)
    write_data("1,north\n2,south\n3,east\n")
    rows_2 = list(reader.rows())
    verdict_2 = end_of_data_verdict(reader)
    print("A run 2 (used reader/CID):  rows=%r, end of data: %s" % (rows_2, verdict_2))

    fresh_reader = validio.Reader(interface.create_cid_from_string(CID_TEXT), data_path)
    fresh_rows = list(fresh_reader.rows())
    fresh_verdict = end_of_data_verdict(fresh_reader)
    print("A same run on a fresh CID:  rows=%r, end of data: %s" % (fresh_rows, fresh_verdict))
    if (rows_2, verdict_2) != (fresh_rows, fresh_verdict):
        violated = True

    # Scenario B: retry after a run that ended in an error (raise mode); the 'with' block closed the reader.
    cid = interface.create_cid_from_string(CID_TEXT)
    write_data("1,north\nx,south\n3,east\n4,west\n")
    reader = validio.Reader(cid, data_path)
    try:
        with reader:
            reader.validate_rows()
    except errors.DataError as error:
        print("B run 1 ended in an error: %s" % error)
    write_data("1,north\n2,south\n3,east\n4,west\n")  # broken id repaired, still 4 branches
    try:
        with reader:
            reader.validate_rows()
        verdict_2 = "ok"
    except errors.CheckError as error:
        verdict_2 = "CheckError: %s" % error
    print("B run 2 (used reader/CID):  end of data: %s" % verdict_2)
    try:
        validio.validate(interface.create_cid_from_string(CID_TEXT), data_path)
        fresh_verdict = "ok"
    except errors.CheckError as error:
        fresh_verdict = "CheckError: %s" % error
    print("B same run on a fresh CID:  end of data: %s" % fresh_verdict)
    if verdict_2 != fresh_verdict:
        violated = True

    print("VIOLATION" if violated else "no violation")
    return 1 if violated else 0


if __name__ == "__main__":
    sys.exit(main())
