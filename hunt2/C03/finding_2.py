"""
C03 finding 2: a field format added with Cid.add_field_format() keeps validating against the DataFormat
it was created with. The documentation of add_field_format() explicitly names copying a field format from
the field_formats of an existing CID as a way to use it. The guards of the receiving CID's data format
(allowed characters, "blanks only = empty" for fixed data) are then not applied to that field.
"""
import io
import sys

import cutplace
from cutplace import errors


def outcome(cid, text):
    try:
        cutplace.validate(cid, io.StringIO(text, newline=""))
        return "accepted"
    except errors.DataError as error:
        return "rejected (%s)" % error


# A library CID some fields are taken from; it has no restriction on characters.
library_cid = cutplace.Cid()
library_cid.add_data_format_row(["format", "delimited"])
library_cid.add_field_format_row(["code", "", "", "3", "Text"])

# Case A: delimited CID that allows digits only.
digits_cid = cutplace.Cid()
digits_cid.add_data_format_row(["format", "delimited"])
digits_cid.add_data_format_row(["allowed characters", "48...57"])
digits_cid.add_field_format(library_cid.field_formats[0])  # copied field
digits_cid.add_field_format_row(["own", "", "", "3", "Text"])  # same declaration, made in place
digits_cid.data_format.validate()
print("data format of digits_cid:", digits_cid.data_format)
copied_outcome = outcome(digits_cid, "abc,123\n")
own_outcome = outcome(digits_cid, "123,abc\n")
print("A: letters in the copied field  :", copied_outcome)
print("A: letters in the declared field:", own_outcome)

# Case B: fixed CID; a cell of blanks is an empty cell and the field must not be empty.
fixed_cid = cutplace.Cid()
fixed_cid.add_data_format_row(["format", "fixed"])
fixed_cid.add_field_format(library_cid.field_formats[0])
fixed_cid.data_format.validate()
blank_outcome = outcome(fixed_cid, "   \n")
print("B: cell of 3 blanks in fixed data, field must not be empty:", blank_outcome)

violated = (copied_outcome == "accepted" and own_outcome.startswith("rejected")) or blank_outcome == "accepted"
if violated:
    print("VIOLATION: the guards of the CID's data format are not applied to a field added with add_field_format()")
sys.exit(1 if violated else 0)
