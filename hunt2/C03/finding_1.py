"""
C03 finding 1: an ODS cell that stores its content only in the office:value / office:string-value
attributes (legal ODF, text:p is an optional display cache; typical for files written with odfpy as
TableCell(valuetype="float", value=...)) is read as an EMPTY cell. With a field that may be empty the
cell is accepted although its content violates the declared length and the allowed characters;
with a field that must not be empty a perfectly filled cell is rejected as empty.
"""
import os
import sys
import tempfile
import zipfile

import cutplace
from cutplace import errors

NS = (
    'xmlns:office="urn:oasis:names:tc:opendocument:xmlns:office:1.0" '
    'xmlns:table="urn:oasis:names:tc:opendocument:xmlns:table:1.0" '
    'xmlns:text="urn:oasis:names:tc:opendocument:xmlns:text:1.0"'
)


def write_ods(path, cells_xml):
    content = (
        '<?xml version="1.0" encoding="UTF-8"?>'
        "<office:document-content %s office:version=\"1.2\"><office:body><office:spreadsheet>"
        '<table:table table:name="Sheet1"><table:table-row>%s</table:table-row></table:table>'
        "</office:spreadsheet></office:body></office:document-content>"
    ) % (NS, cells_xml)
    with zipfile.ZipFile(path, "w") as ods_zip:
        ods_zip.writestr("mimetype", "application/vnd.oasis.opendocument.spreadsheet")
        ods_zip.writestr("content.xml", content)


def create_cid(empty_mark):
    cid = cutplace.Cid()
    cid.add_data_format_row(["format", "ods"])
    cid.add_data_format_row(["allowed characters", "48...57"])  # digits only
    cid.add_field_format_row(["amount", "", empty_mark, "1...3", "Integer", "1...3"])
    cid.add_field_format_row(["code", "", empty_mark, "1...3", "Text", ""])
    cid.data_format.validate()
    return cid


def outcome(cid, path):
    try:
        cutplace.validate(cid, path)
        return "accepted"
    except errors.DataError as error:
        return "rejected (%s)" % error


folder = tempfile.mkdtemp()
value_only_path = os.path.join(folder, "value_only.ods")
with_text_path = os.path.join(folder, "with_text.ods")
good_value_only_path = os.path.join(folder, "good_value_only.ods")
# 99999 is too long (5 > 3) and out of the rule 1...3; "hello world" is too long and has letters and a blank.
write_ods(
    value_only_path,
    '<table:table-cell office:value-type="float" office:value="99999"/>'
    '<table:table-cell office:value-type="string" office:string-value="hello world"/>',
)
write_ods(
    with_text_path,
    '<table:table-cell office:value-type="float" office:value="99999"><text:p>99999</text:p></table:table-cell>'
    '<table:table-cell office:value-type="string"><text:p>hello world</text:p></table:table-cell>',
)
write_ods(
    good_value_only_path,
    '<table:table-cell office:value-type="float" office:value="2"/>'
    '<table:table-cell office:value-type="string" office:string-value="12"/>',
)

print("raw rows of value_only.ods:", list(cutplace.rowio.ods_rows(value_only_path)))
control = outcome(create_cid("X"), with_text_path)
bad_when_empty_allowed = outcome(create_cid("X"), value_only_path)
good_when_empty_refused = outcome(create_cid(""), good_value_only_path)
print("control (same content also in text:p), fields may be empty :", control)
print("cells 99999 / 'hello world' as values only, may be empty  :", bad_when_empty_allowed)
print("cells 2 / '12' as values only, must not be empty           :", good_when_empty_refused)

violated = control.startswith("rejected") and bad_when_empty_allowed == "accepted"
if violated:
    print("VIOLATION: non-empty cells outside length and allowed characters are accepted as empty cells")
sys.exit(1 if violated else 0)
