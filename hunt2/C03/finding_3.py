"""
C03 finding 3: white space in the text:p of an ODS cell is taken literally instead of being collapsed the
way ODF defines it (ODF 1.2 part 1, 6.1.2: tab, CR and LF count as blank, runs of blanks collapse to one,
blanks at the start and end of the paragraph are ignored; real blanks are stored as text:s). ODS files
produced by templates or pretty printers have such insignificant white space. The reader then
 - takes an empty cell for a non-empty one (accepted although the field must not be empty; rejected for
   its "characters" although the field may be empty),
 - counts characters the cell does not have, so that a cell outside the declared length is accepted.
"""
import os
import sys
import tempfile
import zipfile

import cutplace
from cutplace import errors

NS = (
    'xmlns:office="urn:oasis:names:tc:opendocument:xmlns:office:1.0" '
    'xmlns:table="urn:oasis:names:tc:opendocument:xmlns:table:1.0" '
    'xmlns:text="urn:oasis:names:tc:opendocument:xmlns:text:1.0"'
)


def write_ods(path, cell_xml):
    content = (
        '<?xml version="1.0" encoding="UTF-8"?>'
        '<office:document-content %s office:version="1.2"><office:body><office:spreadsheet>'
        '<table:table table:name="Sheet1"><table:table-row>%s</table:table-row></table:table>'
        "</office:spreadsheet></office:body></office:document-content>"
    ) % (NS, cell_xml)
    with zipfile.ZipFile(path, "w") as ods_zip:
        ods_zip.writestr("mimetype", "application/vnd.oasis.opendocument.spreadsheet")
        ods_zip.writestr("content.xml", content)


def create_cid(empty_mark, length, allowed_characters=None):
    cid = cutplace.Cid()
    cid.add_data_format_row(["format", "ods"])
    if allowed_characters is not None:
        cid.add_data_format_row(["allowed characters", allowed_characters])
    cid.add_field_format_row(["name", "", empty_mark, length, "Text", ""])
    cid.data_format.validate()
    return cid


def outcome(cid, path):
    try:
        cutplace.validate(cid, path)
        return "accepted"
    except errors.DataError as error:
        return "rejected (%s)" % error


folder = tempfile.mkdtemp()
empty_path = os.path.join(folder, "empty_pretty.ods")
abc_path = os.path.join(folder, "abc_pretty.ods")
# An empty paragraph and the paragraph "abc" the way a pretty printing generator writes them.
write_ods(empty_path, "<table:table-cell><text:p>\n      </text:p></table:table-cell>")
write_ods(abc_path, "<table:table-cell><text:p>\n        abc\n      </text:p></table:table-cell>")
print("cell cutplace sees for the empty paragraph:", list(cutplace.rowio.ods_rows(empty_path)))
print("cell cutplace sees for the paragraph 'abc':", list(cutplace.rowio.ods_rows(abc_path)))

empty_when_refused = outcome(create_cid("", ""), empty_path)
empty_when_allowed = outcome(create_cid("X", "", "33...126"), empty_path)
abc_with_length_3 = outcome(create_cid("", "3"), abc_path)
abc_with_length_19 = outcome(create_cid("", "10..."), abc_path)
print("empty cell, field must not be empty                       :", empty_when_refused)
print("empty cell, field may be empty, allowed characters 33...126:", empty_when_allowed)
print("cell 'abc', length 3                                      :", abc_with_length_3)
print("cell 'abc', length 10...                                  :", abc_with_length_19)

violated = empty_when_refused == "accepted" or empty_when_allowed != "accepted" or abc_with_length_19 == "accepted"
if violated:
    print("VIOLATION: insignificant white space of an ODS paragraph counts as characters of the cell")
sys.exit(1 if violated else 0)
