"""
C14 finding 1: with a data format encoding whose Python codec is not reversible (shift_jis, euc_jp: the yen
sign U+00A5 is encoded as byte 0x5C, which decodes as a backslash; cp932, cp950: similar for other characters)
a path-bound Writer accepts rows whose output does not read back as written. With the backslash declared as
escape character the written line even reads back with a wrong item count, so the reader rejects what the
writer accepted.
"""
import os
import sys
import tempfile

import cutplace
import cutplace.errors
from cutplace import interface

violations = []
folder = tempfile.mkdtemp()


def check(title, cid_lines, rows_to_write, strip_padding=False):
    cid = interface.create_cid_from_string("\n".join(cid_lines))
    data_path = os.path.join(folder, "data.txt")
    accepted = []
    with cutplace.Writer(cid, data_path) as writer:
        for row in rows_to_write:
            try:
                writer.write_row(row)
                accepted.append(row)
            except cutplace.errors.CutplaceError as error:
                print("  writer rejected %r: %s" % (row, error))
    with open(data_path, "rb") as data_file:
        print("%s\n  accepted by writer: %r\n  bytes written: %r" % (title, accepted, data_file.read()))
    try:
        rows_read = list(cutplace.rows(cid, data_path))
        if strip_padding:
            rows_read = [[item.rstrip(" ") for item in row] for row in rows_read]
        print("  read back: %r" % rows_read)
        if rows_read != accepted:
            violations.append(title + ": values read back differ from the values written")
    except cutplace.errors.CutplaceError as error:
        print("  read back fails: %s" % error)
        violations.append(title + ": reader rejects the output of the writer: %s" % error)


check(
    "A) delimited, shift_jis",
    ["d,format,delimited", "d,encoding,shift_jis", "f,price,,,,", "f,note,,X,,"],
    [["¥100", "ok"]],
)
check(
    "B) delimited, shift_jis, escape character backslash",
    ["d,format,delimited", "d,encoding,shift_jis", 'd,escape character,"\\"', "f,price,,,,", "f,note,,X,,"],
    [["100¥", "ok"]],
)
check(
    "C) delimited, euc_jp, IsUnique",
    ["d,format,delimited", "d,encoding,euc_jp", "f,key,,,,", "c,key_unique,IsUnique,key"],
    [["¥1"], ["\\1"]],
)
check(
    "D) fixed, cp932",
    ["d,format,fixed", "d,encoding,cp932", "d,line delimiter,lf", "f,amount,,,6,"],
    [["−5"]],
    strip_padding=True,
)

print()
for violation in violations:
    print("VIOLATION: " + violation)
sys.exit(1 if violations else 0)
