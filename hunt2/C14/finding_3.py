"""
C14 finding 3: a row refused at the encoding stage (DataFormatError "cannot write data row", documented as
recoverable) leaves the encoder of the target stream in a changed state, so rows accepted AFTER the rejection are
emitted damaged and do not read back.

a) stateful encodings iso2022_jp (and its variants), iso2022_kr, hz: the rejected row contains a character the
   encoding knows followed by one it does not know (emoji, Thai, ...). The encoder has already switched its
   character set when it fails; the escape sequence is lost with the rejected row, and the next accepted row is
   written without it -> it reads back as garbage like '$$$&', a fixed file becomes unreadable.
b) utf-16 / utf-32: the very first row is rejected (lone surrogate, e.g. from errors='surrogateescape'): the byte
   order mark is never written, the whole output fails with "UTF-16 stream does not start with BOM".

In both cases the same rows without the rejected one in between are written and read back correctly (control).
"""
import os
import sys
import tempfile

import cutplace
import cutplace.errors
from cutplace import interface

violations = []
folder = tempfile.mkdtemp()


def run(title, format_name, encoding, rows_to_write):
    cid = interface.create_cid_from_string(
        "\n".join(
            [
                "d,format,%s" % format_name,
                "d,encoding,%s" % encoding,
                "d,line delimiter,lf",
                "f,name,,,%s," % ("8" if format_name == "fixed" else ""),
            ]
        )
    )
    data_path = os.path.join(folder, "data.txt")
    accepted = []
    with cutplace.Writer(cid, data_path) as writer:
        for row in rows_to_write:
            try:
                writer.write_row(row)
                accepted.append(row)
            except cutplace.errors.CutplaceError as error:
                print("  rejected %a: %s: %s" % (row, type(error).__name__, str(error)[:75]))
    with open(data_path, "rb") as data_file:
        data_bytes = data_file.read()
    print("%s\n  accepted: %a\n  output: %r" % (title, accepted, data_bytes))
    try:
        rows_read = [[item.rstrip(" ") for item in row] for row in cutplace.rows(cid, data_path)]
        print("  read back: %a" % rows_read)
        if rows_read != accepted:
            return "read back %a instead of %a" % (rows_read, accepted)
    except cutplace.errors.CutplaceError as error:
        print("  read back fails: %s" % error)
        return "output with %d accepted rows cannot be read back: %s" % (len(accepted), error)
    return None


CASES = [
    # (format, encoding, row to reject, rows to accept)
    ("delimited", "iso2022_jp", ["あ\U0001F600"], [["いう"], ["abc"]]),
    ("fixed", "iso2022_jp", ["あ\U0001F600"], [["いう"], ["abc"]]),
    ("delimited", "iso2022_kr", ["한\U0001F600"], [["글"], ["abc"]]),
    ("delimited", "hz", ["中\U0001F600"], [["文"], ["abc"]]),
    ("delimited", "utf-16", ["f\udce9.txt"], [["second"], ["third"]]),
    ("fixed", "utf-16", ["f\udce9.txt"], [["second"], ["third"]]),
    ("delimited", "utf-32", ["f\udce9.txt"], [["second"], ["third"]]),
]
for format_name, encoding, bad_row, good_rows in CASES:
    control = run("control: %s, %s, only the accepted rows" % (format_name, encoding), format_name, encoding, good_rows)
    if control is not None:
        print("  (control already fails: %s)" % control)
        continue
    title = "%s, %s, rejected row %a first" % (format_name, encoding, bad_row)
    problem = run(title, format_name, encoding, [bad_row] + good_rows)
    if problem is not None:
        violations.append(title + ": " + problem)

print()
for violation in violations:
    print("VIOLATION: " + violation)
sys.exit(1 if violations else 0)
