"""
C14 finding 2: a row that passes validate_row() but is then refused by the delegated row writer (character that
the declared encoding cannot represent -> DataFormatError, nothing emitted) has already been registered by all
checks of the CID. Nothing is emitted for the row, but it is not without effect: a corrected retry is refused as
duplicate of a row that is not in the output, and Writer.close() judges whole-file checks on rows that were never
written, so the writer's end-of-data verdict contradicts the verdict of reading the produced output back.

(Neighbour of the open defect C05:isunique:duplicate-of-rejected-row, but the rejection happens outside
validate_row(), after ALL checks have accepted the row; applies to delimited and fixed, only for targets given
as path or as encoding stream.)
"""
import os
import sys
import tempfile

import cutplace
import cutplace.errors
from cutplace import interface

violations = []
folder = tempfile.mkdtemp()

for data_format_lines, name_length in (
    (["d,format,delimited", "d,line delimiter,lf"], ""),
    (["d,format,fixed", "d,line delimiter,lf"], "5"),
):
    format_name = data_format_lines[0].split(",")[2]
    cid = interface.create_cid_from_string(
        "\n".join(
            data_format_lines
            + [
                "d,encoding,ascii",
                "f,id,,,%s," % ("2" if name_length else ""),
                "f,name,,X,%s," % name_length,
                "c,id_unique,IsUnique,id",
                "c,at_most_2_ids,DistinctCount,id <= 2",
            ]
        )
    )
    data_path = os.path.join(folder, "data_%s.txt" % format_name)
    print("--- %s" % format_name)
    emitted = []
    writer = cutplace.Writer(cid, data_path)
    retry_was_refused = False
    for row in (["1", "Ann"], ["2", "Zo\xeb"], ["2", "Zoe"], ["3", "Ren\xe9"]):
        try:
            writer.write_row(row)
            emitted.append(row)
            print("accepted %r" % row)
        except cutplace.errors.CutplaceError as error:
            print("rejected %r: %s: %s" % (row, type(error).__name__, error))
            if row == ["2", "Zoe"] and isinstance(error, cutplace.errors.CheckError):
                retry_was_refused = True
    writer_end_error = None
    try:
        writer.close()
    except cutplace.errors.CheckError as error:
        writer_end_error = error
    print("Writer.close(): %s" % (writer_end_error or "ok"))
    with open(data_path, "r", newline="", encoding="ascii") as data_file:
        print("output: %r" % data_file.read())
    reader_end_error = None
    try:
        rows_read = list(cutplace.rows(cid, data_path))
        print("read back ok: %r" % rows_read)
    except cutplace.errors.CutplaceError as error:
        reader_end_error = error
        print("read back fails: %s" % error)
    if retry_was_refused:
        violations.append(
            "%s: after ['2', 'Zoë'] was rejected (nothing emitted), ['2', 'Zoe'] is refused as its duplicate" % format_name
        )
    if (writer_end_error is None) != (reader_end_error is None):
        violations.append(
            "%s: Writer.close() says %r but the produced output (%d rows) validates without error"
            % (format_name, str(writer_end_error), len(emitted))
        )

print()
for violation in violations:
    print("VIOLATION: " + violation)
sys.exit(1 if violations else 0)
