"""
C12 finding 2 (lower confidence, depends on the kind of stream): cells with a line break other than CR / LF
(form feed, NEL U+0085, LINE SEPARATOR U+2028, ...) are written without quotes; reading the result through a
text stream from codecs.open() - a filelike object yielding str that never translates newlines - breaks such
rows apart, without any error.

Run:  cd /tmp/wi_c12 && PYTHONPATH=/tmp/wi_c12 /venv/bin/python -W ignore /tmp/hunt2_c12/finding_2.py
Exit code 1 = violation observed, 0 = not observed.
"""
import codecs
import os
import sys
import tempfile

import cutplace
from cutplace import interface

cid = interface.Cid()
cid.read(
    "inline",
    [
        ["d", "format", "delimited"],
        ["d", "encoding", "utf-8"],
        ["d", "line delimiter", "lf"],
        ["f", "first", "", "x", "", "Text"],
        ["f", "second", "", "x", "", "Text"],
    ],
)

TABLE = [["a\x0cb", "c"], ["d\x85e", "f"], ["g h", "i"], ["j\rk", "l\nm"]]

path = os.path.join(tempfile.mkdtemp(), "data.csv")
with codecs.open(path, "w", encoding="utf-8") as target_stream:
    with cutplace.Writer(cid, target_stream) as writer:
        writer.write_rows(TABLE)
with open(path, "rb") as data_file:
    print("written bytes: %r" % data_file.read())

via_path = list(cutplace.rows(cid, path))
print("read back from path          : %s" % ("identical" if via_path == TABLE else via_path))

with codecs.open(path, "r", encoding="utf-8") as source_stream:
    try:
        via_stream = list(cutplace.rows(cid, source_stream, on_error="yield"))
    except cutplace.errors.CutplaceError as error:
        via_stream = "%s: %s" % (type(error).__name__, error)
print("read back from codecs stream : %s" % ("identical" if via_stream == TABLE else via_stream))

if via_stream != TABLE:
    print("VIOLATION: cells with FF / NEL / LINE SEPARATOR do not survive the round trip through this stream")
    sys.exit(1)
print("no violation observed")
sys.exit(0)
