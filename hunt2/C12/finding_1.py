"""
C12 finding 1: a table written to an ``io.StringIO()`` (the stream the documentation of cutplace.Writer
suggests, and the kind of stream cutplace itself reads delimited CIDs from in create_cid_from_string)
with line delimiter 'cr' cannot be read back from that very stream.

Run:  cd /tmp/wi_c12 && PYTHONPATH=/tmp/wi_c12 /venv/bin/python -W ignore /tmp/hunt2_c12/finding_1.py
Exit code 1 = violation observed, 0 = not observed.
"""
import io
import os
import sys
import tempfile

import cutplace
from cutplace import interface


def create_cid(line_delimiter):
    cid = interface.Cid()
    cid.read(
        "inline",
        [
            ["d", "format", "delimited"],
            ["d", "encoding", "utf-8"],
            ["d", "line delimiter", line_delimiter],
            ["f", "first", "", "x", "", "Text"],
            ["f", "second", "", "x", "", "Text"],
        ],
    )
    return cid


TABLE = [["a", "b"], ["c", "d"], ["e f", 'g"h']]

violated = False
for line_delimiter in ("any", "lf", "crlf", "cr"):
    cid = create_cid(line_delimiter)

    # Control: the same table through a file path round-trips.
    folder = tempfile.mkdtemp()
    path = os.path.join(folder, "data.csv")
    with cutplace.Writer(cid, path) as writer:
        writer.write_rows(TABLE)
    via_path = list(cutplace.rows(cid, path))

    # The stream the documentation uses: out = io.StringIO()
    out = io.StringIO()
    with cutplace.Writer(cid, out) as writer:
        writer.write_rows(TABLE)
    written = out.getvalue()
    out.seek(0)
    try:
        via_stream = list(cutplace.rows(cid, out))
    except cutplace.errors.CutplaceError as error:
        via_stream = "%s: %s" % (type(error).__name__, error)
    ok = via_stream == TABLE
    print("line delimiter %-4s: written=%r" % (line_delimiter, written))
    print("    read back from path  : %s" % ("identical" if via_path == TABLE else via_path))
    print("    read back from stream: %s" % ("identical" if ok else via_stream))
    if not ok:
        violated = True

if violated:
    print("VIOLATION: table written to io.StringIO() is not read back identically")
    sys.exit(1)
print("no violation observed")
sys.exit(0)
