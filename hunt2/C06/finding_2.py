"""
C06 finding 2: an ODS whose content.xml nests elements deeply (text:span inside a cell, or
table:table-row-group around the rows) makes the reader fail with RecursionError in every mode:
neither the rows nor a DataFormatError are produced.

Run:  cd /tmp/wi_c06 && PYTHONPATH=/tmp/wi_c06 /venv/bin/python -W ignore /tmp/hunt2_c06/finding_2.py
"""
import os
import sys
import tempfile
import zipfile

import cutplace
from cutplace import errors, interface

NAMESPACES = (
    'xmlns:office="urn:oasis:names:tc:opendocument:xmlns:office:1.0" '
    'xmlns:table="urn:oasis:names:tc:opendocument:xmlns:table:1.0" '
    'xmlns:text="urn:oasis:names:tc:opendocument:xmlns:text:1.0"'
)
CID_TEXT = "D,Format,ODS\nF,a,,,,Integer\n"
DEPTH = 1100


def row_xml(text, span_depth=0):
    return (
        "<table:table-row><table:table-cell><text:p>"
        + "<text:span>" * span_depth
        + text
        + "</text:span>" * span_depth
        + "</text:p></table:table-cell></table:table-row>"
    )


def write_ods(path, table_body):
    content = (
        '<?xml version="1.0" encoding="UTF-8"?><office:document-content %s><office:body><office:spreadsheet>'
        '<table:table table:name="s">%s</table:table></office:spreadsheet></office:body></office:document-content>'
    ) % (NAMESPACES, table_body)
    with zipfile.ZipFile(path, "w") as ods_zip:
        ods_zip.writestr("mimetype", "application/vnd.oasis.opendocument.spreadsheet")
        ods_zip.writestr("content.xml", content)


folder = tempfile.mkdtemp(prefix="c06_finding_2_")
cases = {
    # rows: 1, x (rejected), 3 with the text of the last one wrapped in nested spans
    "nested text:span": row_xml("1") + row_xml("x") + row_xml("3", DEPTH),
    # the same three rows collected in nested row groups
    "nested table:table-row-group": "<table:table-row-group>" * DEPTH
    + row_xml("1")
    + row_xml("x")
    + row_xml("3")
    + "</table:table-row-group>" * DEPTH,
}
violated = False
for case_name, table_body in cases.items():
    ods_path = os.path.join(folder, case_name.replace(" ", "_").replace(":", "_") + ".ods")
    write_ods(ods_path, table_body)
    for on_error in ("yield", "continue", "raise"):
        cid = interface.create_cid_from_string(CID_TEXT)
        reader = cutplace.Reader(cid, ods_path, on_error=on_error)
        items = []
        final_error = None
        try:
            for item in reader.rows():
                items.append(item)
        except Exception as error:
            final_error = error
        print(
            "%s, %s: items=%r, ended with %s: %s"
            % (case_name, on_error, items, type(final_error).__name__, str(final_error)[:60])
        )
        if final_error is not None and not isinstance(final_error, errors.DataError):
            violated = True
            print("   -> VIOLATION: neither rows nor a DataFormatError but %s" % type(final_error).__name__)
sys.exit(1 if violated else 0)
