"""
C06 finding 3: an .xls file with one flipped bit (a cycle in the chain of short sectors of the OLE2
container) does not stop reading with a DataFormatError: cutplace.rowio.excel_rows() ->
xlrd.open_workbook() loops forever collecting sectors, eating memory until the machine runs out of it.

Each mode is tried in a child process with a time limit of 10 seconds and an address space limit of
1.5 GB (so the demonstration cannot harm the machine).

Run:  cd /tmp/wi_c06 && PYTHONPATH=/tmp/wi_c06 /venv/bin/python -W ignore /tmp/hunt2_c06/finding_3.py
"""
import os
import subprocess
import sys
import tempfile

import cutplace

TIMEOUT_IN_SECONDS = 10
CHILD_CODE = r"""
import resource, sys
resource.setrlimit(resource.RLIMIT_AS, (1536 * 1024 ** 2, 1536 * 1024 ** 2))
import cutplace
from cutplace import interface
cid = interface.create_cid_from_string(
    "D,Format,Excel\nD,Header,1\nF,customer_id,,,,Integer\nF,surname\nF,first_name,,X\nF,born,,,,\nF,gender,,X\n")
reader = cutplace.Reader(cid, sys.argv[1], on_error=sys.argv[2])
try:
    items = list(reader.rows())
    print("read %d items without error" % len(items))
except Exception as error:
    print("%s: %s" % (type(error).__name__, error))
"""

good_xls_path = os.path.join(os.path.dirname(os.path.dirname(cutplace.__file__)), "tests", "data", "valid_customers.xls")
with open(good_xls_path, "rb") as good_xls_file:
    xls_data = bytearray(good_xls_file.read())
assert len(xls_data) == 6144 and xls_data[1604] == 18, "unexpected test file"
# Entry 17 of the short sector allocation table (sector 2, at offset 1536) becomes 16 instead of 18: the chain
# of short sectors of the workbook stream runs 16 -> 17 -> 16 -> ... and never ends.
xls_data[1604] ^= 0x02
folder = tempfile.mkdtemp(prefix="c06_finding_3_")
broken_xls_path = os.path.join(folder, "bit_flipped_customers.xls")
with open(broken_xls_path, "wb") as broken_xls_file:
    broken_xls_file.write(xls_data)

violated = False
for xls_path, description in ((good_xls_path, "original"), (broken_xls_path, "bit flipped")):
    for on_error in ("yield", "continue", "raise"):
        try:
            completed = subprocess.run(
                [sys.executable, "-W", "ignore", "-c", CHILD_CODE, xls_path, on_error],
                stdout=subprocess.PIPE,
                stderr=subprocess.DEVNULL,
                timeout=TIMEOUT_IN_SECONDS,
                text=True,
            )
            outcome = completed.stdout.strip()
        except subprocess.TimeoutExpired:
            outcome = None
        if outcome is None:
            print("%s, %s: still busy after %d seconds (killed)" % (description, on_error, TIMEOUT_IN_SECONDS))
            if xls_path == broken_xls_path:
                violated = True
                print("   -> VIOLATION: malformed container must stop reading with a DataFormatError")
        else:
            print("%s, %s: %s" % (description, on_error, outcome))
sys.exit(1 if violated else 0)
