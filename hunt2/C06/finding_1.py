"""
C06 finding 1: with on_error='raise', the row error is replaced by an InterfaceError
raised from the check at the end of the data (BaseValidator.__exit__ -> close()),
so cutplace.rows() / cutplace.validate() / "with Reader(...)" do not raise "that same error"
the mode 'yield' reports for the first rejected row.

Run:  cd /tmp/wi_c06 && PYTHONPATH=/tmp/wi_c06 /venv/bin/python -W ignore /tmp/hunt2_c06/finding_1.py
"""
import io
import sys

import cutplace
from cutplace import errors, interface

CID_TEXT = """D,Format,Delimited
D,Encoding,utf-8
F,a,,,,Integer
C,not_exactly_one_distinct,DistinctCount,a == 0 or 6 / (count - 1) > 0
"""
# Row 2 is rejected (not an integer). With all three rows read the check at the end is fine (count == 2).
DATA_TEXT = "1\nx\n2\n"


def new_cid():
    return interface.create_cid_from_string(CID_TEXT)


def signature(error):
    return type(error).__name__, str(error)


# Mode 'yield': the reference.
yield_items = list(cutplace.rows(new_cid(), io.StringIO(DATA_TEXT), on_error="yield"))
print("yield   :", yield_items)
first_error_index = next(i for i, item in enumerate(yield_items) if isinstance(item, Exception))
expected_rows = yield_items[:first_error_index]
expected_error = yield_items[first_error_index]

violated = False


def judge(name, rows_before, error):
    global violated
    print("%-8s: rows=%r error=%s: %s" % (name, rows_before, type(error).__name__, error))
    if rows_before is not None and rows_before != expected_rows:
        violated = True
        print("   -> rows before the error differ from the prefix of 'yield': %r" % expected_rows)
    if error is None or signature(error) != signature(expected_error):
        violated = True
        print("   -> VIOLATION: expected the error of 'yield': %s: %s" % signature(expected_error))


# 1. cutplace.rows(..., on_error='raise')
rows_before = []
raised = None
try:
    for row in cutplace.rows(new_cid(), io.StringIO(DATA_TEXT), on_error="raise"):
        rows_before.append(row)
except Exception as error:
    raised = error
judge("rows()", rows_before, raised)

# 2. cutplace.validate()
raised = None
try:
    cutplace.validate(new_cid(), io.StringIO(DATA_TEXT))
except Exception as error:
    raised = error
judge("validate", None, raised)

# 3. with Reader(...) as used by the command line application
rows_before = []
raised = None
try:
    with cutplace.Reader(new_cid(), io.StringIO(DATA_TEXT), on_error="raise") as reader:
        for row in reader.rows():
            rows_before.append(row)
except Exception as error:
    raised = error
judge("Reader", rows_before, raised)

# 4. Container fault in flight in mode 'yield' (unterminated quote in line 2 when only 1 distinct value was seen).
raised = None
try:
    for _ in cutplace.rows(new_cid(), io.StringIO('1\n"2\n'), on_error="yield"):
        pass
except Exception as error:
    raised = error
print("fault   : %s: %s" % (type(raised).__name__, raised))
if not isinstance(raised, errors.DataFormatError):
    violated = True
    print("   -> VIOLATION: malformed container must end with a DataFormatError in mode 'yield'")

sys.exit(1 if violated else 0)
