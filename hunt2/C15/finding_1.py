"""
C15 finding 1: repeat counts padded with non-XML white space (NO-BREAK SPACE, EM SPACE, NEL, LINE SEPARATOR,
IDEOGRAPHIC SPACE, ...) are accepted as numbers instead of failing with a DataFormatError.

Run: cd /tmp/wi_c15 && PYTHONPATH=/tmp/wi_c15 /venv/bin/python -W ignore /tmp/hunt2_c15/finding_1.py
"""
import os
import sys
import tempfile
import zipfile

from cutplace import errors, rowio

NS = (
    'xmlns:office="urn:oasis:names:tc:opendocument:xmlns:office:1.0" '
    'xmlns:table="urn:oasis:names:tc:opendocument:xmlns:table:1.0" '
    'xmlns:text="urn:oasis:names:tc:opendocument:xmlns:text:1.0"'
)


def ods_path(folder, name, table_xml):
    xml = (
        '<?xml version="1.0" encoding="UTF-8"?><office:document-content %s><office:body><office:spreadsheet>'
        "<table:table>%s</table:table></office:spreadsheet></office:body></office:document-content>" % (NS, table_xml)
    )
    path = os.path.join(folder, name)
    with zipfile.ZipFile(path, "w", zipfile.ZIP_DEFLATED) as archive:
        archive.writestr("mimetype", "application/vnd.oasis.opendocument.spreadsheet")
        archive.writestr("content.xml", xml.encode("utf-8"))
    return path


CASES = []
for space_name, space in [
    ("NO-BREAK SPACE", " "),
    ("EM SPACE", " "),
    ("NEXT LINE", "\u0085"),
    ("LINE SEPARATOR", " "),
    ("IDEOGRAPHIC SPACE", "　"),
]:
    CASES.append(
        (
            "number-columns-repeated=%a (%s)" % (space + "2", space_name),
            '<table:table-row><table:table-cell table:number-columns-repeated="%s2"><text:p>a</text:p>'
            "</table:table-cell></table:table-row>" % space,
        )
    )
CASES.append(
    (
        "number-rows-repeated=%a" % "2 ",
        '<table:table-row table:number-rows-repeated="2 "><table:table-cell><text:p>a</text:p>'
        "</table:table-cell></table:table-row>",
    )
)
CASES.append(
    (
        "text:c=%a" % " 3",
        '<table:table-row><table:table-cell><text:p>a<text:s text:c=" 3"/>b</text:p></table:table-cell></table:table-row>',
    )
)

violation_count = 0
with tempfile.TemporaryDirectory() as folder:
    for index, (label, table_xml) in enumerate(CASES):
        path = ods_path(folder, "case%d.ods" % index, table_xml)
        try:
            rows = list(rowio.ods_rows(path))
            print("VIOLATION: %s accepted as a number, rows read: %a" % (label, rows))
            violation_count += 1
        except errors.DataFormatError as error:
            print("ok: %s rejected: %a" % (label, str(error)))
    # Control: the only white space XML schema allows around an integer is blank, tab, CR and LF.
    path = ods_path(
        folder,
        "control.ods",
        '<table:table-row><table:table-cell table:number-columns-repeated=" 2 "><text:p>a</text:p>'
        "</table:table-cell></table:table-row>",
    )
    print("control (plain blanks around 2): %a" % list(rowio.ods_rows(path)))
print("%d of %d non-numeric repeat counts were accepted" % (violation_count, len(CASES)))
sys.exit(1 if violation_count else 0)
