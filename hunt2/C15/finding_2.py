"""
C15 finding 2: text split into (legally) nested spans, or rows in nested row groups, deeper than the Python
recursion limit makes ods_rows() fail with RecursionError: neither the rows of the sheet nor a DataFormatError.

Run: cd /tmp/wi_c15 && PYTHONPATH=/tmp/wi_c15 /venv/bin/python -W ignore /tmp/hunt2_c15/finding_2.py
"""
import os
import sys
import tempfile
import zipfile

from cutplace import errors, rowio

NS = (
    'xmlns:office="urn:oasis:names:tc:opendocument:xmlns:office:1.0" '
    'xmlns:table="urn:oasis:names:tc:opendocument:xmlns:table:1.0" '
    'xmlns:text="urn:oasis:names:tc:opendocument:xmlns:text:1.0"'
)


def ods_path(folder, name, table_xml):
    xml = (
        '<?xml version="1.0" encoding="UTF-8"?><office:document-content %s><office:body><office:spreadsheet>'
        "<table:table>%s</table:table></office:spreadsheet></office:body></office:document-content>" % (NS, table_xml)
    )
    path = os.path.join(folder, name)
    with zipfile.ZipFile(path, "w", zipfile.ZIP_DEFLATED) as archive:
        archive.writestr("mimetype", "application/vnd.oasis.opendocument.spreadsheet")
        archive.writestr("content.xml", xml.encode("utf-8"))
    return path


def span_table(depth):
    return "<table:table-row><table:table-cell><text:p>x%sa%sy</text:p></table:table-cell></table:table-row>" % (
        "<text:span>" * depth,
        "</text:span>" * depth,
    )


def group_table(depth):
    return "%s<table:table-row><table:table-cell><text:p>a</text:p></table:table-cell></table:table-row>%s" % (
        "<table:table-row-group>" * depth,
        "</table:table-row-group>" * depth,
    )


violation_count = 0
with tempfile.TemporaryDirectory() as folder:
    for label, table_xml, expected in [
        ("text in 50 nested spans (control)", span_table(50), [["xay"]]),
        ("text in 2000 nested spans", span_table(2000), [["xay"]]),
        ("row in 50 nested row groups (control)", group_table(50), [["a"]]),
        ("row in 2000 nested row groups", group_table(2000), [["a"]]),
    ]:
        path = ods_path(folder, "case.ods", table_xml)
        try:
            rows = list(rowio.ods_rows(path))
            if rows == expected:
                print("ok: %s read as %a" % (label, rows))
            else:
                print("VIOLATION: %s read as %a instead of %a" % (label, rows, expected))
                violation_count += 1
        except errors.DataFormatError as error:
            # Not what the statement says for a well formed document, but at least a clean refusal.
            print("refused: %s: %s" % (label, error))
        except Exception as error:
            print("VIOLATION: %s fails with %s: %s" % (label, type(error).__name__, error))
            violation_count += 1
sys.exit(1 if violation_count else 0)
