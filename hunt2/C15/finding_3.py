"""
C15 finding 3 (borderline): a non-positive or non-numeric table:number-columns-repeated on a table:table-column
element - the repeat count that declares how many columns the sheet has - is silently ignored; the sheet is read
without a DataFormatError.

Run: cd /tmp/wi_c15 && PYTHONPATH=/tmp/wi_c15 /venv/bin/python -W ignore /tmp/hunt2_c15/finding_3.py
"""
import os
import sys
import tempfile
import zipfile

from cutplace import errors, rowio

NS = (
    'xmlns:office="urn:oasis:names:tc:opendocument:xmlns:office:1.0" '
    'xmlns:table="urn:oasis:names:tc:opendocument:xmlns:table:1.0" '
    'xmlns:text="urn:oasis:names:tc:opendocument:xmlns:text:1.0"'
)


def ods_path(folder, name, table_xml):
    xml = (
        '<?xml version="1.0" encoding="UTF-8"?><office:document-content %s><office:body><office:spreadsheet>'
        "<table:table>%s</table:table></office:spreadsheet></office:body></office:document-content>" % (NS, table_xml)
    )
    path = os.path.join(folder, name)
    with zipfile.ZipFile(path, "w", zipfile.ZIP_DEFLATED) as archive:
        archive.writestr("mimetype", "application/vnd.oasis.opendocument.spreadsheet")
        archive.writestr("content.xml", xml.encode("utf-8"))
    return path


ROW = (
    '<table:table-row><table:table-cell table:number-columns-repeated="2"><text:p>a</text:p></table:table-cell>'
    "</table:table-row>"
)
violation_count = 0
with tempfile.TemporaryDirectory() as folder:
    for count in ["0", "-3", "abc", ""]:
        path = ods_path(folder, "case.ods", '<table:table-column table:number-columns-repeated="%s"/>%s' % (count, ROW))
        try:
            rows = list(rowio.ods_rows(path))
            print("VIOLATION: table:table-column with number-columns-repeated=%a accepted, rows read: %a" % (count, rows))
            violation_count += 1
        except errors.DataFormatError as error:
            print("ok: number-columns-repeated=%a rejected: %s" % (count, error))
sys.exit(1 if violation_count else 0)
