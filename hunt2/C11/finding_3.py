"""
C11 finding 3: in a CID stored as Excel, boolean cells are taken for numbers.

xlrd delivers TRUE/FALSE cells as 1/0 and rowio._excel_cell_value() turns them into "1"/"0".
So "Header = TRUE" and "Sheet = TRUE" are accepted as 1 and "Item delimiter = TRUE" as chr(1)
although TRUE is no integer and no character spelling, while "Skip initial space = TRUE" - the one
property that is a boolean - is refused ("is '1' but must be one of: 'false' or 'true'").
"""
import os
import sys
import tempfile

import xlsxwriter

from cutplace import errors, interface

folder = tempfile.mkdtemp()


def cid_path_for(rows, name):
    result = os.path.join(folder, name)
    workbook = xlsxwriter.Workbook(result)
    worksheet = workbook.add_worksheet()
    for row_index, row in enumerate(rows):
        for column_index, item in enumerate(row):
            if isinstance(item, bool):
                worksheet.write_boolean(row_index, column_index, item)
            else:
                worksheet.write_string(row_index, column_index, item)
    workbook.close()
    return result


CASES = [
    ("delimited", "Header", True, False),
    ("excel", "Sheet", True, False),
    ("excel", "Header", False, False),
    ("delimited", "Item delimiter", True, False),
    # Only informative: the one boolean property refuses the boolean cell (None = not counted as violation).
    ("delimited", "Skip initial space", True, None),
]
violations = 0
for index, (format_name, name, value, must_be_accepted) in enumerate(CASES):
    rows = [["D", "Format", format_name], ["D", name, value], ["F", "a"], ["F", "b"]]
    path = cid_path_for(rows, "cid_%d.xlsx" % index)
    try:
        cid = interface.Cid(path)
        accepted = True
        outcome = "accepted: %s" % cid.data_format
    except errors.InterfaceError as error:
        accepted = False
        outcome = "refused: %s" % error
    is_violation = (must_be_accepted is not None) and (accepted != must_be_accepted)
    violations += is_violation
    mark = "VIOLATION" if is_violation else ("note     " if must_be_accepted is None else "ok       ")
    print("%s %-9s %-18s = boolean %-5s -> %s" % (mark, format_name, name, value, outcome))

print("%d violations" % violations)
sys.exit(1 if violations else 0)
