"""
C11 finding 2: the declared line delimiter has no meaning when reading delimited data.

A CID declaring "Line delimiter = LF" accepts delimited data whose lines end with CR or CRLF (and
the other way round), from a path as well as from a stream. A CR in a file declared to use LF even
splits a row in two. The same declarations are enforced for fixed data (DataFormatError), and since
740583d/dc715bf the delimited *writer* honours the property, so only the delimited reader ignores
what the CID says.
"""
import io
import os
import sys
import tempfile

from cutplace import errors, interface, validio

EOLS = {"lf": "\n", "cr": "\r", "crlf": "\r\n"}


def cid_for(format_name, line_delimiter):
    if format_name == "delimited":
        text = "d,format,delimited\nd,encoding,utf-8\nd,line delimiter,%s\nf,a\nf,b\n" % line_delimiter
    else:
        text = "d,format,fixed\nd,encoding,utf-8\nd,line delimiter,%s\nf,a,,,1\nf,b,,,1\n" % line_delimiter
    return interface.create_cid_from_string(text)


violations = 0
folder = tempfile.mkdtemp()
for format_name in ("fixed", "delimited"):
    for declared in ("lf", "cr", "crlf"):
        for actual, eol in EOLS.items():
            if actual == declared:
                continue
            data_text = ("x,y%sz,w%s" if format_name == "delimited" else "xy%szw%s") % (eol, eol)
            data_path = os.path.join(folder, "data.txt")
            with open(data_path, "w", encoding="utf-8", newline="") as data_file:
                data_file.write(data_text)
            for source_name, source in (("path", data_path), ("stream", io.StringIO(data_text, newline=""))):
                try:
                    rows = list(validio.rows(cid_for(format_name, declared), source))
                    outcome = "ACCEPTED rows=%r" % rows
                    if format_name == "delimited":
                        violations += 1
                except errors.CutplaceError as error:
                    outcome = "refused (%s)" % type(error).__name__
                print("%-9s declared=%-4s data uses %-4s %-6s -> %s" % (format_name, declared, actual, source_name, outcome))

# A lone CR is no line delimiter according to a CID that says LF, but it ends the row nevertheless.
rows = list(validio.rows(cid_for("delimited", "lf"), io.StringIO("x,y\rz,w\n", newline=""), on_error="yield"))
print("declared LF, data 'x,y\\rz,w\\n' -> %r" % rows)
if rows == [["x", "y"], ["z", "w"]]:
    violations += 1

print("%d cases where delimited data with a line delimiter other than the declared one were accepted" % violations)
sys.exit(1 if violations else 0)
