"""
C11 finding 4: fixed data accept the undocumented line delimiter "None".

The documentation (writing-an-icd.rst, "Line delimiter") and the statement name exactly four values:
LF, CRLF, CR and Any. For format Fixed, DataFormat.set_property() additionally accepts "none" in any
case ("None", "NONE"), which makes the reader and writer work without any line delimiter; for format
Delimited the same text is refused.
"""
import io
import sys

from cutplace import errors, interface, validio

violations = 0
for format_name, field_rows in (("fixed", "f,a,,,1\nf,b,,,1\n"), ("delimited", "f,a\nf,b\n")):
    for spelling in ("none", "None", "NONE"):
        cid_text = "d,format,%s\nd,encoding,utf-8\nd,line delimiter,%s\n%s" % (format_name, spelling, field_rows)
        try:
            cid = interface.create_cid_from_string(cid_text)
        except errors.InterfaceError as error:
            print("refused  %-9s %-5s %s" % (format_name, spelling, error))
            continue
        violations += 1
        outcome = "line_delimiter=%r" % cid.data_format.line_delimiter
        if format_name == "fixed":
            outcome += " rows=%r" % list(validio.rows(cid, io.StringIO("xyzw")))
        print("ACCEPTED %-9s %-5s %s" % (format_name, spelling, outcome))

print("%d undocumented line delimiter names accepted" % violations)
sys.exit(1 if violations else 0)
