"""
C11 finding 1: item delimiter codes in undocumented number spellings are accepted.

Documented spellings of a numeric item delimiter are a decimal code ("44") and a hex code ("0x2c").
The repair for Header/Sheet (f3bdad2) refuses "1_0"; the neighbouring mechanism for the item
delimiter (DataFormat._validated_character -> ranges.code_for_number_token) still accepts
"4_4", "0x2_c", "0x_2c", octal "0o54", binary "0b101100" and a number continued over a
backslash-newline as code 44.
"""
import io
import sys

from cutplace import errors, interface, validio

UNDOCUMENTED = ["4_4", "0x2_c", "0x_2c", "0o54", "0O54", "0b101100", "0B101100", "44\\\n "]
violations = 0
for spelling in UNDOCUMENTED:
    cid_text = 'd,format,delimited\nd,encoding,utf-8\nd,item delimiter,"%s"\nf,a\nf,b\n' % spelling
    try:
        cid = interface.create_cid_from_string(cid_text)
    except errors.InterfaceError as error:
        print("refused  %-14r %s" % (spelling, error))
        continue
    rows = list(validio.rows(cid, io.StringIO("x,y\n")))
    print("ACCEPTED %-14r item_delimiter=%r rows=%r" % (spelling, cid.data_format.item_delimiter, rows))
    violations += 1

# For comparison: the same spelling is refused for Header (repaired by f3bdad2).
try:
    interface.create_cid_from_string("d,format,delimited\nd,header,1_0\nf,a\n")
    print("header 1_0 accepted")
except errors.InterfaceError as error:
    print("for comparison, header '1_0' is refused: %s" % error)

print("%d undocumented number spellings accepted as item delimiter" % violations)
sys.exit(1 if violations else 0)
