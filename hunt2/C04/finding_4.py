"""
C04 finding 4 (interaction of CID row order and Decimal fields): a Decimal field copies the decimal and
thousands separator of the data format when the field row is read. Data format rows that follow the field rows
(which the CID syntax allows; only the format row has to come first) change the data format of the CID but not
the field, so rows are judged with separators the CID does not declare.
"""
import io
import sys

from cutplace import errors, interface, validio

FORMAT_ROWS = "d,format,delimited\nd,item delimiter,;\n"
SEPARATOR_ROWS = 'd,decimal separator,","\nd,thousands separator,.\n'
FIELD_ROWS = "f,amount,,,,Decimal\n"
DATA_TEXT = "1,5\n1.000,5\n"

verdicts = {}
for name, cid_text in (
    ("separators before field", FORMAT_ROWS + SEPARATOR_ROWS + FIELD_ROWS),
    ("separators after field", FORMAT_ROWS + FIELD_ROWS + SEPARATOR_ROWS),
):
    cid = interface.create_cid_from_string(cid_text)
    print(
        "%s: data format has decimal separator %r, thousands separator %r"
        % (name, cid.data_format.decimal_separator, cid.data_format.thousands_separator)
    )
    verdicts[name] = []
    for item in validio.Reader(cid, io.StringIO(DATA_TEXT), on_error="yield").rows():
        is_accepted = not isinstance(item, errors.DataError)
        verdicts[name].append(is_accepted)
        print("    %s" % (item if is_accepted else "ERROR %s" % item))
if verdicts["separators before field"] != verdicts["separators after field"]:
    print("VIOLATION: the same rows under the same data format and field are accepted or rejected depending on the order of the CID rows")
    sys.exit(1)
sys.exit(0)
