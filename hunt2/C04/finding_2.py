"""
C04 finding 2: Writer.write_row() reaches the same BaseValidator.validate_row() but never resets the column
of its location after a rejected row. A row with the wrong number of items is then reported at the column
where the PREVIOUS rejected row failed, so the location of the same rejected row depends on history and does
not name its own first offending column (the reader reports such rows at column 1).
"""
import io
import sys

from cutplace import errors, interface, validio

CID_TEXT = "d,format,delimited\nf,a,,,,Integer,1...99\nf,b,,,1...3\nf,c,,,,Choice,\"x,y\"\nf,d\n"
SHORT_ROW = ["3", "ab"]


def location_of_rejection(writer, row):
    try:
        writer.write_row(row)
    except errors.DataError as error:
        return str(error.location), error.message
    raise AssertionError("row must be rejected: %r" % row)


cid = interface.create_cid_from_string(CID_TEXT)

# The way the reader reports the row.
reader_error = [x for x in validio.Reader(cid, io.StringIO("3,ab\n"), on_error="yield").rows()][0]
print("reader               : %s" % reader_error)

with validio.Writer(cid, io.StringIO()) as fresh_writer:
    fresh_location, fresh_message = location_of_rejection(fresh_writer, SHORT_ROW)
print("fresh writer         : %s: %s" % (fresh_location, fresh_message))

with validio.Writer(cid, io.StringIO()) as used_writer:
    print("used writer, 1st row : %s: %s" % location_of_rejection(used_writer, ["1", "ab", "bad", "z"]))  # fails in column 3
    used_location, used_message = location_of_rejection(used_writer, SHORT_ROW)
print("used writer, 2nd row : %s: %s" % (used_location, used_message))

with validio.Writer(cid, io.StringIO()) as used_writer:
    print("other writer, 1st row: %s: %s" % location_of_rejection(used_writer, ["1", "abcd", "x", "z"]))  # fails in column 2
    other_location, _ = location_of_rejection(used_writer, SHORT_ROW)
print("other writer, 2nd row: %s" % other_location)

if not (fresh_location == used_location == other_location):
    print(
        "VIOLATION: the same rejected row %r is located at %s, %s or %s depending on the row rejected before it"
        % (SHORT_ROW, fresh_location, used_location, other_location)
    )
    sys.exit(1)
sys.exit(0)
