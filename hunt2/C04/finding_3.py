"""
C04 finding 3: two passes over Reader.rows() of the SAME reader that overlap in time (for example a nested
loop comparing every row with every other row) share the reader's location, which each pass replaces
and advances. After the inner pass, the outer pass reports rows of a 5 row file as rows 7, 8, 9 and rejects
a perfectly unique row as duplicate of itself.
"""
import os
import sys
import tempfile

from cutplace import errors, interface, validio

CID_TEXT = "d,format,delimited\nd,header,1\nf,a,,,,Integer,1...99\nf,b,,,,Choice,\"x,y\"\nc,a_unique,IsUnique,a\n"
DATA_TEXT = "a,b\n1,x\n2,x\n3,bad\n4,bad\n"  # rows 4 and 5 are broken in column 2, nothing else

folder = tempfile.mkdtemp()
data_path = os.path.join(folder, "data.csv")
with open(data_path, "w", newline="") as data_file:
    data_file.write(DATA_TEXT)
cid = interface.create_cid_from_string(CID_TEXT)


def described(row_or_error):
    return ("ERROR %s" % row_or_error) if isinstance(row_or_error, errors.DataError) else repr(row_or_error)


expected = [described(item) for item in validio.Reader(cid, data_path, on_error="yield").rows()]
print("single pass:")
for line in expected:
    print("   ", line)

reader = validio.Reader(cid, data_path, on_error="yield")
actual = []
is_first = True
for outer_item in reader.rows():
    actual.append(described(outer_item))
    if is_first:
        # For the first row only, look at all the rows (as a nested loop would do for every row).
        is_first = False
        for _ in reader.rows():
            pass
print("outer pass with an inner pass during its first row:")
for line in actual:
    print("   ", line)
if actual != expected:
    print("VIOLATION: the outer pass reports wrong row numbers / rejects rows that pass all checks")
    sys.exit(1)
sys.exit(0)
