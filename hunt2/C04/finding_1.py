"""
C04 finding 1: errors raised by a row check (or a field format) without a location pass through
BaseValidator.validate_row() unchanged, so the rejected row is reported by an error that names neither
the input nor the row nor the column (and, for the field, not the field).

The check below is copied from the documentation (docs/api.rst, "Writing checks": check_row() raises
``CheckError(message)`` without location). The field format calls Range.validate() the way the shipped
examples/plugins.py does in its check, which raises RangeValueError (a DataError but no FieldValueError).
"""
import io
import sys

from cutplace import checks, errors, fields, interface, ranges, validio


class FullNameLengthIsInRangeCheck(checks.AbstractCheck):
    """Check that total length of customer name is within the specified range (see docs/api.rst)."""

    def __init__(self, description, rule, available_field_names, location=None):
        super().__init__(description, rule, available_field_names, location)
        self._full_name_range = ranges.Range(rule)
        self.reset()

    def check_row(self, row_map, location):
        first_name = row_map["first_name"]
        surname = row_map["surname"]
        full_name = surname + ", " + first_name
        full_name_length = len(full_name)
        try:
            self._full_name_range.validate("full name", full_name_length)
        except errors.RangeValueError:
            raise errors.CheckError(
                "full name length is %d but must be in range %s: %r"
                % (full_name_length, self._full_name_range, full_name)
            )


class ShortCodeFieldFormat(fields.AbstractFieldFormat):
    """A text whose number of characters has to be in the range given as rule."""

    def __init__(self, field_name, is_allowed_to_be_empty, length, rule, data_format):
        super().__init__(field_name, is_allowed_to_be_empty, length, rule, data_format, empty_value="")
        self._code_length_range = ranges.Range(rule)

    def validated_value(self, value):
        self._code_length_range.validate("number of characters", len(value))
        return value


CID_TEXT = (
    "d,format,delimited\n"
    "d,header,1\n"
    "f,first_name\n"
    "f,surname\n"
    "f,code,,,,ShortCode,...3\n"
    "c,full_name_fits,FullNameLengthIsInRange,...10\n"
)
DATA_TEXT = (
    "first,sur,code\n"
    "Jo,Do,abc\n"  # row 2: fine
    "Jonathan,Doeringer,abc\n"  # row 3: rejected by the row check
    "Jo,Do,abcdefg\n"  # row 4: rejected by the field in column 3
)

cid = interface.create_cid_from_string(CID_TEXT)
violations = 0
expected = {3: ("R3C", None), 4: ("R4C3", "code")}
row_number = 1
for row_or_error in validio.Reader(cid, io.StringIO(DATA_TEXT), on_error="yield").rows():
    row_number += 1
    if isinstance(row_or_error, errors.DataError):
        location_part, field_name = expected[row_number]
        text = str(row_or_error)
        print("row %d rejected with %s: location=%r, text=%r" % (row_number, type(row_or_error).__name__, row_or_error.location, text))
        if row_or_error.location is None or ("<io> (" + location_part) not in text:
            print("  VIOLATION: the error does not name the input, row %d and the column" % row_number)
            violations += 1
        if field_name is not None and field_name not in row_or_error.message:
            print("  VIOLATION: the message does not name the offending field %r" % field_name)
            violations += 1
    else:
        print("row %d accepted: %r" % (row_number, row_or_error))
sys.exit(1 if violations else 0)
