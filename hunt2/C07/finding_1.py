"""
C07 finding 1: the command line option --until (and Reader.validate_rows(), which it uses) does not stop at
the validation limit. It keeps reading the rest of the input, so a row far beyond the limit that cannot be
read (a short line in fixed data, an unterminated quote in delimited data) is still reported as rejection
and results in exit code 1, while cutplace.validate() with the same limit accepts the same file.
"""
import io
import logging
import os
import sys
import tempfile

import cutplace
import cutplace.errors
from cutplace import applications

logging.basicConfig(level=logging.INFO, stream=sys.stdout)

FIXED_CID = "d,format,fixed\nd,header,1\nd,encoding,utf-8\nd,line delimiter,lf\nf,n,,,3,Integer,0...99\nf,t,,X,2\n"
# Row 1 is the header, rows 2 to 5 are fine, row 6 has only 2 instead of 5 characters.
FIXED_DATA = "NNNTT\n1  ab\n2  ab\n3  ab\n4  ab\n5 \n"
DELIMITED_CID = "d,format,delimited\nd,header,1\nd,encoding,utf-8\nf,n,,,,Integer,0...99\nf,t,,X\n"
# Row 6 has a quote that is never closed.
DELIMITED_DATA = 'n,t\n1,ab\n2,ab\n3,ab\n4,ab\n5,"ab\n'
LIMIT = 2

violations = 0
with tempfile.TemporaryDirectory() as folder:
    for name, cid_text, data_text in (("fixed", FIXED_CID, FIXED_DATA), ("delimited", DELIMITED_CID, DELIMITED_DATA)):
        cid_path = os.path.join(folder, "cid_%s.csv" % name)
        data_path = os.path.join(folder, "data_%s.txt" % name)
        with open(cid_path, "w", encoding="utf-8", newline="") as cid_file:
            cid_file.write(cid_text)
        with open(data_path, "w", encoding="utf-8", newline="") as data_file:
            data_file.write(data_text)

        print("--- %s data, only row 6 is broken, validation limit %d" % (name, LIMIT))
        # The validate-only function of the API stops at the limit and accepts the data.
        try:
            cutplace.validate(cid_path, data_path, validate_until=LIMIT)
            api_result = "accepted"
        except cutplace.errors.DataError as error:
            api_result = "rejected: %s" % error
        print("cutplace.validate(validate_until=%d): %s" % (LIMIT, api_result))

        # The validate-only method of the reader does not stop.
        reader = cutplace.Reader(cutplace.Cid(cid_path), data_path, validate_until=LIMIT)
        try:
            reader.validate_rows()
            reader_result = "accepted"
        except cutplace.errors.DataError as error:
            reader_result = "rejected: %s" % error
        print("Reader(validate_until=%d).validate_rows(): %s" % (LIMIT, reader_result))

        # Neither does the command line.
        exit_code = applications.main(["cutplace", "--until", str(LIMIT), cid_path, data_path])
        print("cutplace --until %d: exit code %d" % (LIMIT, exit_code))
        if api_result == "accepted" and (exit_code != 0 or reader_result != "accepted"):
            print("VIOLATION: a rejection is reported for row 6 although the validation limit is %d" % LIMIT)
            violations += 1

sys.exit(1 if violations else 0)
