"""
C07 finding 2: cutplace.validate() fails with a ValueError for a validation limit beyond sys.maxsize, even
for proper data, while cutplace.rows(), Reader and the command line --until take the same limit as "validate
every row".
"""
import io
import logging
import os
import sys
import tempfile

import cutplace
import cutplace.errors
from cutplace import applications

logging.basicConfig(level=logging.INFO, stream=sys.stdout)

CID_TEXT = "d,format,delimited\nd,header,1\nd,encoding,utf-8\nf,n,,,,Integer,0...99\nf,t,,X\n"
GOOD_DATA = "n,t\n1,ab\n2,ab\n"
BAD_DATA = "n,t\n1,ab\nxx,ab\n"  # row 3 is broken
LIMIT = sys.maxsize + 1

cid = cutplace.Cid()
cid.read("inline", [line.split(",") for line in CID_TEXT.splitlines()])


def outcome(function):
    try:
        function()
        return "accepted"
    except cutplace.errors.DataError as error:
        return "rejected (%s)" % error
    except Exception as error:
        return "FAILED with %s: %s" % (type(error).__name__, error)


results = {}
for data_name, data_text in (("good", GOOD_DATA), ("bad", BAD_DATA)):
    results["rows", data_name] = outcome(lambda: list(cutplace.rows(cid, io.StringIO(data_text), validate_until=LIMIT)))
    results["validate", data_name] = outcome(lambda: cutplace.validate(cid, io.StringIO(data_text), validate_until=LIMIT))
    with tempfile.TemporaryDirectory() as folder:
        cid_path = os.path.join(folder, "cid.csv")
        data_path = os.path.join(folder, "data.csv")
        with open(cid_path, "w", encoding="utf-8") as cid_file:
            cid_file.write(CID_TEXT)
        with open(data_path, "w", encoding="utf-8") as data_file:
            data_file.write(data_text)
        results["--until", data_name] = "exit code %d" % applications.main(
            ["cutplace", "--until", str(LIMIT), cid_path, data_path]
        )
for key, value in sorted(results.items()):
    print("limit %d, %s with %s data: %s" % (LIMIT, key[0], key[1], value))

is_violated = results["validate", "good"] != "accepted" or not results["validate", "bad"].startswith("rejected")
if is_violated:
    print("VIOLATION: validate() neither accepts the good data nor reports the rejection of row 3 <= limit")
sys.exit(1 if is_violated else 0)
