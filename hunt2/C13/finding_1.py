"""
C13 finding 1: a text stream whose ``name`` attribute is None (for example a
text mode ``tempfile.SpooledTemporaryFile``) makes fixed-width reading fail with an
AssertionError instead of a DataFormatError on malformed data, and
``cutplace.validio.Reader`` refuses even well-formed data read from such a stream.

Run:  cd /tmp/wi_c13 && PYTHONPATH=/tmp/wi_c13 /venv/bin/python -W ignore /tmp/hunt2_c13/finding_1.py
Exit code 1 = violation observed, 0 = not observed.
"""
import io
import sys
import tempfile

from cutplace import errors, interface, rowio, validio

FIELDS = [("a", 2)]


def spooled(text):
    # A text mode stream without newline translation; until it is rolled over to disk its ``name`` is None.
    result = tempfile.SpooledTemporaryFile(mode="w+", encoding="utf-8", newline="")
    result.write(text)
    result.seek(0)
    return result


def outcome(function):
    try:
        return "rows", function()
    except errors.DataFormatError as error:
        return "DataFormatError", str(error)
    except BaseException as error:  # noqa
        return type(error).__name__, str(error)


cid = interface.Cid()
cid.read("<cid>", [["d", "format", "fixed"], ["d", "line delimiter", "lf"], ["f", "a", "", "", "2"]])

violated = False
cases = [
    ("well-formed", "ab\ncd\n"),
    ("wrong delimiter", "ab\ncdX\n"),
    ("short record", "ab\nc"),
]
for title, text in cases:
    reference = outcome(lambda: list(rowio.fixed_rows(io.StringIO(text, newline=""), "utf-8", FIELDS, "\n")))
    low_level = outcome(lambda: list(rowio.fixed_rows(spooled(text), "utf-8", FIELDS, "\n")))
    high_level = outcome(lambda: list(validio.Reader(cid, spooled(text)).rows()))
    print("%-16s %r" % (title, text))
    print("   io.StringIO, rowio.fixed_rows        : %s %s" % reference)
    print("   SpooledTemporaryFile, fixed_rows     : %s %s" % low_level)
    print("   SpooledTemporaryFile, validio.Reader : %s %s" % high_level)
    for kind, _ in (low_level, high_level):
        if kind != reference[0]:
            violated = True

print()
if violated:
    print("VIOLATION: same characters, same widths, same line delimiter, but neither rows nor a DataFormatError")
    sys.exit(1)
print("no violation observed")
sys.exit(0)
