"""
C13 finding 2: a declared field width that is accepted by the CID (at most sys.maxsize) but
bigger than the memory that can be allocated makes fixed-width reading of a *file* fail with a
MemoryError (command line: exit code 4 "program must be fixed") instead of the DataFormatError
"need N characters but found only M" that the same characters give when read from io.StringIO.

Run:  cd /tmp/wi_c13 && PYTHONPATH=/tmp/wi_c13 /venv/bin/python -W ignore /tmp/hunt2_c13/finding_2.py
Exit code 1 = violation observed, 0 = not observed.
"""
import io
import logging
import os
import sys
import tempfile

from cutplace import applications, errors, rowio, validio

WIDTH = 2 ** 50  # far below sys.maxsize, accepted by the CID
folder = tempfile.mkdtemp()
data_path = os.path.join(folder, "data.txt")
with open(data_path, "w", encoding="utf-8", newline="") as data_file:
    data_file.write("abc\n")
cid_path = os.path.join(folder, "cid.csv")
with open(cid_path, "w", encoding="utf-8", newline="") as cid_file:
    cid_file.write("D,Format,Fixed\nD,Encoding,UTF-8\nD,Line delimiter,LF\nF,a,,,1\nF,b,,,%d\n" % WIDTH)
fields = [("a", 1), ("b", WIDTH)]


def outcome(function):
    try:
        return "rows", function()
    except errors.DataFormatError as error:
        return "DataFormatError", str(error)
    except BaseException as error:  # noqa
        return type(error).__name__, str(error)


reference = outcome(lambda: list(rowio.fixed_rows(io.StringIO("abc\n", newline=""), "utf-8", fields, "\n")))
from_path = outcome(lambda: list(rowio.fixed_rows(data_path, "utf-8", fields, "\n")))
from_api = outcome(lambda: validio.validate(cid_path, data_path))
logging.basicConfig(level=logging.CRITICAL)
exit_code = applications.main(["cutplace", cid_path, data_path])
print("io.StringIO, rowio.fixed_rows :", reference)
print("path, rowio.fixed_rows        :", from_path)
print("cutplace.validate(cid, path)  :", from_api)
print("command line exit code        :", exit_code, "(1 = data rejected, 4 = unexpected error)")

if from_path[0] not in ("rows", "DataFormatError") or from_api[0] not in ("rows", "DataFormatError") or exit_code == 4:
    print("VIOLATION: reading neither returned rows nor failed with a DataFormatError")
    sys.exit(1)
print("no violation observed")
sys.exit(0)
