"""
C17 finding 1: SQL creation (cutplace --create / cutplace.sql.write_create) can only load a CID stored as Excel.
The same CID contents stored as CSV or ODS are refused as "cannot read Excel file".
Exit code 1 = violation observed.
"""
import csv
import logging
import os
import sys
import tempfile
import zipfile
from xml.sax.saxutils import escape

import xlsxwriter

from cutplace import applications, interface, sql

CID_ROWS = [
    ["D", "Format", "Delimited"],
    ["D", "Encoding", "utf-8"],
    ["F", "id", "", "", "1...5", "Integer", "0...99999"],
    ["F", "name", "", "X", "...10", "Text", ""],
    ["C", "id must be unique", "IsUnique", "id"],
]


def write_csv(path):
    with open(path, "w", newline="", encoding="utf-8") as csv_file:
        csv.writer(csv_file).writerows(CID_ROWS)


def write_xlsx(path):
    workbook = xlsxwriter.Workbook(path)
    worksheet = workbook.add_worksheet()
    for y, row in enumerate(CID_ROWS):
        for x, item in enumerate(row):
            worksheet.write_string(y, x, item)
    workbook.close()


def write_ods(path):
    body = ""
    for row in CID_ROWS:
        body += "<table:table-row>"
        for item in row:
            if item:
                body += '<table:table-cell office:value-type="string"><text:p>%s</text:p></table:table-cell>' % escape(item)
            else:
                body += "<table:table-cell/>"
        body += "</table:table-row>"
    content = (
        '<?xml version="1.0" encoding="UTF-8"?>'
        '<office:document-content xmlns:office="urn:oasis:names:tc:opendocument:xmlns:office:1.0" '
        'xmlns:table="urn:oasis:names:tc:opendocument:xmlns:table:1.0" '
        'xmlns:text="urn:oasis:names:tc:opendocument:xmlns:text:1.0" office:version="1.2">'
        '<office:body><office:spreadsheet><table:table table:name="cid">%s</table:table>'
        "</office:spreadsheet></office:body></office:document-content>" % body
    )
    with zipfile.ZipFile(path, "w") as ods_zip:
        ods_zip.writestr("mimetype", "application/vnd.oasis.opendocument.spreadsheet")
        ods_zip.writestr("content.xml", content)


def main():
    logging.basicConfig(level=logging.CRITICAL)
    folder = tempfile.mkdtemp(prefix="c17_f1_")
    results = {}
    for suffix, write in (("xlsx", write_xlsx), ("csv", write_csv), ("ods", write_ods)):
        cid_path = os.path.join(folder, "customers." + suffix)
        write(cid_path)
        # The CID itself is fine in every storage format:
        cid = interface.Cid(cid_path)
        print("%-4s Cid() loads: %s, checks=%s" % (suffix, cid, cid.check_names))
        sql_path = os.path.join(folder, "customers_create.sql")
        if os.path.exists(sql_path):
            os.remove(sql_path)
        try:
            sql.write_create(cid_path, interface.Cid())
            api_result = "ok: " + " ".join(open(sql_path, encoding="utf-8").read().split())
        except Exception as error:
            api_result = "%s: %s" % (type(error).__name__, error)
        print("%-4s sql.write_create(): %s" % (suffix, api_result))
        if os.path.exists(sql_path):
            os.remove(sql_path)
        exit_code = applications.main(["cutplace", "--create", cid_path])
        print("%-4s cutplace --create: exit code %d, SQL file written: %s" % (suffix, exit_code, os.path.exists(sql_path)))
        results[suffix] = (api_result.startswith("ok"), exit_code)
    is_violated = len(set(results.values())) != 1
    print("VIOLATION" if is_violated else "no violation", results)
    return 1 if is_violated else 0


if __name__ == "__main__":
    sys.exit(main())
