"""
C17 finding 4: a CID stored as Excel cannot set the boolean data format property "skip initial space": typing
true into Excel yields a boolean cell, which the Excel reader renders as "1", which the data format refuses
("must be one of: 'false' or 'true'"). The same contents stored as CSV (TRUE) or ODS (boolean cell shown as TRUE)
load fine, so the three storage formats do not yield the same format settings.
Exit code 1 = violation observed.
"""
import csv
import os
import sys
import tempfile
import zipfile

import xlsxwriter

import cutplace.errors
from cutplace import interface

CID_ROWS = [
    ["D", "Format", "Delimited"],
    ["D", "Skip initial space", True],
    ["F", "name"],
]


def write_csv(path):
    with open(path, "w", newline="", encoding="utf-8") as csv_file:
        # What Excel and LibreOffice write when saving the sheet as CSV.
        csv.writer(csv_file).writerows([["TRUE" if item is True else item for item in row] for row in CID_ROWS])


def write_xlsx(path):
    workbook = xlsxwriter.Workbook(path)
    worksheet = workbook.add_worksheet()
    for y, row in enumerate(CID_ROWS):
        for x, item in enumerate(row):
            if item is True:
                worksheet.write_boolean(y, x, item)
            else:
                worksheet.write_string(y, x, item)
    workbook.close()


def write_ods(path):
    body = ""
    for row in CID_ROWS:
        body += "<table:table-row>"
        for item in row:
            if item is True:
                # What LibreOffice stores after typing "true".
                body += '<table:table-cell office:value-type="boolean" office:boolean-value="true"><text:p>TRUE</text:p></table:table-cell>'
            else:
                body += '<table:table-cell office:value-type="string"><text:p>%s</text:p></table:table-cell>' % item
        body += "</table:table-row>"
    content = (
        '<?xml version="1.0" encoding="UTF-8"?>'
        '<office:document-content xmlns:office="urn:oasis:names:tc:opendocument:xmlns:office:1.0" '
        'xmlns:table="urn:oasis:names:tc:opendocument:xmlns:table:1.0" '
        'xmlns:text="urn:oasis:names:tc:opendocument:xmlns:text:1.0" office:version="1.2">'
        '<office:body><office:spreadsheet><table:table table:name="cid">%s</table:table>'
        "</office:spreadsheet></office:body></office:document-content>" % body
    )
    with zipfile.ZipFile(path, "w") as ods_zip:
        ods_zip.writestr("mimetype", "application/vnd.oasis.opendocument.spreadsheet")
        ods_zip.writestr("content.xml", content)


def main():
    folder = tempfile.mkdtemp(prefix="c17_f4_")
    outcomes = {}
    for suffix, write in (("csv", write_csv), ("ods", write_ods), ("xlsx", write_xlsx)):
        cid_path = os.path.join(folder, "cid." + suffix)
        write(cid_path)
        try:
            cid = interface.Cid(cid_path)
            outcomes[suffix] = "skip_initial_space=%r" % cid.data_format.skip_initial_space
        except cutplace.errors.CutplaceError as error:
            outcomes[suffix] = "%s: %s" % (type(error).__name__, str(error).split(": ", 1)[1])
        print("CID as %-4s: %s" % (suffix, outcomes[suffix]))
    is_violated = len(set(outcomes.values())) != 1
    print("VIOLATION" if is_violated else "no violation")
    return 1 if is_violated else 0


if __name__ == "__main__":
    sys.exit(main())
