"""
C17 finding 3: the ODS reader does not apply the white space rules of OpenDocument (ODF 1.2 part 1, 6.1.2: inside
text:p, tab/CR/LF count as blank, runs of blanks collapse to one, leading and trailing blanks are dropped; blanks
that matter are written as text:s). An ODS whose content.xml is indented ("pretty printed") or that simply has two
blanks in a paragraph is a legal document that every spreadsheet application shows as the same table as the CSV
and the XLSX, but cutplace sees other cell texts and comes to other verdicts; a CID stored like that is refused.
Exit code 1 = violation observed.
"""
import csv
import os
import sys
import tempfile
import zipfile

import xlsxwriter

import cutplace
import cutplace.errors
from cutplace import interface, rowio

# The table of text cells.
TABLE = [["red", "fire engine"], ["green", "grass"]]

CID_ROWS = [
    ["D", "Format", "%s"],
    ["F", "color", "", "", "", "Choice", "red,green"],
    ["F", "thing", "", "", "1...11", "Text", ""],
]


def write_csv(path, rows):
    with open(path, "w", newline="", encoding="utf-8") as csv_file:
        csv.writer(csv_file).writerows(rows)


def write_xlsx(path, rows):
    workbook = xlsxwriter.Workbook(path)
    worksheet = workbook.add_worksheet()
    for y, row in enumerate(rows):
        for x, item in enumerate(row):
            worksheet.write_string(y, x, item)
    workbook.close()


def write_indented_ods(path, rows):
    """
    ODS the way a generator with indented XML output writes it (e.g. xml.etree.ElementTree.indent() applied to a
    document with text:span, or an XSLT with indent="yes").
    """
    body = ""
    for row in rows:
        body += "\n    <table:table-row>"
        for item in row:
            if item:
                body += (
                    '\n      <table:table-cell office:value-type="string">'
                    "\n        <text:p>"
                    "\n          <text:span>%s</text:span>"
                    "\n        </text:p>"
                    "\n      </table:table-cell>" % item
                )
            else:
                body += "\n      <table:table-cell/>"
        body += "\n    </table:table-row>"
    content = (
        '<?xml version="1.0" encoding="UTF-8"?>\n'
        '<office:document-content xmlns:office="urn:oasis:names:tc:opendocument:xmlns:office:1.0" '
        'xmlns:table="urn:oasis:names:tc:opendocument:xmlns:table:1.0" '
        'xmlns:text="urn:oasis:names:tc:opendocument:xmlns:text:1.0" office:version="1.2">\n'
        ' <office:body>\n  <office:spreadsheet>\n   <table:table table:name="data">%s\n   </table:table>\n'
        "  </office:spreadsheet>\n </office:body>\n</office:document-content>\n" % body
    )
    with zipfile.ZipFile(path, "w") as ods_zip:
        ods_zip.writestr("mimetype", "application/vnd.oasis.opendocument.spreadsheet")
        ods_zip.writestr("content.xml", content)


def cid_for(format_name):
    return interface.create_cid_from_string(
        "\n".join(",".join('"%s"' % item for item in row) for row in CID_ROWS) % format_name
    )


def verdicts(cid, path):
    result = []
    for row_or_error in cutplace.rows(cid, path, on_error="yield"):
        if isinstance(row_or_error, Exception):
            result.append("rejected: " + str(row_or_error).split(": ", 1)[1])
        else:
            result.append("accepted: %s" % row_or_error)
    return result


def main():
    folder = tempfile.mkdtemp(prefix="c17_f3_")
    outcomes = {}
    for format_name, suffix, write in (
        ("Delimited", "csv", write_csv),
        ("Excel", "xlsx", write_xlsx),
        ("ODS", "ods", write_indented_ods),
    ):
        data_path = os.path.join(folder, "data." + suffix)
        write(data_path, TABLE)
        outcomes[format_name] = verdicts(cid_for(format_name), data_path)
        print("data as %-9s: %s" % (format_name, outcomes[format_name]))
    print("cells cutplace reads from the ODS:", list(rowio.ods_rows(os.path.join(folder, "data.ods"))))
    is_data_violated = len(set(tuple(outcome) for outcome in outcomes.values())) != 1

    # The same for the CID: the contents of CID_ROWS stored in the 3 formats.
    cid_outcomes = {}
    cid_rows = [[item % "Delimited" if "%s" in item else item for item in row] for row in CID_ROWS]
    for suffix, write in (("csv", write_csv), ("xlsx", write_xlsx), ("ods", write_indented_ods)):
        cid_path = os.path.join(folder, "cid." + suffix)
        write(cid_path, cid_rows)
        try:
            cid = interface.Cid(cid_path)
            cid_outcomes[suffix] = "%s; %s" % (cid.data_format, [str(field) for field in cid.field_formats])
        except cutplace.errors.CutplaceError as error:
            cid_outcomes[suffix] = "%s: %s" % (type(error).__name__, str(error).split(": ", 1)[1])
        print("CID as %-4s: %s" % (suffix, cid_outcomes[suffix]))
    is_cid_violated = len(set(cid_outcomes.values())) != 1

    is_violated = is_data_violated or is_cid_violated
    print("VIOLATION (data: %s, CID: %s)" % (is_data_violated, is_cid_violated) if is_violated else "no violation")
    return 1 if is_violated else 0


if __name__ == "__main__":
    sys.exit(main())
