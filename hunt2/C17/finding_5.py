"""
C17 finding 5: the reader for a CID is chosen by the file suffix alone (rowio.auto_rows): only *.ods, *.xls and
*.xlsx get the spreadsheet readers, everything else is parsed as CSV. The same CID contents load from a CSV file
with any name, but an Excel workbook named *.xlsm (macro enabled workbook, same container as *.xlsx) or an
ODS/Excel file without suffix (e.g. an uploaded temporary file) is refused as broken delimited file. (For the
data the suffix does not matter at all, the format comes from the CID.)
Exit code 1 = violation observed.
"""
import csv
import os
import shutil
import sys
import tempfile
import zipfile

import xlsxwriter

import cutplace.errors
from cutplace import interface

CID_ROWS = [
    ["D", "Format", "Delimited"],
    ["F", "id", "", "", "", "Integer", "0...99"],
]


def write_csv(path):
    with open(path, "w", newline="", encoding="utf-8") as csv_file:
        csv.writer(csv_file).writerows(CID_ROWS)


def write_xlsx(path):
    # NOTE: xlsxwriter picks the content type by suffix, so write *.xlsx and *.xlsm directly.
    workbook = xlsxwriter.Workbook(path)
    worksheet = workbook.add_worksheet()
    for y, row in enumerate(CID_ROWS):
        for x, item in enumerate(row):
            worksheet.write_string(y, x, item)
    workbook.close()


def write_ods(path):
    body = ""
    for row in CID_ROWS:
        body += "<table:table-row>"
        for item in row:
            body += ('<table:table-cell office:value-type="string"><text:p>%s</text:p></table:table-cell>' % item) if item else "<table:table-cell/>"
        body += "</table:table-row>"
    content = (
        '<?xml version="1.0" encoding="UTF-8"?>'
        '<office:document-content xmlns:office="urn:oasis:names:tc:opendocument:xmlns:office:1.0" '
        'xmlns:table="urn:oasis:names:tc:opendocument:xmlns:table:1.0" '
        'xmlns:text="urn:oasis:names:tc:opendocument:xmlns:text:1.0" office:version="1.2">'
        '<office:body><office:spreadsheet><table:table table:name="cid">%s</table:table>'
        "</office:spreadsheet></office:body></office:document-content>" % body
    )
    with zipfile.ZipFile(path, "w") as ods_zip:
        ods_zip.writestr("mimetype", "application/vnd.oasis.opendocument.spreadsheet")
        ods_zip.writestr("content.xml", content)


def load(path):
    try:
        cid = interface.Cid(path)
        return "ok: %s" % [str(field) for field in cid.field_formats]
    except cutplace.errors.CutplaceError as error:
        return "%s: %s" % (type(error).__name__, str(error).split(": ", 1)[1][:90])


def main():
    folder = tempfile.mkdtemp(prefix="c17_f5_")
    outcomes = {}
    for name, write in (
        ("cid.csv", write_csv),
        ("cid_csv_upload", write_csv),
        ("cid.xlsx", write_xlsx),
        ("cid.xlsm", write_xlsx),
        ("cid_xlsx_upload", write_xlsx),
        ("cid.ods", write_ods),
        ("cid_ods_upload", write_ods),
    ):
        path = os.path.join(folder, name)
        write(path)
        outcomes[name] = load(path)
        print("%-16s %s" % (name, outcomes[name]))
    is_violated = len(set(outcomes.values())) != 1
    print("VIOLATION" if is_violated else "no violation")
    return 1 if is_violated else 0


if __name__ == "__main__":
    sys.exit(main())
