"""
C17 finding 2: data passed as filelike object (which validate(), rows() and Reader document as alternative to a
path) get per-row verdicts when stored as delimited text or ODS, but are refused as broken ("cannot read Excel
file") when the very same table is stored as Excel.
Exit code 1 = violation observed.
"""
import csv
import io
import os
import sys
import tempfile
import zipfile

import xlsxwriter

import cutplace
import cutplace.errors
from cutplace import interface

TABLE = [["1", "anna"], ["x", "bert"], ["3", ""]]


def cid_for(format_name):
    return interface.create_cid_from_string(
        "D,Format,%s\nD,Encoding,utf-8\nF,id,,,,Integer\nF,name,,X,,Text\n" % format_name
    )


def write_csv(path):
    with open(path, "w", newline="", encoding="utf-8") as csv_file:
        csv.writer(csv_file).writerows(TABLE)


def write_xlsx(path):
    workbook = xlsxwriter.Workbook(path)
    worksheet = workbook.add_worksheet()
    for y, row in enumerate(TABLE):
        for x, item in enumerate(row):
            worksheet.write_string(y, x, item)
    workbook.close()


def write_ods(path):
    body = ""
    for row in TABLE:
        body += "<table:table-row>"
        for item in row:
            body += ('<table:table-cell office:value-type="string"><text:p>%s</text:p></table:table-cell>' % item) if item else "<table:table-cell/>"
        body += "</table:table-row>"
    content = (
        '<?xml version="1.0" encoding="UTF-8"?>'
        '<office:document-content xmlns:office="urn:oasis:names:tc:opendocument:xmlns:office:1.0" '
        'xmlns:table="urn:oasis:names:tc:opendocument:xmlns:table:1.0" '
        'xmlns:text="urn:oasis:names:tc:opendocument:xmlns:text:1.0" office:version="1.2">'
        '<office:body><office:spreadsheet><table:table table:name="data">%s</table:table>'
        "</office:spreadsheet></office:body></office:document-content>" % body
    )
    with zipfile.ZipFile(path, "w") as ods_zip:
        ods_zip.writestr("mimetype", "application/vnd.oasis.opendocument.spreadsheet")
        ods_zip.writestr("content.xml", content)


def verdicts(cid, source):
    result = []
    try:
        for row_or_error in cutplace.rows(cid, source, on_error="yield"):
            if isinstance(row_or_error, Exception):
                result.append("rejected: " + str(row_or_error).split(": ", 1)[1])
            else:
                result.append("accepted: %s" % row_or_error)
    except cutplace.errors.CutplaceError as error:
        result.append("NO VERDICTS, %s: %s" % (type(error).__name__, error))
    return result


def main():
    folder = tempfile.mkdtemp(prefix="c17_f2_")
    outcomes = {}
    for format_name, suffix, write in (("Delimited", "csv", write_csv), ("ODS", "ods", write_ods), ("Excel", "xlsx", write_xlsx)):
        path = os.path.join(folder, "data." + suffix)
        write(path)
        cid = cid_for(format_name)
        from_path = verdicts(cid, path)
        if suffix == "csv":
            with io.open(path, "r", encoding="utf-8", newline="") as stream:
                from_stream = verdicts(cid, stream)
        else:
            with io.open(path, "rb") as stream:
                from_stream = verdicts(cid, stream)
            with io.open(path, "rb") as stream:
                from_bytes_io = verdicts(cid, io.BytesIO(stream.read()))
            assert from_bytes_io == from_stream or from_stream[0].startswith("NO VERDICTS"), from_bytes_io
        print("%s from path  : %s" % (format_name, from_path))
        print("%s from stream: %s" % (format_name, from_stream))
        outcomes[format_name] = (from_path, from_stream)
    reference = outcomes["Delimited"][0]
    is_violated = any(from_path != reference or from_stream != reference for from_path, from_stream in outcomes.values())
    print("VIOLATION" if is_violated else "no violation")
    return 1 if is_violated else 0


if __name__ == "__main__":
    sys.exit(main())
