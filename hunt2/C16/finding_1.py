"""
C16 finding 1: a string that is the (cached) result of a formula loses its leading and trailing
white space when the workbook is read - "strings verbatim" is violated.
"""
import os
import sys
import tempfile

import xlsxwriter

from cutplace import interface, rowio, validio

EXPECTED = [" a ", "b\n", "\tc", " ", "x  y"]

folder = tempfile.mkdtemp(prefix="c16_f1_")
path = os.path.join(folder, "formula_strings.xlsx")
workbook = xlsxwriter.Workbook(path)
worksheet = workbook.add_worksheet()
for row_index, text in enumerate(EXPECTED):
    # Column A: a formula cell whose result is the string; column B: the same string as plain string cell.
    worksheet.write_formula(row_index, 0, '=B%d' % (row_index + 1), None, text)
    worksheet.write_string(row_index, 1, text)
workbook.close()

rows = list(rowio.excel_rows(path))
cid = interface.Cid()
cid.read("inline", [["d", "format", "excel"], ["f", "formula", "", "x"], ["f", "plain", "", "x"]])
reader_rows = list(validio.rows(cid, path))

violated = False
for expected, row, reader_row in zip(EXPECTED, rows, reader_rows):
    print("string %r: plain cell -> %r, formula cell -> %r (Reader: %r)" % (expected, row[1], row[0], reader_row[0]))
    if row[1] != expected:
        print("  unexpected: even the plain cell differs")
    if row[0] != expected or reader_row[0] != expected:
        violated = True
if violated:
    print("VIOLATION: string results of formulas are not returned verbatim")
    sys.exit(1)
print("ok: all strings returned verbatim")
sys.exit(0)
