"""
C16 finding 3: date and time cells are rendered as bare serial numbers instead of
'YYYY-MM-DD hh:mm:ss' / 'hh:mm:ss' when the cell uses
(a) one of the built-in date formats 27..36 and 50..58 (the date formats East Asian editions of Excel offer), or
(b) a time format showing seconds with decimals or elapsed time such as 'ss.00', 's.000', '[s]', '[h]'.
"""
import datetime
import os
import sys
import tempfile

import xlsxwriter

from cutplace import rowio

folder = tempfile.mkdtemp(prefix="c16_f3_")
path = os.path.join(folder, "dates.xlsx")
workbook = xlsxwriter.Workbook(path)
worksheet = workbook.add_worksheet()
a_date = datetime.datetime(2023, 3, 15, 12, 0, 0)
a_time = datetime.time(12, 34, 56)
formats = [14, 22, "yyyy-mm-dd", 27, 30, 31, 33, 36, 50, 55, 58, "ss.00", "s.000", "[s]", "[h]"]
for row_index, num_format in enumerate(formats):
    cell_format = workbook.add_format({"num_format": num_format})
    worksheet.write_string(row_index, 0, str(num_format))
    worksheet.write_datetime(row_index, 1, a_date, cell_format)
    worksheet.write_datetime(row_index, 2, a_time, cell_format)
workbook.close()

violated = False
for row in rowio.excel_rows(path):
    is_ok = row[1:] == ["2023-03-15 12:00:00", "12:34:56"]
    print("num_format %-12s date cell -> %-22r time cell -> %-22r %s" % (row[0], row[1], row[2], "" if is_ok else "<-- wrong"))
    if not is_ok:
        violated = True
if violated:
    print("VIOLATION: date / time cells rendered as numbers")
    sys.exit(1)
print("ok")
sys.exit(0)
