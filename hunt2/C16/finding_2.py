"""
C16 finding 2: after XlsxRowWriter.write_row() rejected a row (DataFormatError introduced by the
repair 82d7fa5), the writer keeps the cells already stored and does not move on, so the rows written
afterwards end up shifted into the rejected row - the table does not read back identically.
"""
import os
import sys
import tempfile

from cutplace import errors, rowio

folder = tempfile.mkdtemp(prefix="c16_f2_")
path = os.path.join(folder, "written.xlsx")

rows = [["a", "b", "c"], ["d", "x" * 32768, "f"], ["g", "h", "i"], ["j", "k", "l"]]
accepted = []
with rowio.XlsxRowWriter(path) as writer:
    for row in rows:
        try:
            writer.write_row(row)
            accepted.append(row)
        except errors.DataFormatError as error:
            print("rejected row %d: %s" % (rows.index(row) + 1, str(error)[:110]))

read_back = list(rowio.excel_rows(path))
print("rows accepted by write_row():", accepted)
print("rows read back             :", read_back)
if read_back != accepted:
    print("VIOLATION: table written with XlsxRowWriter does not read back identically")
    sys.exit(1)
print("ok")
sys.exit(0)
