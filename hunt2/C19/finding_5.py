"""
Finding 5: the table name is the one name in the CREATE TABLE statement that is never checked against the
keywords of the dialect. SqlFactory(cid, "order", dialect) gives "create table order (" for all four
dialects, while a field named "order" in the same statement is quoted. The command line derives the table
name from the name of the CID file, so "cutplace --create order.xlsx" (or group.xls, user.xls, table.xls ...)
writes a statement no database accepts.
"""
import logging
import os
import shutil
import sys
import tempfile

import xlsxwriter

from cutplace import applications, interface, sql

CID_ROWS = [
    ["D", "Format", "Delimited"],
    ["F", "order", "", "", "...10", "", ""],
    ["F", "amount", "", "", "", "Integer", "0...999"],
]

violations = 0
for dialect_name, dialect in sorted(sql.SQL_NAME_TO_DIALECT_MAP.items()):
    cid = interface.Cid()
    cid.read("inline", CID_ROWS)
    for table in ("order", "Select", "table"):
        assert dialect.is_keyword(table)
        first_line, second_line = sql.SqlFactory(cid, table, dialect).create_table_statement().split("\n")[:2]
        is_table_quoted = first_line == 'create table "%s" (' % table
        is_field_quoted = second_line.strip().startswith('"order" ')
        print(
            "%-12s table %-8r -> %-24r (field: %r)%s"
            % (dialect_name, table, first_line, second_line.strip(), "" if is_table_quoted else "  VIOLATION")
        )
        assert is_field_quoted
        if not is_table_quoted:
            violations += 1

# Command line: table name derived from file name.
logging.basicConfig(level=logging.WARNING)
work_folder = tempfile.mkdtemp(prefix="f5_", dir=os.path.dirname(os.path.abspath(__file__)))
try:
    cid_path = os.path.join(work_folder, "order.xlsx")
    workbook = xlsxwriter.Workbook(cid_path)
    worksheet = workbook.add_worksheet()
    for row_index, row in enumerate(CID_ROWS):
        for column_index, item in enumerate(row):
            worksheet.write_string(row_index, column_index, item)
    workbook.close()
    exit_code = applications.main(["cutplace", "--create", cid_path])
    with open(os.path.join(work_folder, "order_create.sql"), encoding="utf-8") as sql_file:
        statement = sql_file.read()
    print("cutplace --create order.xlsx: exit code %d, wrote:" % exit_code)
    print(statement)
    if statement.startswith("create table order ("):
        print("VIOLATION: keyword used as table name without quotes")
        violations += 1
finally:
    shutil.rmtree(work_folder, ignore_errors=True)

print("violations: %d" % violations)
sys.exit(1 if violations else 0)
