"""
Finding 3: the command line "cutplace --create CID-FILE" only produces a CREATE TABLE statement when the
CID is stored as Excel file. For the very same CID stored as ODS or CSV (both documented and accepted
everywhere else, including the first half of the same command which reads it with rowio.auto_rows())
no statement is generated; cutplace.sql.write_create() reads the CID a second time with
rowio.excel_rows() and fails with "cannot read Excel file".
"""
import logging
import os
import shutil
import sys
import tempfile
import zipfile
from xml.sax.saxutils import escape

import xlsxwriter

from cutplace import applications, interface, rowio, sql

CID_ROWS = [
    ["D", "Format", "Delimited"],
    ["D", "Item delimiter", ";"],
    ["F", "customer_id", "", "", "", "Integer", "0...99999"],
    ["F", "surname", "", "", "...60", "", ""],
    ["F", "order", "", "X", "...10", "", ""],
    ["F", "balance", "", "X", "", "Decimal", "-999.99...999.99"],
]


def write_xlsx(path):
    workbook = xlsxwriter.Workbook(path)
    worksheet = workbook.add_worksheet()
    for row_index, row in enumerate(CID_ROWS):
        for column_index, item in enumerate(row):
            worksheet.write_string(row_index, column_index, item)
    workbook.close()


def write_csv(path):
    with open(path, "w", encoding="utf-8", newline="") as csv_file:
        for row in CID_ROWS:
            csv_file.write(",".join('"%s"' % item for item in row) + "\r\n")


def write_ods(path):
    table_rows = ""
    for row in CID_ROWS:
        table_rows += "<table:table-row>"
        for item in row:
            table_rows += (
                '<table:table-cell office:value-type="string"><text:p>%s</text:p></table:table-cell>' % escape(item)
            )
        table_rows += "</table:table-row>"
    content = (
        '<?xml version="1.0" encoding="UTF-8"?>'
        '<office:document-content xmlns:office="urn:oasis:names:tc:opendocument:xmlns:office:1.0" '
        'xmlns:table="urn:oasis:names:tc:opendocument:xmlns:table:1.0" '
        'xmlns:text="urn:oasis:names:tc:opendocument:xmlns:text:1.0" office:version="1.2">'
        '<office:body><office:spreadsheet><table:table table:name="cid">%s</table:table>'
        "</office:spreadsheet></office:body></office:document-content>" % table_rows
    )
    with zipfile.ZipFile(path, "w") as ods_file:
        ods_file.writestr("mimetype", "application/vnd.oasis.opendocument.spreadsheet")
        ods_file.writestr("content.xml", content)


logging.basicConfig(level=logging.WARNING)
work_folder = tempfile.mkdtemp(prefix="f3_", dir=os.path.dirname(os.path.abspath(__file__)))
violations = 0
try:
    expected_statement = None
    for suffix, write_cid in (("xlsx", write_xlsx), ("ods", write_ods), ("csv", write_csv)):
        cid_path = os.path.join(work_folder, "customers_%s.%s" % (suffix, suffix))
        write_cid(cid_path)

        # The CID as such is fine and the API can create the statement from it.
        cid = interface.Cid()
        cid.read(cid_path, rowio.auto_rows(cid_path))
        api_statement = sql.SqlFactory(cid, "customers").create_table_statement()
        column_count = api_statement.count("\n") - 1
        assert column_count == 4, api_statement

        exit_code = applications.main(["cutplace", "--create", cid_path])
        sql_path = os.path.join(work_folder, "customers_%s_create.sql" % suffix)
        if os.path.exists(sql_path):
            with open(sql_path, encoding="utf-8") as sql_file:
                cli_statement = sql_file.read()
            cli_column_count = cli_statement.count("\n") - 1
            print("%s: exit code %d, statement with %d columns written" % (suffix, exit_code, cli_column_count))
            if cli_column_count != 4:
                violations += 1
        else:
            print(
                "%s: VIOLATION: exit code %d, no CREATE TABLE statement written "
                "(API on the same file gives %d columns)" % (suffix, exit_code, column_count)
            )
            violations += 1
finally:
    shutil.rmtree(work_folder, ignore_errors=True)

print("violations: %d" % violations)
sys.exit(1 if violations else 0)
