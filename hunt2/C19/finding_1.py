"""
Finding 1: an Integer field whose limits have exactly as many digits as the biggest exact numeric type
of the dialect (DB2: 31, Transact-SQL: 38, Oracle: 38) gets a column type with one digit more than the
dialect supports, i.e. a type that does not exist in this dialect, although a type of the dialect able to
store both limits exists (decimal(31), decimal(38, 0), number(38, 0)).
"""
import re
import sys

from cutplace import interface, sql

#: Documented maximum precision of decimal / number columns.
MAX_PRECISION = {sql.DB2: 31, sql.TRANSACT: 38, sql.PL: 38}


def column_line(dialect, length, rule):
    cid = interface.Cid()
    cid.read("inline", [["d", "format", "delimited"], ["f", "amount", "", "", length, "Integer", rule]])
    statement = sql.SqlFactory(cid, "some", dialect).create_table_statement()
    return statement.split("\n")[1].strip()


violations = 0
for dialect_name, max_precision in sorted(MAX_PRECISION.items()):
    dialect = sql.SQL_NAME_TO_DIALECT_MAP[dialect_name]
    upper = "9" * max_precision
    for description, length, rule in (
        ("rule 0...%s" % upper, "", "0..." + upper),
        ("rule -%s...%s" % (upper, upper), "", "-%s...%s" % (upper, upper)),
        ("length %d, no rule" % max_precision, str(max_precision), ""),
    ):
        line = column_line(dialect, length, rule)
        match = re.match(r"amount (decimal|number)\((\d+)(?:, 0)?\)", line)
        precision = int(match.group(2)) if match else None
        is_violation = (precision is None) or (precision > max_precision)
        print(
            "%-12s %-50.50s -> %-40s %s"
            % (
                dialect_name,
                description,
                line,
                "VIOLATION: needs %d digits, %s supports at most %d" % (max_precision, dialect_name, max_precision)
                if is_violation
                else "ok",
            )
        )
        if is_violation:
            violations += 1
    # Control: one digit less works.
    print("%-12s %-50s -> %s" % (dialect_name, "control: %d digits" % (max_precision - 1),
          column_line(dialect, "", "0..." + "9" * (max_precision - 1))))

print("violations: %d" % violations)
sys.exit(1 if violations else 0)
