"""
Finding 2: a CID with an Integer or Decimal field that has an ``empty_value`` (public constructor
parameter of IntegerFieldFormat / DecimalFieldFormat, added with the public Cid.add_field_format())
cannot be turned into a CREATE TABLE statement at all: SqlFactory.create_table_statement() calls
len() on the empty value and dies with TypeError. With a text empty value the unescaped "default"
clause can even add columns that are no fields of the CID.
"""
import decimal
import re
import sys

from cutplace import fields, interface, sql


def cid_with(create_field_formats):
    cid = interface.Cid()
    cid.read("inline", [["d", "format", "delimited"], ["f", "customer_id", "", "", "", "Integer", "0...99999"]])
    for field_format in create_field_formats(cid.data_format):
        cid.add_field_format(field_format)
    return cid


violations = 0

cases = (
    ("Integer, empty_value=0", lambda df: [fields.IntegerFieldFormat("visits", True, "", "0...999", df, empty_value=0)]),
    (
        "Decimal, empty_value=Decimal('0.00')",
        lambda df: [fields.DecimalFieldFormat("balance", True, "", "0...999.99", df, empty_value=decimal.Decimal("0.00"))],
    ),
)
for description, create_field_formats in cases:
    cid = cid_with(create_field_formats)
    # The field format itself works as documented.
    assert cid.field_formats[1].validated("") == cid.field_formats[1].empty_value
    for dialect_name, dialect in sorted(sql.SQL_NAME_TO_DIALECT_MAP.items()):
        try:
            statement = sql.SqlFactory(cid, "customers", dialect).create_table_statement()
            column_count = len(re.findall(r"^    \S", statement, re.MULTILINE))
            print("%s, %s: ok, %d columns" % (description, dialect_name, column_count))
        except Exception as error:
            print("%s, %s: VIOLATION: no statement: %s: %s" % (description, dialect_name, type(error).__name__, error))
            violations += 1

# Related: text empty value is written without quotes.
cid = cid_with(lambda df: [fields.TextFieldFormat("remark", True, "...20", "", df, empty_value="none, yet")])
statement = sql.SqlFactory(cid, "customers").create_table_statement()
print(statement)
if "default none, yet" in statement:
    print("VIOLATION: 2 fields in CID but the text between the parentheses declares 3 column definitions")
    violations += 1

print("violations: %d" % violations)
sys.exit(1 if violations else 0)
