"""
Finding 4: with the dialect "PL/SQL" (Oracle) field names that are reserved words of Oracle SQL - the
language the CREATE TABLE statement is written in - are not quoted, for example NUMBER, USER, UID, ROWID,
ROWNUM, INTEGER, SMALLINT, VARCHAR, VARCHAR2, SESSION, FILE, COLUMN, TRIGGER. The keyword list of
PlSqlDialect holds only the words of the PL/SQL (procedural language) appendix. Oracle rejects the resulting
statement with ORA-00904 "invalid identifier".

The words below are taken from "Oracle Database SQL Language Reference, Oracle SQL Reserved Words"
(all of them are marked reserved there, i.e. they also show up in V$RESERVED_WORDS with RESERVED = 'Y').
"""
import sys

from cutplace import interface, sql

ORACLE_SQL_RESERVED_WORDS = """
access add all alter and any as asc audit between by char check cluster column comment compress connect
create current date decimal default delete desc distinct drop else exclusive exists file float for from grant
group having identified immediate in increment index initial insert integer intersect into is level like lock
long maxextents minus mlslabel mode modify noaudit nocompress not nowait null number of offline on online
option or order pctfree prior public raw rename resource revoke row rowid rownum rows select session set
share size smallint start successful synonym sysdate table then to trigger uid union unique update user
validate values varchar varchar2 view whenever where with
""".split()

dialect = sql.SQL_NAME_TO_DIALECT_MAP[sql.PL]
unquoted_words = []
for word in ORACLE_SQL_RESERVED_WORDS:
    try:
        cid = interface.Cid()
        cid.read("inline", [["d", "format", "delimited"], ["f", word, "", "", "...10", "", ""]])
    except Exception as error:
        # Python keywords cannot be field names.
        continue
    statement = sql.SqlFactory(cid, "some", dialect).create_table_statement()
    column_line = statement.split("\n")[1].strip()
    if not column_line.startswith('"%s" ' % word):
        unquoted_words.append(word)
        print("not quoted: %s" % column_line)

print("Oracle SQL reserved words usable as field name but not quoted for dialect %s: %d" % (dialect, len(unquoted_words)))
print(", ".join(unquoted_words))
sys.exit(1 if unquoted_words else 0)
