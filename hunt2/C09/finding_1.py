"""
C09 finding 1: a fixed-width CID whose field length has no lower and no upper limit
("...4, 5...") is not rejected with an InterfaceError naming the row but fails with TypeError.
"""
import os
import sys
import tempfile

from cutplace import applications, errors, interface

violations = 0
for field_type in ("", "Text", "Decimal", "Choice", "DateTime", "RegEx", "Pattern"):
    rule = {"Choice": "abc,de", "DateTime": "YYYY", "RegEx": ".*", "Pattern": "*"}.get(field_type, "")
    cid_text = 'd,format,fixed\n,a comment row\nf,customer_id,,,"...4, 5...",%s,"%s"\n' % (field_type, rule)
    try:
        interface.create_cid_from_string(cid_text)
        print("type %-8r: ACCEPTED (a fixed field needs one exact length)" % field_type)
        violations += 1
    except errors.InterfaceError as error:
        names_row = "(R3C" in str(error)
        print("type %-8r: InterfaceError, names row 3: %s: %s" % (field_type, names_row, error))
        if not names_row:
            violations += 1
    except Exception as error:
        print("type %-8r: %s instead of InterfaceError: %s" % (field_type, type(error).__name__, error))
        violations += 1

# For comparison: the neighbouring broken lengths are rejected properly.
for length in ("...4", "5...", "4...5"):
    try:
        interface.create_cid_from_string('d,format,fixed\nf,customer_id,,,"%s"\n' % length)
        print("length %r: ACCEPTED" % length)
    except errors.InterfaceError as error:
        print("length %r: properly rejected: %s" % (length, error))

# The same CID via the command line: exit code 4 ("something unexpected happened, program code must be fixed").
with tempfile.TemporaryDirectory() as folder:
    cid_path = os.path.join(folder, "cid_fixed.csv")
    with open(cid_path, "w", encoding="utf-8") as cid_file:
        cid_file.write('d,format,fixed\nf,customer_id,,,"...4, 5..."\n')
    import logging

    logging.disable(logging.CRITICAL)
    exit_code = applications.main(["cutplace", cid_path])
    logging.disable(logging.NOTSET)
    print("command line exit code: %d (1 would mean: CID or data must be fixed, 4: unexpected error)" % exit_code)
    if exit_code == 4:
        violations += 1

print("violations: %d" % violations)
sys.exit(1 if violations else 0)
