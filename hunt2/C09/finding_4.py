"""
C09 finding 4: a check row with an empty type cell is accepted; the cells to the right of the empty
type - including a cell beyond the parsed columns - are shifted to the left and used as type and rule.
"""
import sys

from cutplace import errors, interface

HEAD = "d,format,delimited\nf,customer_id\nf,branch_id\n"
violations = 0
for check_row in ("c,customer must be unique,,IsUnique,customer_id", "c,customer must be unique,, ,IsUnique,customer_id"):
    try:
        cid = interface.create_cid_from_string(HEAD + check_row + "\n")
        check = cid.check_for(cid.check_names[0])
        print("%r: ACCEPTED as %s although the type cell (3rd cell) is empty" % (check_row, check))
        violations += 1
    except errors.InterfaceError as error:
        print("%r: rejected: %s" % (check_row, error))

# The cell after the rule is used, although it is beyond the parsed columns "C, description, type, rule":
# with the 5th cell changed, the outcome changes.
try:
    interface.create_cid_from_string(HEAD + "c,customer must be unique,,IsUnique,no_such_field\n")
    print("5th cell changed to an unknown field: accepted")
except errors.InterfaceError as error:
    print("5th cell changed to an unknown field: rejected, so the 5th cell is not ignored: %s" % error)

print("violations: %d" % violations)
sys.exit(1 if violations else 0)
