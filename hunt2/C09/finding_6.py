"""
C09 finding 6: a field type with arbitrary dotted prefixes is accepted; everything before the last dot is
ignored (it is not even required to be a module or a known type), so "Integer.Text" declares a Text field
and "class.Integer" or "no_such_module.Integer" an Integer field.
"""
import sys

from cutplace import errors, interface

violations = 0
for field_type in ("Integer.Text", "Text.Integer", "class.Integer", "no_such_module.x.y.Integer"):
    try:
        cid = interface.create_cid_from_string("d,format,delimited\nf,customer_id,,,,%s\n" % field_type)
        print("type %-28r: ACCEPTED as %s" % (field_type, type(cid.field_formats[0]).__name__))
        violations += 1
    except errors.InterfaceError as error:
        print("type %-28r: rejected: %s" % (field_type, error))
# Check types are treated differently: a dotted prefix is refused.
try:
    interface.create_cid_from_string("d,format,delimited\nf,customer_id\nc,some check,checks.IsUnique,customer_id\n")
    print("check type 'checks.IsUnique': accepted")
except errors.InterfaceError as error:
    print("check type 'checks.IsUnique': rejected: %s" % error)
print("violations: %d" % violations)
sys.exit(1 if violations else 0)
