"""
C09 finding 3: a DistinctCount rule that names only its own declared field, but more than once
("branch_id >= 1 and branch_id <= 5"), is rejected. Only the first occurrence of the field name is
replaced by the count, the second one is reported as "not defined".
"""
import sys

from cutplace import errors, interface

CID_TEMPLATE = 'd,format,delimited\nf,branch_id\nf,customer_id\nc,distinct branches,DistinctCount,"%s"\n'

violations = 0
for rule in ("branch_id >= 1", "branch_id >= 1 and branch_id <= 5", "branch_id in (1, 2) or branch_id == 7"):
    try:
        interface.create_cid_from_string(CID_TEMPLATE % rule)
        print("rule %-40r: accepted" % rule)
    except errors.InterfaceError as error:
        print("rule %-40r: REJECTED although it names only the declared field branch_id: %s" % (rule, error))
        violations += 1
print("violations: %d" % violations)
sys.exit(1 if violations else 0)
