"""
C09 finding 5: a negative length is accepted (for non fixed formats) as soon as another part of the
length has no lower limit, although the same negative length on its own is rejected.
"""
import sys

from cutplace import errors, interface


def outcome(data_format, length, field_type=""):
    try:
        cid = interface.create_cid_from_string('d,format,%s\nf,customer_id,,,"%s",%s\n' % (data_format, length, field_type))
        return "ACCEPTED with length items %r" % cid.field_formats[0].length.items
    except errors.InterfaceError as error:
        return "rejected: %s" % error


violations = 0
for data_format in ("delimited", "excel", "ods"):
    for alone, combined in (("-3", "-3, ...5"), ("...-1", "...-1, 5"), ("-3...-1", "-3...-1, ...5")):
        for field_type in ("Text",):
            outcome_alone = outcome(data_format, alone, field_type)
            outcome_combined = outcome(data_format, combined, field_type)
            print("%-9s %-7s length %-8r: %s" % (data_format, field_type, alone, outcome_alone))
            print("%-9s %-7s length %-15r: %s" % (data_format, field_type, combined, outcome_combined))
            if outcome_combined.startswith("ACCEPTED"):
                violations += 1
print("violations: %d" % violations)
sys.exit(1 if violations else 0)
