"""
C09 finding 2: a DistinctCount rule that names something which is no declared field (a Python builtin such
as ``len`` or the internal variable ``count``) is accepted when the CID is read. The broken rule is only
detected - as InterfaceError - at the end of the data. (Same kind of defect as the one repaired by bf213ba,
the repair only covers names that are neither builtins nor ``count``.)
"""
import io
import sys

from cutplace import errors, interface, validio

CID_TEMPLATE = "d,format,delimited\nf,branch_id\nf,customer_id\nc,distinct branches,DistinctCount,%s\n"

violations = 0
for rule in ("branch_id == 0 or len", "branch_id == 0 or count", "branch_id >= 0 or count", "branch_id == 0 or undeclared"):
    try:
        cid = interface.create_cid_from_string(CID_TEMPLATE % rule)
    except errors.InterfaceError as error:
        print("rule %-35r: rejected: %s" % (rule, error))
        continue
    print("rule %-35r: ACCEPTED although it names something that is no declared field" % rule)
    violations += 1
    try:
        with validio.Reader(cid, io.StringIO("1,2\n3,4\n")) as reader:
            reader.validate_rows()
        print("    validating 2 proper data rows: ok")
    except errors.InterfaceError as error:
        print("    validating 2 proper data rows: InterfaceError only at the end of the data: %s" % error)

print("violations: %d" % violations)
sys.exit(1 if violations else 0)
