"""Core of the runtime-monitoring harness: the per-run context that drivers and monitors
report into, the three-valued verdict bookkeeping, replay files and evidence."""
import hashlib
import json
import os
import random
import time
import traceback

HERE = os.path.dirname(os.path.dirname(os.path.abspath(__file__)))

MAX_REPLAYS_PER_KEY = 3
MAX_SAMPLES = 6


def canonical(obj):
    return json.dumps(obj, sort_keys=True, ensure_ascii=True, default=repr, separators=(",", ":"))


def digest(obj):
    return hashlib.sha1(canonical(obj).encode("ascii")).hexdigest()[:16]


def jsonable(obj, depth=0):
    """Best-effort conversion of observed values into something json can hold."""
    if depth > 6:
        return repr(obj)
    if obj is None or isinstance(obj, (bool, int, str)):
        return obj
    if isinstance(obj, float):
        return obj if obj == obj and abs(obj) != float("inf") else repr(obj)
    if isinstance(obj, (list, tuple)):
        return [jsonable(i, depth + 1) for i in obj]
    if isinstance(obj, (set, frozenset)):
        return sorted((jsonable(i, depth + 1) for i in obj), key=repr)
    if isinstance(obj, dict):
        return {str(k): jsonable(v, depth + 1) for k, v in obj.items()}
    if isinstance(obj, BaseException):
        return {"exception": type(obj).__name__, "text": str(obj)[:400]}
    return repr(obj)[:400]


class Ctx(object):
    """Everything one shard of one check run knows and counts."""

    def __init__(self, prop, tier, seed, shard=0, nshards=1, replaying=False):
        self.prop = prop
        self.tier = tier
        self.seed = seed
        self.shard = shard
        self.nshards = nshards
        self.replaying = replaying
        self.evaluations = 0
        self.bulk_distinct = 0
        self.nontrivial = set()
        self.samples = []
        self.counters = {}
        self.unjudged_zones = {}
        self.violations = []  # dicts (bounded)
        self.violation_count = 0
        self.violation_keys = {}
        self.floors = {}
        self.notes = []
        self.exhaustive = None
        self.inconclusive = []
        self.t0 = time.time()
        self._sample_stride = 1

    # ------------------------------------------------------------------ workload helpers
    def rng(self, *key):
        return random.Random("%s:%s:%s" % (self.seed, self.prop, ":".join(str(k) for k in key)))

    def mine(self, index):
        return index % self.nshards == self.shard

    @property
    def quick(self):
        return self.tier == "quick"

    def pick(self, quick, thorough):
        return quick if self.tier == "quick" else thorough

    # ------------------------------------------------------------------ bookkeeping
    def count(self, name, n=1):
        self.counters[name] = self.counters.get(name, 0) + n

    def unjudged(self, zone, n=1):
        self.unjudged_zones[zone] = self.unjudged_zones.get(zone, 0) + n

    def case(self, case, nontrivial=True, evaluations=1, key=None):
        """Register one judged case.  `case` must be JSON-able; the digest of it (or of `key`)
        decides distinctness."""
        self.evaluations += evaluations
        if nontrivial:
            self.nontrivial.add(digest(case if key is None else key))
        n = self.evaluations
        if len(self.samples) < MAX_SAMPLES:
            if n >= self._sample_stride:
                self.samples.append(jsonable(case))
                self._sample_stride = max(self._sample_stride * 7, n + 1)

    def bulk(self, evaluations, distinct_nontrivial, sample=None):
        """Register a block of cases that are distinct by construction (enumerations)."""
        self.evaluations += evaluations
        self.bulk_distinct += distinct_nontrivial
        if sample is not None and len(self.samples) < MAX_SAMPLES:
            self.samples.append(jsonable(sample))

    def floor(self, counter, minimum):
        """The deciding monitor `counter` must have seen at least `minimum` events in the
        whole run (all shards), else the run is inconclusive."""
        self.floors[counter] = max(self.floors.get(counter, 0), minimum)

    def note(self, text):
        if text not in self.notes:
            self.notes.append(text)

    def violation(self, key, case, what, expected=None, observed=None, trace=None):
        """Record a disagreement between observation and oracle.  `key` is the mechanism key
        (stable, never derived from random values); known_findings.json is consulted by the
        runner, not here."""
        self.violation_count += 1
        per_key = self.violation_keys.get(key, 0)
        self.violation_keys[key] = per_key + 1
        if per_key < MAX_REPLAYS_PER_KEY:
            self.violations.append(
                {
                    "key": key,
                    "what": what,
                    "case": jsonable(case),
                    "expected": jsonable(expected),
                    "observed": jsonable(observed),
                    "trace": jsonable(trace),
                }
            )

    def inconclusive_because(self, reason):
        if reason not in self.inconclusive:
            self.inconclusive.append(reason)

    # ------------------------------------------------------------------ shard result
    def result(self):
        return {
            "evaluations": self.evaluations,
            "bulk_distinct": self.bulk_distinct,
            "nontrivial": sorted(self.nontrivial),
            "samples": self.samples,
            "counters": self.counters,
            "unjudged": self.unjudged_zones,
            "violations": self.violations,
            "violation_count": self.violation_count,
            "violation_keys": self.violation_keys,
            "floors": self.floors,
            "notes": self.notes,
            "exhaustive": self.exhaustive,
            "inconclusive": self.inconclusive,
            "wall_s": time.time() - self.t0,
        }


def merge(results):
    out = {
        "evaluations": 0,
        "bulk_distinct": 0,
        "nontrivial": set(),
        "samples": [],
        "counters": {},
        "unjudged": {},
        "violations": [],
        "violation_count": 0,
        "violation_keys": {},
        "floors": {},
        "notes": [],
        "exhaustive": None,
        "inconclusive": [],
        "reach": {},
    }
    for r in results:
        out["evaluations"] += r["evaluations"]
        out["bulk_distinct"] += r["bulk_distinct"]
        out["nontrivial"].update(r["nontrivial"])
        for s in r["samples"]:
            if len(out["samples"]) < MAX_SAMPLES:
                out["samples"].append(s)
        for name in ("counters", "unjudged", "violation_keys"):
            for k, v in r[name].items():
                out[name][k] = out[name].get(k, 0) + v
        seen = {}
        for v in out["violations"]:
            seen[v["key"]] = seen.get(v["key"], 0) + 1
        for v in r["violations"]:
            if seen.get(v["key"], 0) < MAX_REPLAYS_PER_KEY:
                out["violations"].append(v)
                seen[v["key"]] = seen.get(v["key"], 0) + 1
        out["violation_count"] += r["violation_count"]
        for k, v in r["floors"].items():
            out["floors"][k] = max(out["floors"].get(k, 0), v)
        for n in r["notes"]:
            if n not in out["notes"]:
                out["notes"].append(n)
        if r["exhaustive"] is not None:
            out["exhaustive"] = r["exhaustive"] if out["exhaustive"] is None else (out["exhaustive"] and r["exhaustive"])
        for n in r["inconclusive"]:
            if n not in out["inconclusive"]:
                out["inconclusive"].append(n)
        for fn, n in r.get("reach", {}).items():
            out["reach"][fn] = out["reach"].get(fn, 0) + n
    return out


def format_exc(exc):
    return "".join(traceback.format_exception(type(exc), exc, exc.__traceback__))[-3000:]


def innermost_cutplace_frame(exc):
    """(module, function) of the innermost frame of exc's traceback that lies in cutplace/ ."""
    found = None
    tb = exc.__traceback__
    while tb is not None:
        code = tb.tb_frame.f_code
        fn = code.co_filename.replace("\\", "/")
        if "/cutplace/" in fn and "/cpverif/" not in fn:
            found = (os.path.splitext(os.path.basename(fn))[0], code.co_name)
        tb = tb.tb_next
    return found or ("?", "?")
