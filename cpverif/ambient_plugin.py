"""pytest plugin: runs the repository's own test-suite as an *ambient workload* under the self-contained L1 monitors
(ranges and field formats).  A monitor that fires here is either too strict or found something the tests do not assert.
Usage (on a scratch copy of the repository):  cd <copy> && PYTHONPATH=<copy>:/verif:/verif/.deps \
    /venv/bin/python -m pytest -q -p cpverif.ambient_plugin -p no:cacheprovider tests
Writes $CPVERIF_AMBIENT_OUT (default ./ambient.json)."""
import json
import os

from cpverif import core

_ctx = None


def pytest_configure(config):
    global _ctx
    from cpverif.monitors.fieldmon import FieldMonitor
    from cpverif.monitors.rangemon import RangeMonitor

    _ctx = core.Ctx("AMBIENT", "quick", 0)
    RangeMonitor(_ctx, prop="C01").attach()
    FieldMonitor(_ctx, prop="C02").attach()


def pytest_unconfigure(config):
    if _ctx is None:
        return
    res = _ctx.result()
    out = {"evaluations": res["evaluations"], "counters": res["counters"], "unjudged": res["unjudged"],
           "violation_keys": res["violation_keys"], "violations": res["violations"], "notes": res["notes"]}
    with open(os.environ.get("CPVERIF_AMBIENT_OUT", "ambient.json"), "w") as f:
        json.dump(out, f, indent=1)
