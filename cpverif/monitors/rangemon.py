"""L1 boundary monitor for cutplace.ranges.Range / DecimalRange (C01).

Self-contained: judges every constructor and validate() call against M-range from the call's
own arguments, whoever makes the call (generated workload, field formats, the repository's tests).
Never raises into cutplace code: it records into the Ctx."""
import decimal

from cpverif import attach
from cpverif.models import rangemodel as M


class RangeMonitor(object):
    def __init__(self, ctx, prop="C01", register_cases=True):
        self.ctx = ctx
        self.prop = prop
        self.register_cases = register_cases
        self.attached = False

    # ------------------------------------------------------------------
    def attach(self):
        from cutplace import errors, ranges

        mon = self
        ctx = self.ctx

        def effective(description, default):
            has = (description is not None) and (description.strip() != "")
            if not has and default is not None:
                return default
            return description if has else None

        def make_init(is_decimal):
            parse = M.parse_dec_range if is_decimal else M.parse_int_range
            kind = "DecimalRange" if is_decimal else "Range"

            def make(original):
                def __init__(self, description, default=None, *args, **kwargs):
                    text = effective(description, default)
                    model = M.OUTSIDE if text is None else parse(text)
                    ctx.count("range.init")
                    try:
                        original(self, description, default, *args, **kwargs)
                    except errors.InterfaceError as error:
                        if model is not M.OUTSIDE:
                            ctx.count("range.init.judged")
                            mon._case({"op": kind, "description": text}, True)
                            ctx.violation(
                                "%s:wellformed-refused" % mon.prop,
                                {"op": kind, "description": text},
                                "well-formed range description refused",
                                expected={"items": model},
                                observed=error,
                            )
                        else:
                            ctx.unjudged("range description outside the documented grammar (refused)")
                        raise
                    self._cpverif_model = model
                    self._cpverif_text = text
                    if model is M.OUTSIDE:
                        if text is not None:
                            ctx.unjudged("range description outside the documented grammar (accepted)")
                        return
                    ctx.count("range.init.judged")
                    lower, upper = M.limits(model)
                    observed = (self.lower_limit, self.upper_limit)
                    case = {"op": kind, "description": text}
                    mon._case(case, True)
                    if observed != (lower, upper):
                        ctx.violation(
                            "%s:overall-limits" % mon.prop, case, "overall lower/upper limit differs from min/max over items",
                            expected=[lower, upper], observed=list(observed),
                        )
                    try:
                        items = sorted(self.items, key=repr)
                        if items != sorted(model, key=repr):
                            ctx.count("range.items.differ(soft)")
                    except Exception:
                        ctx.count("range.items.unreadable(soft)")

                return __init__

            return make

        def make_validate(is_decimal):
            kind = "DecimalRange" if is_decimal else "Range"

            def make(original):
                def validate(self, name, value, *args, **kwargs):
                    model = getattr(self, "_cpverif_model", M.OUTSIDE)
                    judged = model is not M.OUTSIDE
                    probe = value
                    if judged:
                        if is_decimal:
                            if isinstance(value, str):
                                try:
                                    probe = decimal.Decimal(value)
                                except decimal.DecimalException:
                                    judged = False
                            elif isinstance(value, int) and not isinstance(value, bool):
                                probe = decimal.Decimal(value)
                            elif not isinstance(value, decimal.Decimal):
                                judged = False
                            if judged and not probe.is_finite():
                                judged = False
                        elif not isinstance(value, int) or isinstance(value, bool):
                            judged = False
                    ctx.count("range.validate")
                    raised = None
                    try:
                        result = original(self, name, value, *args, **kwargs)
                    except errors.RangeValueError as error:
                        raised = error
                    if judged:
                        ctx.count("range.validate.judged")
                        expected_in = M.contains(model, probe)
                        case = {"op": kind + ".validate", "description": self._cpverif_text, "value": str(value)}
                        unit = 1
                        mon._case(case, M.near_limit(model, probe, unit))
                        if expected_in and raised is not None:
                            ctx.violation("%s:inside-rejected" % mon.prop, case, "value inside an item was rejected",
                                          expected="accepted", observed=raised)
                        elif not expected_in and raised is None:
                            ctx.violation("%s:outside-accepted" % mon.prop, case, "value outside every item was accepted",
                                          expected="RangeValueError", observed="returned %r" % (result,))
                    else:
                        ctx.unjudged("validate() on an unjudged range or value")
                    if raised is not None:
                        raise raised
                    return result

                return validate

            return make

        self._attach_l2(ranges)
        attach.patch_method(ranges.Range, "__init__", make_init(False))
        attach.patch_method(ranges.Range, "validate", make_validate(False))
        attach.patch_method(ranges.DecimalRange, "__init__", make_init(True))
        attach.patch_method(ranges.DecimalRange, "validate", make_validate(True))
        self.attached = True
        return self

    def _attach_l2(self, ranges):
        """L2 (soft, diagnostic): icontract class invariants on Range / DecimalRange - every item has lower <= upper and
        the overall limits are consistent with the items.  The conditions record and return True (they never raise into
        cutplace code) and never decide: a broken invariant shows up as a counter in the evidence."""
        ctx = self.ctx
        try:
            import icontract
        except ImportError:
            ctx.note("L2 unavailable: icontract is not installed")
            return

        def items_ordered_and_limits_consistent(self):
            ctx.count("L2.range-invariant.evaluated")
            items = getattr(self, "_items", None)
            if not items or not hasattr(self, "_upper_limit"):
                return True  # empty range, or still inside the constructor (properties are read there)
            try:
                ok = all(lo is None or hi is None or lo <= hi for lo, hi in items)
                lowers = [lo for lo, _ in items]
                uppers = [hi for _, hi in items]
                want_lower = None if None in lowers else min(lowers)
                want_upper = None if None in uppers else max(uppers)
                ok = ok and self._lower_limit == want_lower and self._upper_limit == want_upper
            except Exception:
                ok = False
            if not ok:
                ctx.count("L2.range-invariant.broken(soft)")
                if len(ctx.notes) < 8:
                    ctx.note("L2 range invariant broken: %s %r items=%r limits=%r" % (
                        type(self).__name__, getattr(self, "_description", None), items, (getattr(self, "_lower_limit", "?"), getattr(self, "_upper_limit", "?"))))
            return True

        try:
            icontract.invariant(items_ordered_and_limits_consistent)(ranges.Range)
            icontract.invariant(items_ordered_and_limits_consistent)(ranges.DecimalRange)
            ctx.count("L2.range-invariant.attached", 2)
        except Exception as error:  # a refactored class that icontract cannot decorate: soft monitor skipped
            ctx.note("L2 unavailable: %r" % (error,))

    def _case(self, case, nontrivial):
        if self.register_cases:
            self.ctx.case(case, nontrivial)
