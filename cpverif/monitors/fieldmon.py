"""L1 boundary monitor for <Type>FieldFormat.validated (C02, C03; reused by C04/C06/C17).

Self-contained: the declaration is captured when the field format is constructed, the data format
is read from the live DataFormat object, and every validated(cell) call is judged by M-field."""
from cpverif import attach
from cpverif.models import fieldmodel as F
from cpverif.models import rangemodel as R

BUILTIN = {
    "IntegerFieldFormat": "Integer",
    "DecimalFieldFormat": "Decimal",
    "ChoiceFieldFormat": "Choice",
    "ConstantFieldFormat": "Constant",
    "DateTimeFieldFormat": "DateTime",
    "PatternFieldFormat": "Pattern",
    "RegExFieldFormat": "RegEx",
    "TextFieldFormat": "Text",
}


def format_model(data_format):
    kind = data_format.format
    allowed = None
    rng = getattr(data_format, "allowed_characters", None)
    if rng is not None:
        text = getattr(rng, "description", None)
        allowed = R.parse_int_range(text) if text else None
    def public(name, default):
        # only public properties are read; formats without separators (excel, ods) do not have them
        try:
            value = getattr(data_format, name)
        except Exception:
            return default
        return default if value is None else value

    return {
        "kind": kind,
        "dec": public("decimal_separator", "."),
        "ths": public("thousands_separator", ""),
        "allowed": allowed,
    }


class FieldMonitor(object):
    def __init__(self, ctx, prop, nontrivial=None, register_cases=True):
        self.ctx = ctx
        self.prop = prop
        self.register_cases = register_cases
        self.nontrivial = nontrivial or (lambda decl, fmt, cell, verdict: True)
        self.last = None  # (decl, fmt, cell, verdict, outcome) of the most recent judged call

    def attach(self):
        from cutplace import errors, fields

        mon = self
        ctx = self.ctx

        def make_init(type_name):
            def make(original):
                def __init__(self, field_name, is_allowed_to_be_empty, length_text, rule, data_format, *args, **kwargs):
                    if getattr(self, "_cpverif_decl", None) is None:
                        self._cpverif_decl = {
                            "type": type_name,
                            "name": field_name,
                            "empty": bool(is_allowed_to_be_empty),
                            "length": length_text or "",
                            "rule": rule or "",
                        }
                    return original(self, field_name, is_allowed_to_be_empty, length_text, rule, data_format, *args, **kwargs)

                return __init__

            return make

        for class_name, type_name in BUILTIN.items():
            cls = getattr(fields, class_name)
            if "__init__" in cls.__dict__:
                attach.patch_method(cls, "__init__", make_init(type_name))

        def make_validated(original):
            def validated(self, value):
                decl = getattr(self, "_cpverif_decl", None)
                judged = decl is not None and type(self).__name__ in BUILTIN and isinstance(value, str)
                ctx.count("field.validated")
                outcome = None
                try:
                    result = original(self, value)
                    outcome = ("accept", result)
                except errors.FieldValueError as error:
                    outcome = ("reject", error)
                    raised = error
                except Exception as error:
                    outcome = ("crash", error)
                    raised = error
                if judged:
                    try:
                        fmt = format_model(self.data_format)
                        verdict = F.expected(decl, fmt, value)
                    except Exception as model_error:  # a crashing model never becomes a verdict
                        ctx.count("field.model-crash")
                        ctx.note("model crash: %r on %r %r" % (model_error, decl, value))
                        verdict = (F.UNJUDGED, "model crash")
                    mon.last = (decl, fmt, value, verdict, outcome)
                    if verdict[0] == F.UNJUDGED:
                        ctx.unjudged(verdict[1])
                    else:
                        ctx.count("field.validated.judged")
                        ctx.count("field.judged.%s.%s" % (decl["type"], verdict[0]))
                        case = {"decl": decl, "format": {k: v for k, v in fmt.items() if k != "allowed"},
                                "allowed": getattr(getattr(self.data_format, "allowed_characters", None), "description", None),
                                "cell": value}
                        if getattr(self, "_cpverif_note", None):
                            case["note"] = self._cpverif_note
                        if mon.register_cases:
                            ctx.case(case, mon.nontrivial(decl, fmt, value, verdict))
                        if verdict[0] == F.ACCEPT and outcome[0] == "crash":
                            from cpverif import core

                            mod, fn = core.innermost_cutplace_frame(outcome[1])
                            ctx.violation("%s:%s:crash-on-admitted-cell:%s@%s.%s" % (mon.prop, decl["type"], type(outcome[1]).__name__, mod, fn),
                                          case, "cell that the declaration admits ended in an internal error",
                                          expected=["accept", verdict[1]], observed=outcome[1])
                        elif outcome[0] == "crash":
                            ctx.count("field.validated.crash-on-rejectable-cell(C10)")
                        elif verdict[0] == F.ACCEPT and outcome[0] == "reject":
                            ctx.violation("%s:%s:wrongly-rejected" % (mon.prop, decl["type"]), case,
                                          "cell that the declaration admits was rejected",
                                          expected=["accept", verdict[1]], observed=outcome[1])
                        elif verdict[0] == F.REJECT and outcome[0] == "accept":
                            ctx.violation("%s:%s:wrongly-accepted" % (mon.prop, decl["type"]), case,
                                          "cell that must be rejected (%s) was accepted" % verdict[1],
                                          expected=["reject", verdict[1]], observed=["accept", outcome[1]])
                        elif verdict[0] == F.ACCEPT and not F.native_equal(decl, verdict[1], outcome[1]):
                            ctx.violation("%s:%s:native-value" % (mon.prop, decl["type"]), case,
                                          "accepted cell returned a value different from what the text denotes",
                                          expected=verdict[1], observed=[type(outcome[1]).__name__, outcome[1]])
                else:
                    ctx.unjudged("validated() on a field type or value outside the model")
                if outcome[0] != "accept":
                    raise raised
                return result

            return validated

        attach.patch_method(fields.AbstractFieldFormat, "validated", make_validated)
        return self
