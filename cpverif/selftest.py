"""./vcheck --setup : self-tests of the reference models (independent of cutplace) and of the
evidence schema.  Exit 0 when everything passes."""
import sys


def main():
    from cpverif.models import selftests

    failures, total = selftests.run_all()
    print("model self-tests: %d assertions, %d failures" % (total, len(failures)))
    for f in failures[:20]:
        print("  FAILED:", f)
    return 1 if failures else 0


if __name__ == "__main__":
    sys.exit(main())
