"""known_findings.json: committed, read-only at run time.  One entry per mechanism:
{"property": "C15", "key": "C15:row-runs-collapsed", "status": "open"|"fixed", "what": "...",
 "commit": "<sha of the fix: commit>" (fixed entries only)}.
Only `open` entries explain (and thereby silence) a violation; `fixed` entries are a record."""
import json
import os

from cpverif import core

PATH = os.path.join(core.HERE, "known_findings.json")


def load():
    if not os.path.exists(PATH):
        return []
    with open(PATH) as f:
        return json.load(f)["findings"]


def match(known, prop, key):
    for entry in known:
        if entry.get("status") == "open" and entry.get("property") == prop and entry.get("key") == key:
            return entry
    return None
