"""L3 reach monitor: sys.monitoring PY_START counters for every function of cutplace/*.py
(the evidence that anchored mechanisms were actually executed) - code outside cutplace is
disabled at its first event, so it costs one callback per code object."""
import os
import sys

TOOL = 3  # a free tool id (0..5); 3 and 4 are unassigned by convention
_counts = {}
_active = False
_repo_marker = os.sep + "cutplace" + os.sep


def _on_start(code, offset):
    fn = code.co_filename
    if _repo_marker not in fn or "cpverif" in fn or "site-packages" in fn:
        return sys.monitoring.DISABLE
    if code.co_name == "<module>" or (code.co_name == code.co_qualname and code.co_name[:1].isupper()):
        return sys.monitoring.DISABLE  # module and class bodies
    key = "%s.%s" % (os.path.splitext(os.path.basename(fn))[0], code.co_qualname)
    _counts[key] = _counts.get(key, 0) + 1
    return None


def start():
    global _active
    if _active or not hasattr(sys, "monitoring"):
        return
    try:
        sys.monitoring.use_tool_id(TOOL, "cpverif-reach")
    except ValueError:
        return
    sys.monitoring.register_callback(TOOL, sys.monitoring.events.PY_START, _on_start)
    sys.monitoring.set_events(TOOL, sys.monitoring.events.PY_START)
    _active = True


def pause():
    if _active:
        sys.monitoring.set_events(TOOL, 0)


def resume():
    if _active:
        sys.monitoring.set_events(TOOL, sys.monitoring.events.PY_START)


def stop():
    global _active
    if _active:
        sys.monitoring.set_events(TOOL, 0)
        sys.monitoring.register_callback(TOOL, sys.monitoring.events.PY_START, None)
        sys.monitoring.free_tool_id(TOOL)
        _active = False
    # keep the evidence file readable: only functions that ran, most frequent first
    items = sorted(_counts.items(), key=lambda kv: -kv[1])
    return dict(items[:60])
