"""python -m cpverif.runner <ID> quick|thorough | <ID> --replay <path> | --worker ...

Parent: spawns worker subprocesses (one per shard), merges their logs, classifies violations
against known_findings.json, writes evidence/<ID>.json and replays/<ID>/<digest>.json and
prints the verdict lines.  Exit 0 held / 1 violation / 2 inconclusive."""
import importlib
import json
import os
import shutil
import subprocess
import sys
import tempfile
import time

from cpverif import core, findings

PROPS = ["C%02d" % i for i in range(1, 21)]
DEFAULT_JOBS = {"quick": 6, "thorough": 16}
# generous wall-clock watchdog per shard: firing is inconclusive, never a violation
WATCHDOG_S = {"quick": 900, "thorough": 4 * 3600}


def load_driver(prop):
    return importlib.import_module("cpverif.props.%s" % prop.lower())


def run_shard(prop, tier, seed, shard, nshards, replay_case=None):
    import logging

    from cpverif import reach

    logging.disable(logging.CRITICAL)  # cutplace's command line logs every rejection

    driver = load_driver(prop)
    ctx = core.Ctx(prop, tier, seed, shard, nshards, replaying=replay_case is not None)
    ctx.tmp = tempfile.mkdtemp(prefix="cpverif_%s_" % prop)
    want_reach = getattr(driver, "REACH", True)
    if want_reach:
        reach.start()
    try:
        if replay_case is not None:
            driver.replay(ctx, replay_case)
        else:
            try:
                driver.run(ctx)
            except Exception:
                # what the monitors had seen until then still counts (a violation stays a violation); the part of the
                # workload that did not run makes the shard inconclusive, never silent
                import traceback

                ctx.inconclusive_because("shard %d of %d stopped early: %s" % (shard, nshards, traceback.format_exc()[-1200:]))
    finally:
        shutil.rmtree(ctx.tmp, ignore_errors=True)
    res = ctx.result()
    res["reach"] = reach.stop() if want_reach else {}
    return res


def worker_main(argv):
    prop, tier, seed, shard, nshards, out = argv[0], argv[1], int(argv[2]), int(argv[3]), int(argv[4]), argv[5]
    res = run_shard(prop, tier, seed, shard, nshards)
    with open(out, "w") as f:
        json.dump(res, f)
    return 0


def out_dir():
    """Where evidence/ and replays/ go: the checkout itself, unless a self-test run against a scratch copy of the
    repository (CPVERIF_REPO) redirects them with CPVERIF_OUT so that it cannot overwrite evidence about /repo."""
    return os.environ.get("CPVERIF_OUT") or core.HERE


def write_replay(prop, tier, seed, violation):
    folder = os.path.join(out_dir(), "replays", prop)
    os.makedirs(folder, exist_ok=True)
    body = dict(violation)
    body.update({"property": prop, "tier": tier, "seed": seed})
    path = os.path.join(folder, core.digest([violation["key"], violation["case"]]) + ".json")
    with open(path, "w") as f:
        json.dump(body, f, indent=1, sort_keys=True)
    return os.path.relpath(path, out_dir())


def finish(prop, tier, seed, merged, driver, wall):
    known = findings.load()
    lines = []
    new_violations = []
    known_hit = {}
    for v in merged["violations"]:
        entry = findings.match(known, prop, v["key"])
        if entry is not None:
            known_hit.setdefault(v["key"], entry)
        else:
            new_violations.append(v)
    # keys that overflowed the per-key replay cap are still in violation_keys
    for key in merged["violation_keys"]:
        entry = findings.match(known, prop, key)
        if entry is not None:
            known_hit.setdefault(key, entry)
    for key, entry in sorted(known_hit.items()):
        lines.append("KNOWN-FINDING: property=%s %s [%s, seen %d times]" % (prop, entry["what"], key, merged["violation_keys"].get(key, 0)))
    unknown_count = sum(n for k, n in merged["violation_keys"].items() if findings.match(known, prop, k) is None)
    replays = []
    for v in new_violations:
        path = write_replay(prop, tier, seed, v)
        replays.append(path)
        lines.append("VIOLATION property=%s replay=%s" % (prop, path))
        lines.append("  key=%s what=%s" % (v["key"], v["what"]))

    inconclusive = list(merged["inconclusive"])
    for counter, minimum in merged["floors"].items():
        if merged["counters"].get(counter, 0) < minimum:
            inconclusive.append("monitor '%s' observed %d events, floor is %d" % (counter, merged["counters"].get(counter, 0), minimum))
    distinct = len(merged["nontrivial"]) + merged["bulk_distinct"]
    if merged["evaluations"] < 1 or distinct < 2:
        inconclusive.append("too few judged cases (%d evaluations, %d distinct non-trivial)" % (merged["evaluations"], distinct))

    evidence = {
        "property_id": prop,
        "tier": tier,
        "seed": seed,
        "level": driver.LEVEL,
        "coverage": {
            "evaluations": merged["evaluations"],
            "distinct_nontrivial": distinct,
            "rule": driver.RULE,
            "samples": merged["samples"] or ["(no sample recorded)"],
            "monitor_event_counts": merged["counters"],
            "unjudged_by_zone": merged["unjudged"],
            "anchored_function_calls_observed": merged["reach"],
            "known_findings_encountered": {k: merged["violation_keys"].get(k, 0) for k in sorted(known_hit)},
            "unexplained_violation_keys": {k: n for k, n in merged["violation_keys"].items() if k not in known_hit},
            "notes": merged["notes"],
            "verdict": "violated" if unknown_count else ("inconclusive" if inconclusive else "held on what was observed"),
            "inconclusive_reasons": inconclusive,
        },
        "assumptions": getattr(driver, "ASSUMPTIONS", []),
        "wall_s": round(wall, 2),
        "violations": unknown_count,
    }
    if merged["exhaustive"] is not None:
        evidence["coverage"]["exhaustive"] = bool(merged["exhaustive"])
    os.makedirs(os.path.join(out_dir(), "evidence"), exist_ok=True)
    with open(os.path.join(out_dir(), "evidence", prop + ".json"), "w") as f:
        json.dump(evidence, f, indent=1, sort_keys=True)

    for line in lines:
        print(line)
    print(
        "%s %s seed=%d: %d judged cases, %d distinct non-trivial, %d unjudged, monitors=%s, %.1fs"
        % (prop, tier, seed, merged["evaluations"], distinct, sum(merged["unjudged"].values()), json.dumps(merged["counters"], sort_keys=True)[:600], wall)
    )
    if unknown_count:
        return 1
    if inconclusive:
        for reason in inconclusive:
            print("INCONCLUSIVE property=%s reason=%s" % (prop, reason))
        return 2
    return 0


def parent_main(prop, tier, seed):
    driver = load_driver(prop)
    t0 = time.time()
    shutil.rmtree(os.path.join(out_dir(), "replays", prop), ignore_errors=True)  # witnesses of earlier runs would mislead
    jobs = int(os.environ.get("VERIF_JOBS", getattr(driver, "JOBS", DEFAULT_JOBS)[tier] if isinstance(getattr(driver, "JOBS", None), dict) else DEFAULT_JOBS[tier]))
    jobs = max(1, min(jobs, os.cpu_count() or 1))
    results = []
    dead = []
    if jobs == 1:
        results.append(run_shard(prop, tier, seed, 0, 1))
    else:
        tmp = tempfile.mkdtemp(prefix="cpverif_run_")
        try:
            procs = []
            for shard in range(jobs):
                out = os.path.join(tmp, "shard%d.json" % shard)
                log = open(os.path.join(tmp, "shard%d.log" % shard), "w")
                p = subprocess.Popen(
                    [sys.executable, "-m", "cpverif.runner", "--worker", prop, tier, str(seed), str(shard), str(jobs), out],
                    stdout=log,
                    stderr=subprocess.STDOUT,
                )
                procs.append((shard, p, out, log))
            deadline = t0 + WATCHDOG_S[tier]
            for shard, p, out, log in procs:
                try:
                    p.wait(timeout=max(1, deadline - time.time()))
                except subprocess.TimeoutExpired:
                    p.kill()
                    p.wait()
                    dead.append("shard %d hit the %ds watchdog" % (shard, WATCHDOG_S[tier]))
                log.close()
                if p.returncode == 0 and os.path.exists(out):
                    with open(out) as f:
                        results.append(json.load(f))
                elif p.returncode is not None and p.returncode != 0:
                    with open(log.name) as f:
                        tail = f.read()[-1500:]
                    dead.append("shard %d ended with status %s: %s" % (shard, p.returncode, tail))
        finally:
            shutil.rmtree(tmp, ignore_errors=True)
    merged = core.merge(results)
    merged["inconclusive"].extend(dead)
    return finish(prop, tier, seed, merged, driver, time.time() - t0)


def replay_main(prop, path):
    driver = load_driver(prop)
    with open(path) as f:
        body = json.load(f)
    t0 = time.time()
    res = run_shard(prop, body.get("tier", "quick"), int(body.get("seed", 0)), 0, 1, replay_case=body["case"])
    merged = core.merge([res])
    known = findings.load()
    bad = 0
    for v in merged["violations"]:
        entry = findings.match(known, prop, v["key"])
        tag = "KNOWN-FINDING:" if entry is not None else "VIOLATION"
        if entry is None:
            bad += 1
        print("%s property=%s replay=%s" % (tag, prop, path))
        print("  key=%s what=%s" % (v["key"], v["what"]))
        print("  expected=%s" % json.dumps(v["expected"])[:1000])
        print("  observed=%s" % json.dumps(v["observed"])[:1000])
    if not merged["violations"]:
        print("replay of %s: no violation observed (%.1fs)" % (path, time.time() - t0))
    return 1 if bad else 0


def main(argv):
    if argv and argv[0] == "--worker":
        return worker_main(argv[1:])
    if len(argv) < 2 or argv[0] not in PROPS:
        print(__doc__)
        return 2
    prop = argv[0]
    if argv[1] == "--replay":
        return replay_main(prop, argv[2])
    tier = os.environ.get("VERIF_TIER") if argv[1] not in ("quick", "thorough") else argv[1]
    if tier not in ("quick", "thorough"):
        print(__doc__)
        return 2
    seed = int(os.environ.get("VERIF_SEED", "0") or 0)
    return parent_main(prop, tier, seed)


if __name__ == "__main__":
    sys.exit(main(sys.argv[1:]))
