"""Attaching monitors to the real cutplace code from outside (no edits in /repo).

* patch_method(cls, name, make_wrapper)     - rebinding on the class: every instance and caller sees it
* patch_function(func, make_wrapper)        - rebinding a module-level function in *every* loaded
                                              cutplace module that holds a reference to it (by identity)
* record_generator(log, op, gen)            - generator-aware recorder: start / yield / raise / return / close
Every patch is undone by `detach_all()`.
"""
import functools
import sys

_undo = []


def patch_method(cls, name, make_wrapper):
    original = cls.__dict__[name]
    wrapper = make_wrapper(original)
    functools.update_wrapper(wrapper, original)
    setattr(cls, name, wrapper)
    _undo.append(lambda: setattr(cls, name, original))
    return original


def patch_function(func, make_wrapper):
    wrapper = make_wrapper(func)
    functools.update_wrapper(wrapper, func)
    hits = 0
    for modname, module in list(sys.modules.items()):
        if module is None or not (modname == "cutplace" or modname.startswith("cutplace.")):
            continue
        for attr, value in list(vars(module).items()):
            if value is func:
                setattr(module, attr, wrapper)
                _undo.append(lambda m=module, a=attr: setattr(m, a, func))
                hits += 1
    return wrapper, hits


def detach_all():
    while _undo:
        _undo.pop()()


def record_generator(log, op, gen):
    """Iterate `gen`, logging what it does; behaves like gen for the consumer."""
    log.append((op, "start"))
    try:
        while True:
            try:
                item = next(gen)
            except StopIteration:
                log.append((op, "return"))
                return
            except BaseException as error:  # noqa
                log.append((op, "raise", type(error).__name__, str(error)))
                raise
            log.append((op, "yield", item))
            yield item
    except GeneratorExit:
        log.append((op, "closed"))
        gen.close()
        raise
