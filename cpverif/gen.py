"""Shared generators and the harness that drives the real reader/writer and records what happened."""
import io
import os

from cpverif import storage
from cpverif.models import fieldmodel as F
from cpverif.models import rowmodel as RM
from cpverif.props import c02

KIND_OF_STORAGE = {"delimited-stream": "delimited", "delimited-file": "delimited", "fixed-stream": "fixed",
                   "fixed-file": "fixed", "ods": "ods", "xlsx": "excel"}
STORAGES = ["delimited-stream", "delimited-file", "fixed-stream", "fixed-file", "ods", "xlsx"]


def storable(cell, kind, width=None):
    if "\r" in cell or "\n" in cell or "\x00" in cell:
        return False
    if any(ord(c) < 32 for c in cell):
        return False
    if kind == "fixed":
        return width is not None and len(cell) <= width and cell == cell.strip(" ") and cell != ""
    if kind == "ods":
        return storage.ods_encodable(cell, ())
    return True


def gen_field(rng, kind, name, dec=".", ths="", types=None, allow_empty_cells=True):
    """-> (decl, accept_pool, reject_pool); pools are cells whose verdict the model is sure of and that
    can be stored in `kind`."""
    fmt = {"kind": kind, "dec": dec, "ths": ths, "allowed": None}
    for _ in range(20):
        type_name = rng.choice(types or F.TYPES)
        length, rule, cells, flags = c02.gen_declaration(None, rng, type_name, kind, dec, ths)
        if rule != rule.strip():
            if type_name in ("RegEx", "Pattern", "DateTime"):
                continue  # the CID loader strips the rule cell, which would change the meaning
            rule = rule.strip()
        empty = rng.random() < 0.3 and type_name != "Constant"
        decl = {"name": name, "type": type_name, "empty": empty, "length": length, "rule": rule}
        width = int(length) if kind == "fixed" else None
        accept, reject = [], []
        candidates = list(cells)
        if allow_empty_cells and kind != "fixed":
            candidates.append("")
            # cells of nothing but white space are not empty: the type and rule decide them like any other cell
            candidates.extend([" ", "   ", "\t", "\u00a0"])
        for cell in candidates:
            if cell != "" and not storable(cell, kind, width):
                continue
            verdict = F.expected(decl, fmt, cell)
            if verdict[0] == F.ACCEPT and cell not in accept:
                accept.append(cell)
            elif verdict[0] == F.REJECT and cell not in reject:
                reject.append(cell)
        if accept and (reject or type_name == "Text"):
            return decl, accept, reject
    decl = {"name": name, "type": "Text", "empty": True, "length": "5" if kind == "fixed" else "", "rule": ""}
    return decl, ["a", "bb"], []


def load_cid(model, name="<cid>"):
    from cutplace import interface

    cid = interface.Cid()
    cid.read(name, model.cid_rows())
    return cid


def make_source(ctx, model, table, store, tag="data"):
    """Writes `table` (list of rows of str) in storage `store`; returns (source, raw_rows, input_name)."""
    if store == "delimited-stream":
        text = storage.delimited_text(table, model.quote, model.escape)
        return io.StringIO(text, newline=""), storage.delimited_raw_rows(table), "<io>"
    if store == "delimited-file":
        path = os.path.join(ctx.tmp, "%s.csv" % tag)
        with open(path, "w", encoding="utf-8", newline="") as f:
            f.write(storage.delimited_text(table, model.quote, model.escape))
        return path, storage.delimited_raw_rows(table), os.path.basename(path)
    if store in ("fixed-stream", "fixed-file"):
        widths = model.widths()
        delimiter = {"lf": "\n", "cr": "\r", "crlf": "\r\n", None: "\n", "any": "\n", "none": ""}[model.line_delimiter]
        text = storage.fixed_text(table, widths, delimiter)
        raw = [[cell.ljust(w) for cell, w in zip(row, widths)] for row in table]
        if store == "fixed-stream":
            return io.StringIO(text, newline=""), raw, "<io>"
        path = os.path.join(ctx.tmp, "%s.txt" % tag)
        with open(path, "w", encoding="utf-8", newline="") as f:
            f.write(text)
        return path, raw, os.path.basename(path)
    if store == "ods":
        path = os.path.join(ctx.tmp, "%s.ods" % tag)
        storage.write_ods(path, [table])
        return path, [list(r) for r in table], os.path.basename(path)
    if store == "xlsx":
        path = os.path.join(ctx.tmp, "%s.xlsx" % tag)
        storage.write_xlsx(path, [table])
        return path, storage.xlsx_raw_rows(table), os.path.basename(path)
    raise ValueError(store)


class Observation(object):
    """What one read of a source produced."""

    def __init__(self):
        self.items = []  # ("row", row) | ("error", error_object, snapshot)
        self.raised = None
        self.end_error = None  # error raised while closing
        self.accepted = None
        self.rejected = None
        self.completed = False


def snapshot(error):
    loc = error.location
    snap = {"type": type(error).__name__, "text": str(error), "message": getattr(error, "message", None)}
    if loc is not None:
        snap["line"] = loc.line
        try:
            snap["cell"] = loc.cell
        except AssertionError:
            snap["cell"] = None
        snap["loc_text"] = str(loc)
    see = getattr(error, "see_also_location", None)
    if see is not None:
        snap["see_line"] = see.line
    return snap


def read_with_reader(cid, source, mode="yield", until=None, stop_after=None, reader=None):
    """Drives cutplace.Reader explicitly so that row errors, the end-of-data verdict and the counters
    are observed separately. A reader created earlier by the caller (for the same source and mode) can be passed."""
    from cutplace import errors, validio

    obs = Observation()
    if reader is None:
        reader = validio.Reader(cid, source, on_error=mode, validate_until=until)
    try:
        try:
            for item in reader.rows():
                if isinstance(item, Exception):
                    obs.items.append(("error", item, snapshot(item)))
                else:
                    obs.items.append(("row", item))
                if stop_after is not None and len(obs.items) >= stop_after:
                    break
            else:
                obs.completed = True
        except errors.CutplaceError as error:
            obs.raised = error
        obs.accepted = reader.accepted_rows_count
        obs.rejected = reader.rejected_rows_count
    finally:
        try:
            reader.close()
        except errors.CutplaceError as error:
            obs.end_error = error
    return obs


def read_with_rows(cid, source, mode="yield", until=None):
    """Drives cutplace.rows(): the reader is used as context manager inside the generator, so row errors, container
    errors and the end-of-data verdict all arrive as 'the exception that ended the iteration'."""
    import cutplace
    from cutplace import errors

    obs = Observation()
    try:
        for item in cutplace.rows(cid, source, on_error=mode, validate_until=until):
            if isinstance(item, Exception):
                obs.items.append(("error", item, snapshot(item)))
            else:
                obs.items.append(("row", item))
        obs.completed = True
    except errors.CutplaceError as error:
        obs.raised = error
    return obs


def describe_items(items):
    out = []
    for it in items:
        if it[0] == "row":
            out.append(["row", it[1]])
        else:
            out.append(["error", it[2]])
    return out
