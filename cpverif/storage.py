"""Independent producers of data containers (nothing here uses cutplace):

* write_ods(path, sheets, features, encoding)  - zipfile + hand-written ODF XML with switches
* write_xlsx(path, sheets)                     - xlsxwriter driven directly (cutplace reads with xlrd)
* delimited_text(rows) / fixed_text(rows, widths, delimiter)
* expected raw rows per storage (M-raw)
"""
import csv
import io
import re
import zipfile
from xml.sax.saxutils import escape

ODS_NS = (
    'xmlns:office="urn:oasis:names:tc:opendocument:xmlns:office:1.0" '
    'xmlns:table="urn:oasis:names:tc:opendocument:xmlns:table:1.0" '
    'xmlns:text="urn:oasis:names:tc:opendocument:xmlns:text:1.0" '
    'xmlns:dc="http://purl.org/dc/elements/1.1/"'
)

ALL_ODS_FEATURES = ("colruns", "rowruns", "s", "tab", "linebreak", "spans", "paragraphs")
# structural encodings of the same logical table: the first row(s) marked as rows to repeat when printing, rows collected
# in (nested) outline groups, cells merged with the empty cells to their right, cells carrying an annotation (comment)
STRUCTURE_ODS_FEATURES = ("headerrows", "rowgroups", "covered", "annotations")


def _xml_text(text, features, rng=None):
    """ODF markup of a paragraph's text.  Per ODF 1.2 (6.1.2) leading/trailing white space of a
    paragraph is dropped and runs collapse to one blank, so blanks beyond a single inner one are
    written as text:s, tabs as text:tab, line breaks as text:line-break.  When a feature is off the
    generators never produce text that would need it (see ods_encodable)."""
    if "spans" in features and len(text) % 2 == 1 and any(c in " \t\n" for c in text):
        # every word in a span of its own (what a producer writes for alternating character styles): the white space
        # between two spans - a literal blank, or elements - belongs to the text like the words do
        out = []
        parts = re.findall(r"[^ \t\n]+| +|\t|\n", text)
        for k, part in enumerate(parts):
            if part == "\t":
                out.append("<text:tab/>")
            elif part == "\n":
                out.append("<text:line-break/>")
            elif part[0] == " ":
                between_words = 0 < k < len(parts) - 1 and parts[k - 1][0] not in " \t\n" and parts[k + 1][0] not in " \t\n"
                if between_words:
                    out.append(" " + ('<text:s text:c="%d"/>' % (len(part) - 1) if len(part) > 2 else "<text:s/>" if len(part) == 2 else ""))
                else:
                    out.append('<text:s text:c="%d"/>' % len(part) if len(part) > 1 else "<text:s/>")
            else:
                out.append('<text:span text:style-name="T1">%s</text:span>' % escape(part))
        return "".join(out)
    out = []
    i = 0
    n = len(text)
    span_at = None
    span_end = None
    if "spans" in features and n >= 2:
        # the span starts at the first and ends at the last boundary between two non-white-space characters (or at the
        # end of the text), so that it regularly encloses blanks, tabs and line breaks written as ODF elements
        boundaries = [k for k in range(1, n) if text[k - 1] not in " \t\n" and text[k] not in " \t\n"]
        if boundaries:
            span_at = boundaries[0]
            span_end = boundaries[-1] if len(boundaries) > 1 and boundaries[-1] > span_at else n
        elif text[0] not in " \t\n" and text[-1] not in " \t\n":
            span_at, span_end = 0, n
    opened = False

    def s_element(count):
        return '<text:s text:c="%d"/>' % count if count > 1 else "<text:s/>"

    while i < n:
        if opened and i == span_end:
            out.append("</text:span>")
            opened = False
        if span_at is not None and i == span_at and not opened and span_end != span_at:
            out.append('<text:span text:style-name="T1">')
            opened = True
        c = text[i]
        if c == " ":
            j = i
            while j < n and text[j] == " ":
                j += 1
            run = j - i
            internal = i > 0 and j < n and text[i - 1] not in "\t\n" and text[j] not in "\t\n"
            if internal and run == 1 and "s" not in features:
                out.append(" ")
            elif internal and run > 1:
                out.append(" " + s_element(run - 1))
            else:
                out.append(s_element(run))
            i = j
            continue
        if c == "\t":
            out.append("<text:tab/>")
        elif c == "\n":
            out.append("<text:line-break/>")
        else:
            out.append(escape(c))
        i += 1
    if opened:
        out.append("</text:span>")
    return "".join(out)


def ods_cell_xml(value, features):
    if value == "":
        return None  # empty cell
    if "paragraphs" in features and "\n" in value:
        paragraphs = value.split("\n")
        inner = "".join("<text:p>%s</text:p>" % _xml_text(p, features) if p != "" else "<text:p/>" for p in paragraphs)
    else:
        inner = "<text:p>%s</text:p>" % _xml_text(value, features)
    return inner


def ods_content(sheets, features=(), encoding="UTF-8", cell_repeat_attr=None, row_repeat_attr=None):
    """sheets: list of tables (list of rows of str).  cell_repeat_attr/row_repeat_attr override the
    repeat-count text of the first run (fault injection: '0', '-1', 'x', '')."""
    parts = ['<?xml version="1.0" encoding="%s"?>' % encoding]
    parts.append('<office:document-content %s office:version="1.2"><office:body><office:spreadsheet>' % ODS_NS)
    first_cell_run = [cell_repeat_attr]
    first_row_run = [row_repeat_attr]
    for index, table in enumerate(sheets):
        parts.append('<table:table table:name="Sheet%d">' % (index + 1))
        width = max([len(r) for r in table] + [1])
        parts.append('<table:table-column table:number-columns-repeated="%d"/>' % width)
        row_xmls = []
        for row in table:
            cells = []
            i = 0
            while i < len(row):
                j = i + 1
                if "colruns" in features or first_cell_run[0] is not None:
                    while j < len(row) and row[j] == row[i]:
                        j += 1
                run = j - i
                inner = ods_cell_xml(row[i], features)
                attr = ""
                if first_cell_run[0] is not None:
                    attr = ' table:number-columns-repeated="%s"' % first_cell_run[0]
                    first_cell_run[0] = None
                elif run > 1:
                    attr = ' table:number-columns-repeated="%d"' % run
                covered = 0
                if "covered" in features and run == 1 and attr == "" and row[i] != "":
                    # merge the cell with the empty cells to its right: they become covered cells
                    while j < len(row) and row[j] == "":
                        j += 1
                    covered = j - i - 1
                    if covered:
                        attr = ' table:number-columns-spanned="%d" table:number-rows-spanned="1"' % (covered + 1)
                annotation = ""
                if "annotations" in features and row[i] != "" and (i + len(row)) % 3 == 0:
                    annotation = '<office:annotation><dc:date>2020-01-01T00:00:00</dc:date><text:p>a comment</text:p></office:annotation>'
                if inner is None:
                    cells.append("<table:table-cell%s/>" % attr if not annotation else "<table:table-cell%s>%s</table:table-cell>" % (attr, annotation))
                else:
                    cells.append('<table:table-cell office:value-type="string"%s>%s%s</table:table-cell>' % (attr, annotation, inner))
                if covered == 1:
                    cells.append("<table:covered-table-cell/>")
                elif covered > 1:
                    cells.append('<table:covered-table-cell table:number-columns-repeated="%d"/>' % covered)
                i = j
            row_xmls.append("".join(cells))
        row_parts = []  # (index of the first logical row, xml)
        i = 0
        while i < len(row_xmls):
            j = i + 1
            if "rowruns" in features or first_row_run[0] is not None:
                while j < len(row_xmls) and table[j] == table[i]:
                    j += 1
            run = j - i
            attr = ""
            if first_row_run[0] is not None:
                attr = ' table:number-rows-repeated="%s"' % first_row_run[0]
                first_row_run[0] = None
            elif run > 1:
                attr = ' table:number-rows-repeated="%d"' % run
            if row_xmls[i] == "":
                row_parts.append("<table:table-row%s/>" % attr)
            else:
                row_parts.append("<table:table-row%s>%s</table:table-row>" % (attr, row_xmls[i]))
            i = j
        if "headerrows" in features and row_parts:
            # the first row element holds the rows to repeat on every printed page
            row_parts[0] = "<table:table-header-rows>%s</table:table-header-rows>" % row_parts[0]
        if "rowgroups" in features and len(row_parts) >= 2:
            # an outline group around the elements after the first one, with a nested group around the last one
            inner_group = '<table:table-row-group table:display="false">%s</table:table-row-group>' % row_parts[-1] if len(row_parts) >= 3 else row_parts[-1]
            row_parts = [row_parts[0], "<table:table-row-group>%s%s</table:table-row-group>" % ("".join(row_parts[1:-1]), inner_group)]
        parts.extend(row_parts)
        parts.append("</table:table>")
    parts.append("</office:spreadsheet></office:body></office:document-content>")
    return "".join(parts)


def write_ods(path, sheets, features=(), encoding="UTF-8", stored=False, **kw):
    xml = ods_content(sheets, features, encoding, **kw)
    data = xml.encode({"UTF-8": "utf-8", "UTF-16": "utf-16", "ISO-8859-1": "latin-1"}.get(encoding, encoding))
    write_ods_raw(path, data, stored=stored)
    return data


def write_ods_raw(path, content_xml_bytes, with_content=True, stored=False):
    def entry(name, compress=True):
        # fixed timestamps: the archive's bytes depend on the contents only, so damaged-container cases replay exactly
        info = zipfile.ZipInfo(name, date_time=(2020, 1, 1, 0, 0, 0))
        info.compress_type = zipfile.ZIP_DEFLATED if compress else zipfile.ZIP_STORED
        return info

    with zipfile.ZipFile(path, "w", zipfile.ZIP_DEFLATED) as z:
        z.writestr(entry("mimetype", compress=False), "application/vnd.oasis.opendocument.spreadsheet")
        if with_content:
            z.writestr(entry("content.xml", compress=not stored), content_xml_bytes)
        z.writestr(entry("META-INF/manifest.xml"), '<?xml version="1.0"?><manifest:manifest xmlns:manifest="urn:oasis:names:tc:opendocument:xmlns:manifest:1.0"/>')


def ods_encodable(value, features):
    """Can `value` be written with this feature set without loss?"""
    if "\t" in value and "tab" not in features:
        return False
    if "s" not in features:
        # without text:s only single inner blanks (not next to a tab / line break) survive
        padded = "\n" + value + "\n"
        for k, c in enumerate(padded):
            if c == " " and (padded[k - 1] in " \t\n" or padded[k + 1] in " \t\n"):
                return False
    if "\n" in value and not ("linebreak" in features or "paragraphs" in features):
        return False
    if any(ord(c) < 32 and c not in "\t\n" for c in value):
        return False
    if any(0xD800 <= ord(c) <= 0xDFFF or ord(c) in (0xFFFE, 0xFFFF) for c in value):
        return False
    return True


# ---------------------------------------------------------------------------------- xlsx
def write_xlsx(path, sheets, typed=False, date_1904=None, hidden=()):
    """sheets: list of tables; cells are str (written with write_string) unless typed=True, then
    cells are ('kind', value) tuples handled by the caller-provided kinds below."""
    import xlsxwriter

    if date_1904 is None:
        # workbooks whose dates all lie after 1904-01-02 alternate between the two date systems of the format (the
        # system is a property of the workbook: a date cell means the same day in either)
        cells = [cell for table in sheets for row in table for cell in row if isinstance(cell, tuple)]
        dates = [value for kind, value in cells if kind == "datetime"]
        date_1904 = typed and bool(dates) and all(value.year >= 1905 for value in dates) and len(cells) % 2 == 1
    book = xlsxwriter.Workbook(path, {"date_1904": True} if date_1904 else {})
    # fixed creation date: the workbook's bytes depend on the contents only (damaged-container cases replay exactly)
    book.set_properties({"created": __import__("datetime").datetime(2020, 1, 1)})
    date_fmt = book.add_format({"num_format": "yyyy-mm-dd hh:mm:ss"})
    time_fmt = book.add_format({"num_format": "hh:mm:ss"})
    made = []
    for table in sheets:
        sheet = book.add_worksheet()
        made.append(sheet)
        for y, row in enumerate(table):
            for x, cell in enumerate(row):
                if not typed or isinstance(cell, str):
                    if cell != "":
                        sheet.write_string(y, x, cell)
                else:
                    kind, value = cell
                    if kind == "number":
                        sheet.write_number(y, x, value)
                    elif kind == "bool":
                        sheet.write_boolean(y, x, value)
                    elif kind == "datetime":
                        sheet.write_datetime(y, x, value, date_fmt)
                    elif kind == "time":
                        sheet.write_datetime(y, x, value, time_fmt)
                    elif kind == "string":
                        if value != "":
                            sheet.write_string(y, x, value)
                    else:
                        raise ValueError(kind)
    if hidden:
        # sheets the application does not show as tabs (state="hidden"): they keep their place in the workbook
        visible = [i for i in range(len(made)) if i not in hidden]
        made[visible[0]].activate()
        made[visible[0]].set_first_sheet()
        for i in hidden:
            made[i].hide()
    book.close()


def xlsx_raw_rows(table):
    """What a reader must return for a sheet written by write_xlsx from str cells: empty cells are not
    stored, the sheet's extent is the bounding box of the stored cells, rows are padded to its width."""
    nrows = 0
    ncols = 0
    for y, row in enumerate(table):
        for x, cell in enumerate(row):
            if cell != "":
                nrows = max(nrows, y + 1)
                ncols = max(ncols, x + 1)
    out = []
    for y in range(nrows):
        row = table[y]
        out.append([(row[x] if x < len(row) else "") for x in range(ncols)])
    return out


# ---------------------------------------------------------------------------------- text formats
def delimited_text(rows, quote='"', escape='"'):
    """CID dialect: ',' delimiter, CRLF; default '"' quote with doubled quotes; another quote character and/or an
    escape character different from the quote character on request (written by Python's csv.writer)."""
    out = io.StringIO()
    if escape == quote:
        csv.writer(out, quotechar=quote, doublequote=True).writerows(rows)
    else:
        csv.writer(out, quotechar=quote, doublequote=False, escapechar=escape).writerows(rows)
    return out.getvalue()


def delimited_raw_rows(rows):
    return [list(r) for r in rows]


def fixed_text(rows, widths, delimiter="\n"):
    lines = []
    for row in rows:
        assert len(row) == len(widths)
        lines.append("".join(cell.ljust(w) for cell, w in zip(row, widths)))
    return "".join(line + (delimiter or "") for line in lines)
