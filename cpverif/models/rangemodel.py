"""M-range: independent parser and membership model for the documented range grammar.
Imports nothing from cutplace and does not use Python's tokenizer.

parse_int_range(text)  -> list of (lower|None, upper|None)  or  OUTSIDE (not in the judged grammar)
parse_dec_range(text)  -> same with Decimal limits
"""
import re
from decimal import Decimal

OUTSIDE = "outside-grammar"

SYMBOLS = {"cr": 13, "ff": 12, "lf": 10, "tab": 9, "vt": 11}
SEPARATORS = ("...", "…", ":")

_ESCAPES = {"t": 9, "n": 10, "r": 13, "\\": 92, "'": 39, '"': 34, "a": 7, "b": 8, "f": 12, "v": 11, "0": 0}

# decimal integers may carry leading zeros ("01...12" for months)
_INT_RE = re.compile(r"-?(?:0[xX][0-9a-fA-F]+|[0-9]+)")
_DEC_RE = re.compile(r"-?(?:0|[1-9][0-9]*)(?:\.[0-9]+)?")
_NAME_RE = re.compile(r"[A-Za-z]+")


def _scan_string(text, pos):
    """Quoted single character or single escape starting at text[pos]; returns (code, newpos) or None."""
    quote = text[pos]
    i = pos + 1
    if i >= len(text):
        return None
    if text[i] == "\\":
        if i + 1 >= len(text):
            return None
        e = text[i + 1]
        if e == "x":
            hexpart = text[i + 2 : i + 4]
            if len(hexpart) == 2 and all(c in "0123456789abcdefABCDEF" for c in hexpart):
                code, i = int(hexpart, 16), i + 4
            else:
                return None
        elif e == "u":
            hexpart = text[i + 2 : i + 6]
            if len(hexpart) == 4 and all(c in "0123456789abcdefABCDEF" for c in hexpart):
                code, i = int(hexpart, 16), i + 6
                if 0xD800 <= code <= 0xDFFF:
                    return None
            else:
                return None
        elif e in _ESCAPES:
            code, i = _ESCAPES[e], i + 2
        else:
            return None
    else:
        c = text[i]
        if c == quote or c in "\r\n":
            return None
        code, i = ord(c), i + 1
    if i < len(text) and text[i] == quote:
        return code, i + 1
    return None


def _tokens(text, decimal):
    """Token list [(kind, value)] with kind in {'limit', 'sep', 'comma'} or None when outside the grammar."""
    out = []
    i = 0
    n = len(text)
    number = _DEC_RE if decimal else _INT_RE
    while i < n:
        c = text[i]
        if c == " ":
            i += 1
            continue
        if c == ",":
            out.append(("comma", None))
            i += 1
            continue
        if text.startswith("...", i):
            # four or more dots are ambiguous
            if text.startswith("....", i):
                return None
            out.append(("sep", None))
            i += 3
            continue
        if c == "…" or c == ":":
            out.append(("sep", None))
            i += 1
            continue
        if c in "uU" and i + 1 < n and text[i + 1] in "'\"" and not decimal:
            # the documented spelling u"\u00dc": a text literal marked as Unicode means the same as without the mark
            i += 1
            c = text[i]
        if c in "'\"":
            if decimal:
                return None
            got = _scan_string(text, i)
            if got is None:
                return None
            out.append(("limit", got[0]))
            i = got[1]
            continue
        m = number.match(text, i)
        if m and m.end() > i:
            j = m.end()
            # a number must not run into further word characters or dots ("12ab", "0x", "1.5.2", "1_0")
            if j < n and (text[j].isalnum() or text[j] == "_" or (text[j] == "." and not text.startswith("...", j))):
                return None
            s = m.group(0)
            if decimal:
                out.append(("limit", Decimal(s)))
            else:
                out.append(("limit", int(s, 0) if s.lstrip("-")[:2].lower() == "0x" else int(s, 10)))
            i = j
            continue
        m = _NAME_RE.match(text, i)
        if m and not decimal:
            j = m.end()
            word = m.group(0).lower()
            if word not in SYMBOLS or (j < n and (text[j].isalnum() or text[j] == "_")):
                return None
            # a name directly followed by a quote is a string prefix (u'x'): not in the grammar
            if j < n and text[j] in "'\"":
                return None
            out.append(("limit", SYMBOLS[word]))
            i = j
            continue
        return None
    return out


def _parse(text, decimal):
    if text is None or text.strip(" ") == "":
        return OUTSIDE
    if text != text.strip(" \t") and False:
        return OUTSIDE
    if any(ch in text for ch in "\t\r\n\f\v"):
        return OUTSIDE
    toks = _tokens(text, decimal)
    if toks is None:
        return OUTSIDE
    # split at commas
    items = []
    current = []
    for t in toks + [("comma", None)]:
        if t[0] == "comma":
            kinds = [k for k, _ in current]
            vals = [v for k, v in current if k == "limit"]
            if kinds == ["limit"]:
                items.append((vals[0], vals[0]))
            elif kinds == ["limit", "sep", "limit"]:
                if vals[0] > vals[1]:
                    return OUTSIDE
                items.append((vals[0], vals[1]))
            elif kinds == ["limit", "sep"]:
                items.append((vals[0], None))
            elif kinds == ["sep", "limit"]:
                items.append((None, vals[0]))
            else:
                return OUTSIDE  # empty items, "...", two limits without separator ...
            current = []
        else:
            current.append(t)
    # overlapping items are outside the judged grammar
    for a in range(len(items)):
        for b in range(a + 1, len(items)):
            if overlap(items[a], items[b]):
                return OUTSIDE
    return items


def overlap(x, y):
    xl, xu = x
    yl, yu = y
    lo = xl if yl is None else (yl if xl is None else max(xl, yl))
    hi = xu if yu is None else (yu if xu is None else min(xu, yu))
    if lo is None or hi is None:
        return True
    return lo <= hi


def parse_int_range(text):
    return _parse(text, False)


def parse_dec_range(text):
    return _parse(text, True)


def contains(items, value):
    for lower, upper in items:
        if (lower is None or value >= lower) and (upper is None or value <= upper):
            return True
    return False


def limits(items):
    lowers = [l for l, _ in items]
    uppers = [u for _, u in items]
    lower = None if any(l is None for l in lowers) else min(lowers)
    upper = None if any(u is None for u in uppers) else max(uppers)
    return lower, upper


def near_limit(items, value, unit=1):
    for lower, upper in items:
        for lim in (lower, upper):
            if lim is not None and abs(value - lim) <= unit:
                return True
    return False
