"""M-field: independent model of the built-in field types and the guards in front of them.

expected(decl, fmt, cell) -> ("accept", native) | ("reject", reason) | ("unjudged", zone)

decl = dict(type=..., empty=bool, length=<length text>, rule=<rule text>)
fmt  = dict(kind="delimited"|"fixed"|"excel"|"ods", dec=".", ths="", allowed=<items list>|None)

Imports nothing from cutplace.  Python's int(), Decimal() and datetime are part of the trusted base.
"""
import datetime
import re
from decimal import Decimal, InvalidOperation

from cpverif.models import rangemodel as R

ACCEPT, REJECT, UNJUDGED = "accept", "reject", "unjudged"

EMPTY_VALUE = {
    "Integer": None,
    "Decimal": None,
    "DateTime": None,
    "Choice": "",
    "Constant": "",
    "RegEx": "",
    "Pattern": "",
    "Text": "",
}
TYPES = sorted(EMPTY_VALUE)

MIN_INT32, MAX_INT32 = -(2**31), 2**31 - 1
MAX_DECIMAL = Decimal("9999999999999999999.999999999999")
MIN_DECIMAL = Decimal("-9999999999999999999.999999999999")  # not -MAX_DECIMAL: unary minus rounds to context precision


# ---------------------------------------------------------------------------------- length
def length_items(decl):
    """Parsed length declaration: None (no declaration), list of items, or R.OUTSIDE."""
    text = decl.get("length") or ""
    if text.strip() == "":
        return None
    if decl["type"] == "Decimal":
        items = R.parse_dec_range(text)
    else:
        items = R.parse_int_range(text)
    return items


def int_length_ok(items, i):
    """M-length->int: the canonical text of i has a length inside the length items."""
    return R.contains(items, len(str(i)))


# ---------------------------------------------------------------------------------- guards
def guard(decl, fmt, cell):
    """Returns ("empty", verdict...) / ("reject", reason) / ("unjudged", zone) / ("value", stripped)."""
    fixed = fmt["kind"] == "fixed"
    allowed = fmt.get("allowed")
    if allowed is R.OUTSIDE:
        return (UNJUDGED, "allowed-characters range outside the range grammar")
    lengths = length_items(decl)
    if lengths is R.OUTSIDE:
        return (UNJUDGED, "length declaration outside the range grammar")
    is_empty = cell == "" or (fixed and cell.strip(" ") == "")
    if is_empty:
        if cell != "":
            # blank-only cell of fixed-width data
            # (a blank-only cell is the empty cell of fixed-width data whether or not blank is an allowed character)
            if lengths is not None and len(cell) > width(lengths):
                return (UNJUDGED, "fixed blank-only cell longer than the field width")
        if decl["empty"]:
            return ("empty", EMPTY_VALUE.get(decl["type"], None))
        return (REJECT, "empty cell for a field that must not be empty")
    # (only blanks are padding: tabs, no-break spaces and the like are characters of the value)
    # allowed characters
    if allowed is not None:
        for position, ch in enumerate(cell):
            if not R.contains(allowed, ord(ch)):
                return (REJECT, "disallowed character at position %d" % position)
    # length
    if lengths is not None:
        if fixed:
            if len(cell) > width(lengths):
                return (REJECT, "longer than the fixed width")
        elif not R.contains(lengths, len(cell)):
            return (REJECT, "length outside the declared length")
    return ("value", cell.strip(" ") if fixed else cell)


def width(lengths):
    lower, upper = R.limits(lengths)
    return lower


# ---------------------------------------------------------------------------------- Integer
_CANONICAL_INT = re.compile(r"-?(?:0|[1-9][0-9]*)\Z")


def integer_range(decl, fmt):
    """items list describing the valid integers, None for "any", or R.OUTSIDE."""
    rule = (decl.get("rule") or "").strip()
    if rule:
        return R.parse_int_range(rule)
    lengths = length_items(decl)
    if lengths is R.OUTSIDE:
        return R.OUTSIDE
    if lengths is not None:
        if fmt["kind"] == "fixed":
            return ("bylength", [(1, width(lengths))])
        return ("bylength", lengths)
    return [(MIN_INT32, MAX_INT32)]


def expect_integer(decl, fmt, value):
    valid = integer_range(decl, fmt)
    if valid is R.OUTSIDE:
        return (UNJUDGED, "Integer rule/length outside the range grammar")
    if not _CANONICAL_INT.match(value) or value == "-0":
        try:
            int(value)
        except ValueError:
            return (REJECT, "not an integer literal")
        return (UNJUDGED, "non-canonical integer spelling")
    i = int(value)
    if isinstance(valid, tuple):
        items = valid[1]
        # lengths with a lower limit below 0 or upper limit below 1 are refused at declaration
        ok = int_length_ok(items, i)
    else:
        ok = R.contains(valid, i)
    return (ACCEPT, i) if ok else (REJECT, "integer outside the valid range")


# ---------------------------------------------------------------------------------- Decimal
_CANONICAL_DEC = re.compile(r"-?[0-9]+(?:\.[0-9]+)?\Z")


def expect_decimal(decl, fmt, value):
    dec = fmt.get("dec") or "."
    ths = fmt.get("ths") or ""
    rule = (decl.get("rule") or "").strip()
    if rule:
        valid = R.parse_dec_range(rule)
        if valid is R.OUTSIDE:
            return (UNJUDGED, "Decimal rule outside the range grammar")
    else:
        valid = [(MIN_DECIMAL, MAX_DECIMAL)]
    translated = ""
    seen_dec = False
    grouping_ok = True
    for ch in value:
        if ch == dec:
            if seen_dec:
                return (REJECT, "second decimal separator")
            seen_dec = True
            translated += "."
        elif ths and ch == ths:
            if seen_dec:
                return (REJECT, "thousands separator after the decimal separator")
        elif ch == ".":
            # a dot that is neither the format's decimal nor its thousands separator
            return (REJECT, "dot although the decimal separator is %r" % dec)
        else:
            translated += ch
    if ths and ths in value:
        integer_part = value.split(dec)[0]
        if not re.match(r"-?[0-9]{1,3}(?:%s[0-9]{3})+\Z" % re.escape(ths), integer_part):
            grouping_ok = False
    if re.match(r"\s*[+-]?(inf|infinity|s?nan[0-9]*)\s*\Z", translated, re.I):
        # spellings Python's Decimal() takes for values that are no numbers: inside no range, not even an open one
        return (REJECT, "not a finite number")
    if not _CANONICAL_DEC.match(translated):
        try:
            Decimal(translated)
        except InvalidOperation:
            return (REJECT, "not a decimal number")
        return (UNJUDGED, "non-canonical decimal spelling")
    if not grouping_ok:
        return (UNJUDGED, "thousands separators not in groups of three")
    d = Decimal(translated)
    return (ACCEPT, d) if R.contains(valid, d) else (REJECT, "decimal outside the valid range")


# ---------------------------------------------------------------------------------- Choice / Constant
_BARE = re.compile(r"[A-Za-z_][A-Za-z0-9_]*|0|[1-9][0-9]*")


def choice_items(rule):
    """Items of a choice rule, or None when the rule is outside the judged grammar."""
    items = []
    i, n = 0, len(rule)
    expect_item = True
    if rule.strip(" ") == "":
        return []
    if rule != rule.lstrip(" ") and False:
        return None
    while True:
        while i < n and rule[i] == " ":
            i += 1
        if i >= n:
            return None if expect_item else items
        c = rule[i]
        if expect_item:
            if c in "'\"":
                j = i + 1
                while j < n and rule[j] != c:
                    if rule[j] in "\\\r\n":
                        return None
                    j += 1
                if j >= n:
                    return None
                text = rule[i + 1 : j]
                if text == "" or rule.startswith(c * 3, i):
                    return None
                items.append(text)
                i = j + 1
            else:
                m = _BARE.match(rule, i)
                if not m:
                    return None
                j = m.end()
                if j < n and rule[j] not in " ,":
                    return None
                items.append(m.group(0))
                i = j
            expect_item = False
        else:
            if c != ",":
                return None
            i += 1
            expect_item = True


def expect_choice(decl, fmt, value):
    items = choice_items(decl.get("rule") or "")
    if items is None:
        return (UNJUDGED, "Choice rule outside the judged grammar")
    return (ACCEPT, value) if value in items else (REJECT, "not one of the choices")


def expect_constant(decl, fmt, value):
    items = choice_items(decl.get("rule") or "")
    if items is None or len(items) > 1:
        return (UNJUDGED, "Constant rule outside the judged grammar")
    constant = items[0] if items else ""
    return (ACCEPT, value) if value == constant else (REJECT, "differs from the constant")


# ---------------------------------------------------------------------------------- DateTime
_DT_TOKENS = ["YYYY", "DD", "MM", "YY", "hh", "mm", "ss"]


EXCEL_MIDNIGHT = " 00:00:00"  # what a date-only Excel cell renders with; the documented rule for such cells ends with it


def parse_layout(rule):
    """[(kind, text)] with kind 'tok' or 'lit'; None when outside the judged grammar."""
    if rule.endswith(EXCEL_MIDNIGHT) and not any(t in rule[: -len(EXCEL_MIDNIGHT)] for t in ("hh", "mm", "ss")):
        # the documented layout for Excel dates: a date layout followed by the literal text " 00:00:00"
        head = parse_layout(rule[: -len(EXCEL_MIDNIGHT)])
        return None if head is None else head + [("lit", c) for c in EXCEL_MIDNIGHT]
    out = []
    i, n = 0, len(rule)
    seen = set()
    while i < n:
        for tok in _DT_TOKENS:
            if rule.startswith(tok, i):
                if tok in seen or (tok in ("YY", "YYYY") and ({"YY", "YYYY"} & seen)):
                    return None
                seen.add(tok)
                out.append(("tok", tok))
                i += len(tok)
                break
        else:
            c = rule[i]
            if c.isalnum() or c in "\r\n\t\f\v" or ord(c) > 126:
                return None  # letters/digits as literals are outside the judged layouts
            out.append(("lit", c))
            i += 1
    if not seen:
        return None
    # two adjacent tokens without separator make digit attribution ambiguous for unpadded cells only; allowed
    return out


def expect_datetime(decl, fmt, value):
    layout = parse_layout(decl.get("rule") or "")
    if layout is None:
        return (UNJUDGED, "DateTime layout outside the judged grammar")
    kinds = [t for k, t in layout if k == "tok"]
    has_time = any(t in kinds for t in ("hh", "mm", "ss"))
    if fmt["kind"] == "excel" and not has_time and value.endswith(EXCEL_MIDNIGHT) and not (decl.get("rule") or "").endswith(EXCEL_MIDNIGHT):
        value = value[: -len(EXCEL_MIDNIGHT)]
    # strict parse
    pos = 0
    got = {}
    strict = True
    for kind, text in layout:
        if kind == "lit":
            if text == " ":
                if not value.startswith(" ", pos):
                    strict = False
                    break
                pos += 1
            elif value.startswith(text, pos):
                pos += 1
            else:
                strict = False
                break
        else:
            width_ = 4 if text == "YYYY" else 2
            part = value[pos : pos + width_]
            if len(part) != width_ or not all(c in "0123456789" for c in part):
                strict = False
                break
            got[text] = int(part)
            pos += width_
    if strict and pos != len(value):
        strict = False
    if not strict:
        literals = set(t.lower() for k, t in layout if k == "lit")
        if (decl.get("rule") or "").endswith(EXCEL_MIDNIGHT) and not has_time:
            # the literal digits of the midnight suffix have to be there as written; only the date part is looked at then
            if not value.endswith(EXCEL_MIDNIGHT.strip()):
                return (REJECT, "midnight suffix of the layout missing")
            value = value[: -len(EXCEL_MIDNIGHT.strip())]
            literals.discard("0")
        digits = sum(1 for c in value if c in "0123456789")
        min_digits = len(kinds)
        max_digits = sum(4 if t == "YYYY" else 2 for t in kinds)
        for c in value:
            if c in "0123456789" or c.isspace():
                continue
            if c.lower() in literals:
                continue
            return (REJECT, "character that is neither digit nor layout separator")
        if any(c.isdigit() and c not in "0123456789" for c in value):
            return (UNJUDGED, "non-ASCII digits in a date")
        if digits < min_digits or digits > max_digits:
            return (REJECT, "wrong number of digits for the layout")
        return (UNJUDGED, "date cell not in the zero-padded rendering of the layout")
    year = got.get("YYYY")
    if year is None and "YY" in got:
        yy = got["YY"]
        if yy == 0 and got.get("MM") == 2 and got.get("DD") == 29:
            return (UNJUDGED, "29 Feb of a two-digit year 00")
        year = 2000 + yy if yy <= 68 else 1900 + yy
    month = got.get("MM")
    day = got.get("DD")
    if year is not None and year < 1:
        return (UNJUDGED, "year 0000")
    if month is not None and not 1 <= month <= 12:
        return (REJECT, "month out of range")
    if day is not None:
        if not 1 <= day <= 31:
            return (REJECT, "day out of range")
        if month is None:
            if day > 28 and False:
                pass
        elif year is None:
            # (29 February without a year is a day of the calendar: every leap year has one)
            if day > [31, 29, 31, 30, 31, 30, 31, 31, 30, 31, 30, 31][month - 1]:
                return (REJECT, "day beyond the end of the month")
        else:
            try:
                datetime.date(year, month, day)
            except ValueError:
                return (REJECT, "not a calendar date")
    if "hh" in got and got["hh"] > 23:
        return (REJECT, "hour out of range")
    if "mm" in got and got["mm"] > 59:
        return (REJECT, "minute out of range")
    if "ss" in got:
        if got["ss"] == 60:
            return (UNJUDGED, "leap second")
        if got["ss"] > 60:
            return (REJECT, "second out of range")
    return (ACCEPT, got)


def datetime_native_matches(got, native):
    """native is a time.struct_time (or tuple); compare the components the layout fixes."""
    try:
        y, mo, d, h, mi, s = native[0], native[1], native[2], native[3], native[4], native[5]
    except Exception:
        return False
    if "YYYY" in got and y != got["YYYY"]:
        return False
    if "YY" in got and y % 100 != got["YY"]:
        return False
    for key, val in (("MM", mo), ("DD", d), ("hh", h), ("mm", mi), ("ss", s)):
        if key in got and val != got[key]:
            return False
    return True


# ---------------------------------------------------------------------------------- Pattern (glob)
def parse_glob(rule):
    """[('lit', c) | ('any',) | ('one',) | ('set', negated, [(lo, hi)...])]; None = outside."""
    out = []
    i, n = 0, len(rule)
    while i < n:
        c = rule[i]
        if c == "*":
            out.append(("any",))
            i += 1
        elif c == "?":
            out.append(("one",))
            i += 1
        elif c == "[":
            j = i + 1
            negated = False
            if j < n and rule[j] == "!":
                negated = True
                j += 1
            ranges = []
            start = j
            while j < n and rule[j] != "]":
                ch = rule[j]
                if not (ch.isascii() and ch.isalnum()):
                    return None
                if j + 2 < n and rule[j + 1] == "-" and rule[j + 2] != "]":
                    hi = rule[j + 2]
                    if not (hi.isascii() and hi.isalnum()) or ord(hi) < ord(ch):
                        return None
                    ranges.append((ch, hi))
                    j += 3
                else:
                    ranges.append((ch, ch))
                    j += 1
            if j >= n or j == start:
                return None
            out.append(("set", negated, ranges))
            i = j + 1
        elif c == "]" or c == "\\" or c in "\r\n" or ord(c) > 126:
            return None
        else:
            out.append(("lit", c))
            i += 1
    return out


def _ci_eq(a, b):
    return a == b or (a.isascii() and b.isascii() and a.lower() == b.lower())


# letters beyond ASCII whose upper and lower case are one character each and each other's only partner: "ignoring case"
# is as simple for them as for a-z (ß, ı, ſ, the Kelvin sign and the like stay outside the judged subset)
RX_LETTERS = "äÄöÖüÜéÉωΩжЖ"


def _ci_eq_rx(a, b):
    return _ci_eq(a, b) or (a in RX_LETTERS and b in RX_LETTERS and a.lower() == b.lower())


def _in_set(c, ranges):
    for lo, hi in ranges:
        for probe in (c, c.lower(), c.upper()):
            if len(probe) == 1 and lo <= probe <= hi:
                return True
    return False


def glob_match(parts, value):
    # dynamic programming over (part index, value index)
    n = len(value)
    states = {0}
    for part in parts:
        nxt = set()
        if part[0] == "any":
            if states:
                nxt = set(range(min(states), n + 1))
        else:
            for s in states:
                if s < n:
                    c = value[s]
                    if part[0] == "one":
                        ok = True
                    elif part[0] == "lit":
                        ok = _ci_eq(part[1], c)
                    else:
                        ok = _in_set(c, part[2]) != part[1]
                    if ok:
                        nxt.add(s + 1)
        states = nxt
        if not states:
            return False
    return n in states


def expect_pattern(decl, fmt, value):
    parts = parse_glob(decl.get("rule") or "")
    if parts is None:
        return (UNJUDGED, "Pattern rule outside the judged glob grammar")
    if any(ord(c) > 126 or c in "\r\n" for c in value):
        return (UNJUDGED, "Pattern value with non-ASCII characters or line breaks")
    return (ACCEPT, value) if glob_match(parts, value) else (REJECT, "glob does not match entirely")


# ---------------------------------------------------------------------------------- RegEx (subset)
class _Rx(object):
    """Backtracking matcher for: literals, \\-escaped metacharacters, \\d \\w \\s, '.', [classes],
    quantifiers * + ? {m,n} (greedy), groups ( ), alternation |, anchors ^ $.  ASCII, ignore-case."""

    META = set(".^$*+?{}[]\\|()")

    def __init__(self, text):
        self.text = text
        self.pos = 0
        self.ok = True
        self.ast = self.alternation()
        if self.pos != len(text):
            self.ok = False

    def peek(self):
        return self.text[self.pos] if self.pos < len(self.text) else None

    def alternation(self):
        branches = [self.sequence()]
        while self.peek() == "|":
            self.pos += 1
            branches.append(self.sequence())
        return ("alt", branches)

    def sequence(self):
        items = []
        while self.ok and self.peek() is not None and self.peek() not in "|)":
            atom = self.atom()
            if atom is None:
                self.ok = False
                break
            c = self.peek()
            if c in ("*", "+", "?"):
                self.pos += 1
                lo, hi = {"*": (0, None), "+": (1, None), "?": (0, 1)}[c]
                if self.peek() in ("?", "+", "*"):
                    self.ok = False  # lazy / possessive / double quantifiers: outside
                if atom[0] in ("bol", "eol"):
                    self.ok = False
                atom = ("rep", atom, lo, hi)
            elif c == "{":
                m = re.match(r"\{(\d+)(?:,(\d*))?\}", self.text[self.pos :])
                if not m:
                    self.ok = False
                    break
                self.pos += m.end()
                lo = int(m.group(1))
                hi = lo if m.group(2) is None else (None if m.group(2) == "" else int(m.group(2)))
                if (hi is not None and hi < lo) or lo > 20 or self.peek() in ("?", "+", "*") or atom[0] in ("bol", "eol"):
                    self.ok = False
                atom = ("rep", atom, lo, hi)
            items.append(atom)
        return ("seq", items)

    def atom(self):
        c = self.peek()
        self.pos += 1
        if c == "(":
            if self.peek() == "?":
                return None
            inner = self.alternation()
            if self.peek() != ")":
                return None
            self.pos += 1
            return ("grp", inner)
        if c == ".":
            return ("dot",)
        if c == "^":
            return ("bol",)
        if c == "$":
            return ("eol",)
        if c == "[":
            negated = False
            if self.peek() == "^":
                negated = True
                self.pos += 1
            ranges = []
            first = True
            while True:
                ch = self.peek()
                if ch is None:
                    return None
                if ch == "]" and not first:
                    self.pos += 1
                    break
                first = False
                if not (ch.isascii() and ch.isalnum()) and ch not in " _":
                    return None
                self.pos += 1
                if self.peek() == "-" and self.pos + 1 < len(self.text) and self.text[self.pos + 1] != "]":
                    hi = self.text[self.pos + 1]
                    if not (hi.isascii() and hi.isalnum()) or hi < ch:
                        return None
                    self.pos += 2
                    ranges.append((ch, hi))
                else:
                    ranges.append((ch, ch))
            return ("set", negated, ranges)
        if c == "\\":
            e = self.peek()
            if e is None:
                return None
            self.pos += 1
            if e == "d":
                return ("set", False, [("0", "9")])
            if e == "w":
                # (a word character in the Unicode sense: letters of every script)
                return ("set", False, [("0", "9"), ("a", "z"), ("A", "Z"), ("_", "_")] + [(ch, ch) for ch in RX_LETTERS])
            if e == "s":
                return ("set", False, [(" ", " "), ("\t", "\r")])
            if e in self.META or e in "-/ ":
                return ("lit", e)
            return None
        if c in "*+?{})|]":
            return None
        if (ord(c) > 126 and c not in RX_LETTERS) or c in "\r\n":
            return None
        return ("lit", c)


def _rx_match(node, value, pos, k):
    """Continuation-passing matcher: k(pos) -> bool."""
    kind = node[0]
    if kind == "alt":
        for branch in node[1]:
            if _rx_match(branch, value, pos, k):
                return True
        return False
    if kind == "seq":
        items = node[1]

        def run(index, p):
            if index == len(items):
                return k(p)
            return _rx_match(items[index], value, p, lambda q: run(index + 1, q))

        return run(0, pos)
    if kind == "grp":
        return _rx_match(node[1], value, pos, k)
    if kind == "rep":
        _, atom, lo, hi = node

        def rep(count, p):
            if hi is None or count < hi:
                # one more non-empty iteration first
                if _rx_match(atom, value, p, lambda q: q != p and rep(count + 1, q)):
                    return True
            if count >= lo:
                return k(p)
            # fewer than `lo` iterations so far: the rest can only be empty iterations
            return _rx_match(atom, value, p, lambda q: q == p and k(p))

        return rep(0, pos)
    if kind == "bol":
        return (pos == 0 or value[pos - 1] == "\n") and k(pos)
    if kind == "eol":
        # (rules are multi-line expressions: `$` also matches before a line feed, `^` also after one)
        return (pos == len(value) or value[pos] == "\n") and k(pos)
    if pos >= len(value):
        return False
    c = value[pos]
    if kind == "dot":
        return c != "\n" and k(pos + 1)
    if kind == "lit":
        return _ci_eq_rx(node[1], c) and k(pos + 1)
    if kind == "set":
        return (_in_set(c, node[2]) != node[1]) and k(pos + 1)
    raise AssertionError(kind)


def regex_prefix_match(rule, value):
    """True/False, or None when the rule is outside the subset."""
    rx = _Rx(rule)
    if not rx.ok:
        return None
    return _rx_match(rx.ast, value, 0, lambda p: True)


def expect_regex(decl, fmt, value):
    # line breaks inside a value: "." matches every character but a line feed; nothing else of the subset matches them
    if any(ord(c) > 126 and c not in RX_LETTERS for c in value):
        return (UNJUDGED, "RegEx value with non-ASCII characters")
    try:
        result = regex_prefix_match(decl.get("rule") or "", value)
    except RecursionError:
        return (UNJUDGED, "RegEx model recursion limit")
    if result is None:
        return (UNJUDGED, "RegEx rule outside the judged subset")
    return (ACCEPT, value) if result else (REJECT, "regular expression does not match from the first character")


# ---------------------------------------------------------------------------------- top level
_BY_TYPE = {
    "Integer": expect_integer,
    "Decimal": expect_decimal,
    "Choice": expect_choice,
    "Constant": expect_constant,
    "DateTime": expect_datetime,
    "Pattern": expect_pattern,
    "RegEx": expect_regex,
    "Text": lambda decl, fmt, value: (ACCEPT, value),
}


def expected(decl, fmt, cell):
    g = guard(decl, fmt, cell)
    if g[0] == "empty":
        return (ACCEPT, g[1])
    if g[0] in (REJECT, UNJUDGED):
        return g
    fn = _BY_TYPE.get(decl["type"])
    if fn is None:
        return (UNJUDGED, "not a built-in field type")
    return fn(decl, fmt, g[1])


def native_equal(decl, verdict_value, observed):
    t = decl["type"]
    if t == "DateTime" and isinstance(verdict_value, dict):
        return datetime_native_matches(verdict_value, observed)
    if verdict_value is None:
        return observed is None
    if t == "Integer":
        return type(observed) is int and observed == verdict_value
    if t == "Decimal":
        return isinstance(observed, Decimal) and observed == verdict_value
    return isinstance(observed, str) and observed == verdict_value
