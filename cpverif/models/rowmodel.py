"""M-rows / M-checks / M-reader: expected verdicts for rows, whole-file checks and reader runs.
Imports nothing from cutplace."""
from cpverif.models import fieldmodel as F

ACCEPTED, REJECTED, UNJUDGED = "accepted", "rejected", "unjudged"

OPS = {
    "<": lambda a, b: a < b,
    "<=": lambda a, b: a <= b,
    "==": lambda a, b: a == b,
    "!=": lambda a, b: a != b,
    ">=": lambda a, b: a >= b,
    ">": lambda a, b: a > b,
}


class CidModel(object):
    """kind: delimited|fixed|excel|ods; fields: list of decl dicts with 'name'; checks: list of
    {"desc", "type": "IsUnique", "fields": [...]} | {"desc", "type": "DistinctCount", "field", "op", "n"}"""

    def __init__(self, kind, fields, checks=(), header=0, dec=".", ths="", allowed=None, allowed_text=None,
                 line_delimiter=None, sheet=None, encoding="utf-8"):
        self.kind = kind
        self.fields = list(fields)
        self.checks = list(checks)
        self.header = header
        self.fmt = {"kind": kind, "dec": dec, "ths": ths, "allowed": allowed}
        self.allowed_text = allowed_text
        self.line_delimiter = line_delimiter
        self.sheet = sheet
        self.encoding = encoding
        self.quote = '"'
        self.escape = '"'
        self.skip_initial_space = False
        self.format_spelling = None  # another spelling of the format's name ("csv" for delimited, other letter cases)

    def names(self):
        return [f["name"] for f in self.fields]

    def widths(self):
        return [int(f["length"]) for f in self.fields]

    def cid_rows(self):
        rows = [["D", "Format", self.format_spelling or {"delimited": "Delimited", "fixed": "Fixed", "excel": "Excel", "ods": "ODS"}[self.kind]]]
        if self.kind in ("delimited", "fixed"):
            rows.append(["D", "Encoding", self.encoding])
        if self.kind == "delimited" and (self.quote != '"' or self.escape != '"'):
            rows.append(["D", "Quote character", self.quote])
            rows.append(["D", "Escape character", self.escape])
        if self.kind == "delimited" and self.skip_initial_space:
            rows.append(["D", "Skip initial space", "True"])
        if self.header:
            rows.append(["D", "Header", str(self.header)])
        if self.fmt["ths"]:
            rows.append(["D", "Thousands separator", self.fmt["ths"]])
        if self.fmt["dec"] != ".":
            rows.append(["D", "Decimal separator", self.fmt["dec"]])
        if self.allowed_text:
            rows.append(["D", "Allowed characters", self.allowed_text])
        if self.line_delimiter:
            rows.append(["D", "Line delimiter", self.line_delimiter])
        if self.sheet:
            rows.append(["D", "Sheet", str(self.sheet)])
        for f in self.fields:
            rows.append(["F", f["name"], "", "X" if f["empty"] else "", f["length"], f["type"], f["rule"]])
        for c in self.checks:
            if c["type"] == "IsUnique":
                rows.append(["C", c["desc"], "IsUnique", ", ".join(c["fields"])])
            else:
                rows.append(["C", c["desc"], "DistinctCount", distinct_rule(c)])
        return rows

    def to_json(self):
        return {"kind": self.kind, "header": self.header, "fields": self.fields, "checks": self.checks,
                "dec": self.fmt["dec"], "ths": self.fmt["ths"], "allowed": self.allowed_text,
                "line_delimiter": self.line_delimiter, "sheet": self.sheet, "quote": self.quote, "escape": self.escape,
                "skip_initial_space": self.skip_initial_space, "format_spelling": self.format_spelling}

    @staticmethod
    def from_json(d):
        from cpverif.models import rangemodel as R

        allowed = R.parse_int_range(d["allowed"]) if d.get("allowed") else None
        model = CidModel(d["kind"], d["fields"], d.get("checks", ()), d.get("header", 0), d.get("dec", "."), d.get("ths", ""),
                         allowed, d.get("allowed"), d.get("line_delimiter"), d.get("sheet"))
        model.quote = d.get("quote", '"')
        model.escape = d.get("escape", '"')
        model.skip_initial_space = d.get("skip_initial_space", False)
        model.format_spelling = d.get("format_spelling")
        return model


def distinct_rule(c):
    """The rule text of a DistinctCount check: 'field op n', or several such comparisons joined by and / or (where
    every mention of the field stands for the number of distinct values)."""
    first = "%s %s %d" % (c["field"], c["op"], c["n"])
    for joiner, op, n in c.get("more", ()):
        first += " %s %s %s %d" % (joiner, c["field"], op, n)
    return first


def distinct_holds(c, count):
    """Python's own reading of the joined comparisons: 'and' binds tighter than 'or'."""
    groups = [[OPS[c["op"]](count, c["n"])]]
    for joiner, op, n in c.get("more", ()):
        if joiner == "or":
            groups.append([])
        groups[-1].append(OPS[op](count, n))
    return any(all(g) for g in groups)


class CheckState(object):
    def __init__(self, model):
        self.model = model
        self.reset()

    def reset(self):
        self.unique = [dict() for _ in self.model.checks]
        self.distinct = [set() for _ in self.model.checks]
        # keys registered by a row that a later-declared check then rejected: whether a later row with such a
        # key duplicates "an accepted row" is left open by the statement
        self.tainted = [set() for _ in self.model.checks]

    def end_verdict(self):
        """Index of the first failing DistinctCount check (declaration order) or None."""
        for i, c in enumerate(self.model.checks):
            if c["type"] == "DistinctCount":
                if not distinct_holds(c, len(self.distinct[i])):
                    return i
        return None


def validate_row(model, row, state, rowno, rollback=False, sticky=False):
    """rollback=False: keys of a row that a later-declared check rejects become 'tainted' (rows using them later are
    unjudged); rollback=True: such keys are forgotten, which is what "duplicate of an earlier ACCEPTED row" says;
    sticky=True: such keys stay registered (the behaviour recorded as known finding of C05).
    -> (ACCEPTED,) | (REJECTED, kind, column|None, field|None, extra) | (UNJUDGED, zone)
    kind in {"count", "field", "check"}; for kind "check" extra = (check index, first row number)."""
    n = len(model.fields)
    if len(row) != n:
        return (REJECTED, "count", None, None, None)
    for col, (decl, cell) in enumerate(zip(model.fields, row)):
        if not isinstance(cell, str):
            return (REJECTED, "field", col, decl["name"], None)
        verdict = F.expected(decl, model.fmt, cell)
        if verdict[0] == F.UNJUDGED:
            return (UNJUDGED, verdict[1])
        if verdict[0] == F.REJECT:
            return (REJECTED, "field", col, decl["name"], verdict[1])
    names = model.names()
    registered = []
    for i, c in enumerate(model.checks):
        if c["type"] == "IsUnique":
            key = tuple(row[names.index(k)] for k in c["fields"])
            if key in state.tainted[i] and not rollback and not sticky:
                return (UNJUDGED, "key registered by a row that a later-declared check rejected")
            first = state.unique[i].get(key)
            if first is not None:
                for j, k in registered:
                    state.tainted[j].add(k)
                    if rollback:
                        del state.unique[j][k]
                return (REJECTED, "check", None, None, (i, first))
            state.unique[i][key] = rowno
            registered.append((i, key))
        else:
            state.distinct[i].add(row[names.index(c["field"])])
    return (ACCEPTED,)


def expected_run(model, raw_rows, validate_until=None, rollback=False, sticky=False, stop_at_first_rejection=False):
    """Expected 'yield'-mode result of reading raw_rows: list of items, one per data row after the
    header: ("row", row) | ("error", rowno, verdict) ; plus the end-of-data verdict and counters.
    Returns None when some row is unjudged."""
    state = CheckState(model)
    out = []
    accepted = rejected = 0
    for rowno, row in enumerate(raw_rows, 1):
        if rowno <= model.header:
            continue
        if validate_until is not None and rowno > validate_until:
            out.append(("row", row))
            accepted += 1
            continue
        verdict = validate_row(model, row, state, rowno, rollback=rollback, sticky=sticky)
        if verdict[0] == UNJUDGED:
            return None
        if verdict[0] == ACCEPTED:
            out.append(("row", row))
            accepted += 1
        else:
            out.append(("error", rowno, verdict))
            rejected += 1
            if stop_at_first_rejection:
                break  # raise mode: the state is what the checks have seen up to and including the rejected row
    return {"items": out, "end": state.end_verdict(), "accepted": accepted, "rejected": rejected, "state": state}
