"""M-dataformat: which data-format properties exist for which format, which spellings they accept and
what they denote.  Independent of cutplace (uses Python's codecs registry for 'encodings the runtime knows')."""
import codecs

from cpverif.models import rangemodel as R

import re

ACCEPT, REFUSE, UNJUDGED = "accept", "refuse", "unjudged"
_PYTHON_ONLY_NUMBER = re.compile(r"(?:0[oO][0-7_]+|0[bB][01_]+|[0-9][0-9_]*_[0-9_]*|0[xX][0-9a-fA-F_]*_[0-9a-fA-F_]*)\Z")

COMMON = ["header", "allowed_characters", "encoding"]
APPLIES = {
    "delimited": COMMON + ["escape_character", "item_delimiter", "quote_character", "quoting", "skip_initial_space",
                           "decimal_separator", "line_delimiter", "thousands_separator"],
    "fixed": COMMON + ["decimal_separator", "line_delimiter", "thousands_separator"],
    "excel": COMMON + ["sheet"],
    "ods": COMMON + ["sheet"],
}
ALL_PROPERTIES = sorted(set(p for props in APPLIES.values() for p in props))
QUOTE_CHARACTERS = "!\"#$%&'*+-/:;=?\\^_`~"
DEFAULTS = {"header": 0, "sheet": 1, "decimal_separator": ".", "thousands_separator": ""}
NON_TEXT_CODECS = {"base64", "base_64", "base64_codec", "hex", "hex_codec", "rot13", "rot_13", "rot-13", "bz2", "bz2_codec", "zip", "zlib",
                   "zlib_codec", "uu", "uu_codec", "quopri", "quopri_codec", "quoted_printable", "quotedprintable", "punycode", "idna",
                   "undefined", "unicode_escape", "raw_unicode_escape", "mbcs", "oem", "charmap"}


def character(value):
    """The character an item-delimiter spelling denotes -> (ACCEPT, ch) / (REFUSE,) / (UNJUDGED, zone)."""
    stripped = value.strip()
    if stripped == "":
        if value == "":
            return (REFUSE,)
        return (UNJUDGED, "blank given literally")
    if len(stripped) == 1:
        if stripped in "0123456789":
            return (UNJUDGED, "a lone digit (character code or literal?)")
        if stripped != value:
            return (UNJUDGED, "literal character surrounded by blanks")
        if ord(stripped) > 0xFFFF or stripped in "\r\n":
            return (UNJUDGED, "exotic literal character")
        return (ACCEPT, stripped)
    items = R.parse_int_range(value)
    if items is R.OUTSIDE or len(items) != 1 or items[0][0] is None or items[0][0] != items[0][1]:
        return (UNJUDGED, "spelling outside the single-limit grammar") if _maybe_wellformed(value) else (REFUSE,)
    code = items[0][0]
    if value.strip()[0] == "-":
        return (UNJUDGED, "negative character code")
    if code == 0:
        return (REFUSE,)
    if code >= 0x110000:
        return (REFUSE,)
    if 0xD800 <= code <= 0xDFFF:
        return (UNJUDGED, "surrogate code point")
    return (ACCEPT, chr(code))


def _maybe_wellformed(value):
    """Spellings my grammar does not cover but that might legitimately denote something: unjudged.
    Only clearly malformed spellings are judged 'refuse'."""
    v = value.strip()
    clearly_bad = (
        (v.isalpha() and v.isascii() and v.lower() not in R.SYMBOLS)  # unknown symbolic name
        or (len(v) >= 2 and v[0] in "'\"" and v[-1] == v[0] and "\\" not in v and len(v) - 2 >= 2 and v[0] not in v[1:-1])  # 2+ characters quoted
        or (v.replace(" ", "").isdigit() and " " in v)  # two numbers
        or _PYTHON_ONLY_NUMBER.match(v) is not None  # 0o54, 0b101100, 4_4: numbers for Python's int(), not character codes
    )
    return not clearly_bad


def expect(kind, prop, value):
    """(ACCEPT, internal value) | (REFUSE,) | (UNJUDGED, zone) for set_property(prop, value) on a fresh format."""
    if prop not in ALL_PROPERTIES:
        return (UNJUDGED, "unknown property name")
    if prop not in APPLIES[kind]:
        return (REFUSE,)
    if prop == "item_delimiter":
        return character(value)
    if prop == "quote_character":
        return (ACCEPT, value) if len(value) == 1 and value in QUOTE_CHARACTERS else (REFUSE,)
    if prop == "escape_character":
        return (ACCEPT, value) if value in ('"', "\\") else (REFUSE,)
    if prop == "decimal_separator":
        return (ACCEPT, value) if value in (".", ",") else (REFUSE,)
    if prop == "thousands_separator":
        if value in (",", ".", ""):
            return (ACCEPT, value)
        if value == " ":
            return (UNJUDGED, "blank as thousands separator (documented as typical, refused by the code)")
        return (REFUSE,)
    if prop == "line_delimiter":
        table = {"lf": "\n", "cr": "\r", "crlf": "\r\n", "any": "any"}
        v = value.lower()
        if v in table:
            return (ACCEPT, table[v])
        if v == "none":
            return (ACCEPT, None) if kind == "fixed" else (REFUSE,)
        if v != v.strip():
            return (UNJUDGED, "line delimiter name surrounded by blanks")
        return (REFUSE,)
    if prop == "quoting":
        v = value.lower()
        return (ACCEPT, v) if v in ("all", "minimal") else (REFUSE,)
    if prop == "skip_initial_space":
        v = value.lower()
        return (ACCEPT, v == "true") if v in ("true", "false") else (REFUSE,)
    if prop in ("header", "sheet"):
        v = value
        if v.isascii() and v.isdigit() and (v == "0" or not v.startswith("0")):
            n = int(v)
            if prop == "sheet" and n < 1:
                return (REFUSE,)
            return (ACCEPT, n)
        if v.startswith("-") and v[1:].isascii() and v[1:].isdigit():
            return (REFUSE,) if int(v[1:]) > 0 else (UNJUDGED, "minus zero")
        try:
            int(v)
        except ValueError:
            return (REFUSE,)
        if "_" in v or not v.isascii():
            # numbers only for Python's int(): digit groups joined by underscores, digits of other scripts
            return (REFUSE,)
        return (UNJUDGED, "non-canonical integer spelling")
    if prop == "encoding":
        try:
            info = codecs.lookup(value)
        except LookupError:
            return (REFUSE,)
        except Exception:
            return (UNJUDGED, "codec lookup failed unusually")
        if getattr(info, "_is_text_encoding", True) is False:
            # the runtime's own verdict ("'rot13' is not a text encoding"): such a codec cannot turn text into the bytes
            # of a file, it is no encoding of data
            return (REFUSE,)
        if info.name.replace("-", "_") in NON_TEXT_CODECS or value.lower().replace("-", "_") in NON_TEXT_CODECS:
            return (UNJUDGED, "codec with restrictions of its own (escapes, lossy or stateful conversions)")
        return (ACCEPT, value)
    if prop == "allowed_characters":
        items = R.parse_int_range(value)
        if items is R.OUTSIDE:
            return (UNJUDGED, "allowed-characters range outside the range grammar")
        return (ACCEPT, items)
    return (UNJUDGED, "property without model")


def consistent(settings):
    """settings: dict of internal values of a delimited/fixed format -> ACCEPT / REFUSE / UNJUDGED for Cid completion."""
    kind = settings["kind"]
    if kind in ("delimited", "fixed"):
        if settings["decimal_separator"] == settings["thousands_separator"]:
            return REFUSE
    if kind == "delimited":
        d, q, e, ld = settings["item_delimiter"], settings["quote_character"], settings["escape_character"], settings["line_delimiter"]
        if d == q or d == ld:
            return REFUSE
        if d == e:
            return UNJUDGED  # refused since the C12 fix; the statement does not list it
        if d in "\r\n":
            return UNJUDGED  # part of a line delimiter under 'any' / CRLF
        return ACCEPT
    return ACCEPT
