"""Hand-computed expectations for the reference models (no cutplace import)."""
from decimal import Decimal as D

_failures = []
_total = 0


def check(name, got, want):
    global _total
    _total += 1
    if got != want:
        _failures.append("%s: got %r want %r" % (name, got, want))


def test_rangemodel():
    from cpverif.models import rangemodel as M

    p = M.parse_int_range
    check("single", p("5"), [(5, 5)])
    check("closed", p("1...5"), [(1, 5)])
    check("colon", p("1:5"), [(1, 5)])
    check("ellipsis", p("1…5"), [(1, 5)])
    check("open-right", p("1..."), [(1, None)])
    check("open-left", p("...5"), [(None, 5)])
    check("neg", p("-3...-1, 5"), [(-3, -1), (5, 5)])
    check("hex", p("0x10...0X1f"), [(16, 31)])
    check("neghex", p("-0x10"), [(-16, -16)])
    check("quoted", p("\"a\"...'z'"), [(97, 122)])
    check("escape", p("'\\t'"), [(9, 9)])
    check("xescape", p("'\\x41'"), [(65, 65)])
    check("uescape", p("'\\u20ac'"), [(0x20AC, 0x20AC)])
    check("symbol", p("Tab, LF...cr"), [(9, 9), (10, 13)])
    check("blanks", p("  1 ... 5 ,  7  "), [(1, 5), (7, 7)])
    check("overlap", p("1...5, 3...9"), M.OUTSIDE)
    check("contain-overlap", p("2...3, 1...5"), M.OUTSIDE)
    check("touching", p("1...5, 5...9"), M.OUTSIDE)
    check("adjacent-ok", p("1...5, 6...9"), [(1, 5), (6, 9)])
    check("empty", p(""), M.OUTSIDE)
    check("empty-item", p("1,,3"), M.OUTSIDE)
    check("only-sep", p("..."), M.OUTSIDE)
    check("reversed", p("5...1"), M.OUTSIDE)
    check("float-in-int", p("1.5"), M.OUTSIDE)
    check("leading-zero", p("05"), [(5, 5)])
    check("leading-zeros-in-both-limits", p("01...012"), [(1, 12)])
    check("hex-with-leading-zero", p("0x0a"), [(10, 10)])
    check("octal-prefix", p("0o17"), M.OUTSIDE)
    check("digit-group", p("1_0"), M.OUTSIDE)
    check("unicode-prefix", p("u'a'"), [(97, 97)])
    check("unicode-prefix-escape", p('u"\\u00dc"'), [(220, 220)])
    check("bytes-prefix", p("b'a'"), M.OUTSIDE)
    check("unknown-name", p("abc"), M.OUTSIDE)
    check("two-limits", p("1 2"), M.OUTSIDE)
    check("two-open", p("...1, 5..."), [(None, 1), (5, None)])
    check("open-overlap", p("...5, ...7"), M.OUTSIDE)
    d = M.parse_dec_range
    check("dec", d("1.5...2.25"), [(D("1.5"), D("2.25"))])
    check("dec-neg", d("-3.0…-2"), [(D("-3.0"), D("-2"))])
    check("dec-hex", d("0x10"), M.OUTSIDE)
    check("dec-exp", d("1e5"), M.OUTSIDE)
    check("dec-quoted", d("'a'"), M.OUTSIDE)
    check("contains-in", M.contains([(1, 5), (7, None)], 9), True)
    check("contains-out", M.contains([(1, 5), (7, None)], 6), False)
    check("contains-edge", M.contains([(1, 5)], 5), True)
    check("limits", M.limits([(3, 4), (-1, 0)]), (-1, 4))
    check("limits-open", M.limits([(3, None), (None, 0)]), (None, None))
    check("limits-half", M.limits([(3, None), (-2, 0)]), (-2, None))


def test_rowmodel_distinct_rules():
    from cpverif.models import rowmodel as RM

    c = {"field": "k", "op": ">=", "n": 1, "more": [["and", "<=", 2]]}
    check("distinct-rule-text", RM.distinct_rule(c), "k >= 1 and k <= 2")
    check("distinct-and-in", RM.distinct_holds(c, 2), True)
    check("distinct-and-out", RM.distinct_holds(c, 3), False)
    c = {"field": "k", "op": "==", "n": 1, "more": [["or", "==", 3], ["and", "!=", 3]]}
    check("distinct-or-and-precedence", [RM.distinct_holds(c, n) for n in (0, 1, 3)], [False, True, False])
    check("distinct-plain", RM.distinct_holds({"field": "k", "op": "<", "n": 2}, 1), True)


def test_fieldmodel_no_numbers_no_seconds():
    from cpverif.models import fieldmodel as FM

    fmt = {"kind": "delimited", "dec": ".", "ths": "", "allowed": None}
    open_decimal = {"name": "f", "type": "Decimal", "empty": False, "length": "", "rule": "0..."}
    check("decimal-infinity", FM.expected(open_decimal, fmt, "Infinity")[0], FM.REJECT)
    check("decimal-minus-inf", FM.expected(dict(open_decimal, rule="...0"), fmt, "-inf")[0], FM.REJECT)
    check("decimal-nan", FM.expected(open_decimal, fmt, "NaN")[0], FM.REJECT)
    clock = {"name": "f", "type": "DateTime", "empty": False, "length": "", "rule": "hh:mm:ss"}
    check("second-61", FM.expected(clock, fmt, "12:30:61")[0], FM.REJECT)
    check("second-60", FM.expected(clock, fmt, "23:59:60")[0], FM.UNJUDGED)
    check("second-59", FM.expected(clock, fmt, "23:59:59")[0], FM.ACCEPT)


def test_fieldmodel_regex_beyond_ascii():
    from cpverif.models import fieldmodel as FM

    check("rx-umlaut-ignoring-case", FM.regex_prefix_match("zürich [a-z]+", "ZÜRICH west"), True)
    check("rx-umlaut-other-letter", FM.regex_prefix_match("zürich", "zurich"), False)
    check("rx-word-character", FM.regex_prefix_match("m\\wller", "Müller"), True)
    check("rx-digit-class", FM.regex_prefix_match("\\d", "ä"), False)
    check("rx-set-does-not-reach", FM.regex_prefix_match("[a-z]", "ä"), False)
    check("rx-negated-set", FM.regex_prefix_match("[^a-z]", "Ω"), True)
    check("rx-outside-subset", FM.regex_prefix_match("ß", "ß"), None)
    check("rx-dot-no-line-feed", FM.regex_prefix_match("id.[0-9]+", "id\n17"), False)
    check("rx-dot-carriage-return", FM.regex_prefix_match("id.[0-9]+", "id\r17"), True)
    check("rx-end-before-line-feed", FM.regex_prefix_match("ab$", "ab\ncd"), True)
    check("rx-end-not-before-letter", FM.regex_prefix_match("ab$", "abc"), False)


def test_dataformatmodel_encodings():
    from cpverif.models import dataformatmodel as DM

    check("encoding-text", DM.expect("delimited", "encoding", "utf-8")[0], DM.ACCEPT)
    check("encoding-unknown", DM.expect("delimited", "encoding", "klingon")[0], DM.REFUSE)
    check("encoding-text-to-text-codec", DM.expect("delimited", "encoding", "rot13")[0], DM.REFUSE)
    check("encoding-bytes-to-bytes-codec", DM.expect("delimited", "encoding", "hex")[0], DM.REFUSE)
    check("encoding-with-restrictions", DM.expect("delimited", "encoding", "idna")[0], DM.UNJUDGED)


def test_fieldmodel_day_and_month_without_year():
    from cpverif.models import fieldmodel as FM

    decl = {"type": "DateTime", "name": "d", "empty": False, "length": "", "rule": "DD.MM"}
    fmt = {"kind": "delimited", "dec": ".", "ths": "", "allowed": None}
    check("leap-day-without-year", FM.expected(decl, fmt, "29.02")[0], FM.ACCEPT)
    check("30-feb-without-year", FM.expected(decl, fmt, "30.02")[0], FM.REJECT)
    check("31-apr-without-year", FM.expected(decl, fmt, "31.04")[0], FM.REJECT)


def run_all():
    for name, fn in sorted(globals().items()):
        if name.startswith("test_") and callable(fn):
            try:
                fn()
            except Exception as error:  # a crashing self-test is a failure
                _failures.append("%s crashed: %r" % (name, error))
    return _failures, _total
