"""C11 Data-format properties mean what the CID says; contradictions are refused."""
import csv
import itertools

from cpverif import core
from cpverif.models import dataformatmodel as M

LEVEL = "exploration"
RULE = (
    "enumerated: item delimiter for every code point of a pool (printable ASCII, tab, CR, LF, FF, VT, a-umlaut, euro sign, "
    "U+2028) x spellings {literal, decimal, hex in both cases, quoted with ' and \" incl. escape forms \\t \\xHH \\uHHHH, "
    "symbolic name}; quote (all 20 + 12 others), escape, decimal, thousands characters; line delimiter names in three "
    "casings (+ none); quoting, skip initial space, header, sheet, ~40 encoding names and aliases and unknown names; "
    "malformed values per property - each x the four formats and the other documented name of the delimited format, CSV (so every inapplicable property/format pair occurs), through "
    "DataFormat.set_property and through Cid.read; all pairs of (item delimiter, quote, escape, line delimiter) and "
    "(decimal, thousands) values for the consistency rules at CID completion; defaults of unset properties. A case is "
    "(format, property, spelling) or a full settings tuple, distinct by digest, non-trivial unless it restates the default."
)
ASSUMPTIONS = ["M-dataformat table (cpverif/models/dataformatmodel.py); literal blank/digit item delimiters, non-text codecs, blank thousands separator and delimiter==escape are unjudged"]

KINDS = ["delimited", "fixed", "excel", "ods"]
CODEPOINTS = list(range(33, 127)) + [9, 10, 11, 12, 13, 32, 0xE4, 0x20AC, 0x2028, 0xB2, 0xB9, 0x663, 0xFF15, 0x2460, 0xA6, 0xA7]
SYMBOL_OF = {9: "tab", 10: "lf", 11: "vt", 12: "ff", 13: "cr"}
ENCODINGS = ["utf-8", "UTF-8", "utf8", "U8", "ascii", "US-ASCII", "latin-1", "latin1", "iso-8859-1", "ISO8859-15", "cp1252", "CP1252", "windows-1252",
             "cp850", "cp437", "cp1250", "cp1251", "utf-16", "UTF-16LE", "utf-16-be", "utf-32", "utf_8_sig", "mac_roman", "macroman", "koi8-r",
             "big5", "gbk", "shift_jis", "euc-jp", "iso2022_jp", "cp037", "ebcdic-cp-us", "hz", "tis-620", "ptcp154",
             "utf-99", "klingon", "", "utf 8 ", "cp-1252x", "base64", "rot13", "hex", "latin", "8859"]
PROPERTY_DISPLAY = {p: p.replace("_", " ").capitalize() for p in M.ALL_PROPERTIES}


BACKSLASH_FORM = {0x22: '\\"', 0x27: "\\'", 0x5C: "\\\\", 7: "\\a", 8: "\\b", 10: "\\n", 11: "\\v", 12: "\\f", 13: "\\r"}


def delimiter_spellings(code):
    ch = chr(code)
    out = []
    if ch not in " \r\n":
        out.append(ch)
    out += [str(code), "0x%x" % code, "0X%X" % code, "0x%X" % code]
    for q in "'\"":
        if ch != q and ch != "\\" and ch not in "\r\n\t\x0b\x0c":
            out.append(q + ch + q)
        if code < 256:
            out.append(q + "\\x%02x" % code + q)
        if code < 0x10000:
            out.append(q + "\\u%04x" % code + q)
    if code == 9:
        out += ['"\\t"', "'\\t'"]
    # the backslash forms of the characters a quoted string cannot hold as they are - among them the quote that
    # encloses the string - and the other one-letter escapes
    if code in BACKSLASH_FORM:
        out += [q + BACKSLASH_FORM[code] + q for q in "'\""]
    if code in SYMBOL_OF:
        name = SYMBOL_OF[code]
        out += [name, name.upper(), name.capitalize()]
    return out


def value_pool(prop):
    if prop == "item_delimiter":
        pool = []
        for code in CODEPOINTS:
            pool.extend(delimiter_spellings(code))
        pool += ["", "ab", "'ab'", "tabx", "1 2", "0", "0x0", "'\\x00'", "space", "comma", '"ab"', "''", "1114112", "0x110000", "2147483647", "2147483648", "0x100000000", "99999999999999999999", "0xffffffffffffffffffff", "TAB,", "cr lf"]
        # numbers only in Python's eyes: octal and binary prefixes, digit groups (the documented codes are decimal and 0x-hex)
        pool += ["4_4", "0x2_c", "0x_2c", "0o54", "0O54", "0b101100", "0B101100", "1_0", "054_"]
        return pool
    if prop == "quote_character":
        return list(M.QUOTE_CHARACTERS) + ["a", "1", "(", ")", ",", ".", " ", "", '""', "34", "0x22", "@", "[", "<", "|", "ä"]
    if prop == "escape_character":
        return ['"', "\\", "'", "/", "", "\\\\", "a", "^", "92"]
    if prop == "decimal_separator":
        return [".", ",", ";", "", " ", "..", "·", "46"]
    if prop == "thousands_separator":
        return [",", ".", "", " ", "'", "_", ",,", "44"]
    if prop == "line_delimiter":
        return ["lf", "LF", "Lf", "cr", "CR", "Cr", "crlf", "CRLF", "CrLf", "any", "ANY", "Any", "none", "NONE", "None", "", "lfcr", "\\n", "10", "newline", "cr lf"]
    if prop == "quoting":
        return ["all", "ALL", "All", "minimal", "Minimal", "MINIMAL", "none", "nonnumeric", "", "1", "min"]
    if prop == "skip_initial_space":
        return ["true", "True", "TRUE", "false", "False", "FALSE", "yes", "no", "1", "0", "", "x"]
    if prop in ("header", "sheet"):
        return ["0", "1", "2", "3", "17", "1000", "-1", "-2", "x", "", "1.5", "1e3", "one", "0x1", "- 1", "１", "1_0", "1_000", "١٠", "１２", "२", "+3", " 4 ", "007"]
    if prop == "encoding":
        return ENCODINGS
    if prop == "allowed_characters":
        return ["32...126", "32:", "...127", "9, 10, 13, 32...", "0x20...0x7e", "'a'...'z', \"A\"...\"Z\"", "tab, 32…255"]
    raise ValueError(prop)


def read_attribute(fmt, prop):
    value = getattr(fmt, prop)
    if prop == "quoting":
        return {csv.QUOTE_ALL: "all", csv.QUOTE_MINIMAL: "minimal"}.get(value, value)
    if prop == "allowed_characters":
        return sorted(value.items, key=repr) if value is not None and value.items is not None else None
    return value


FIRST_OUTCOME = {}
REPEAT = []


def judge_set(ctx, kind, prop, value, via):
    """One set_property call (or one CID with that property row) judged against M-dataformat."""
    from cutplace import data, errors, interface

    case = {"format": kind, "property": prop, "value": value, "via": via}
    verdict = M.expect("delimited" if kind == "csv" else kind, prop, value)  # "CSV" is the documented other name of "Delimited"
    if verdict[0] == M.UNJUDGED:
        ctx.unjudged(verdict[1])
    observed = None
    fmt = None
    try:
        if via == "set_property":
            fmt = data.DataFormat(kind)
            fmt.set_property(prop, value)
        else:
            cid = interface.Cid()
            rows = [["D", "Format", kind]]
            if prop == "thousands_separator" and value == ".":
                rows.append(["D", "Decimal separator", ","])  # keep the completed CID free of contradictions
            rows += [["D", PROPERTY_DISPLAY[prop] if via == "cid" else prop.upper(), value], ["F", "a", "", "", "3" if kind == "fixed" else "", "Text", ""]]
            cid.read("<c11>", rows)
            fmt = cid.data_format
        observed = ("accept",)
    except errors.InterfaceError as error:
        observed = ("refuse", error)
    except Exception as error:
        observed = ("crash", error)
    if via == "set_property":
        # the verdict on (format, property, value) must be the same every time it is asked for in this process
        key = (kind, prop, value)
        summary = (observed[0], core.jsonable(read_attribute(fmt, prop)) if observed[0] == "accept" else None)
        first = FIRST_OUTCOME.setdefault(key, summary)
        if first != summary:
            ctx.case(dict(case, repeated=True), True)
            ctx.violation("C11:verdict-changes-on-repetition:%s" % prop, case, "the same value for the same property and format got another verdict the second time",
                          expected=first, observed=summary)
            return
    if verdict[0] == M.UNJUDGED:
        if observed[0] == "crash":
            ctx.count("crash-on-unjudged-value(C10)")
        return
    default = M.DEFAULTS.get(prop)
    ctx.case(case, not (verdict[0] == M.ACCEPT and verdict[1] == default and prop in M.DEFAULTS))
    ctx.count("set.judged")
    if observed[0] == "crash":
        mod, fn = core.innermost_cutplace_frame(observed[1])
        what = "value that must be refused ended in an internal error instead of an interface error" if verdict[0] == M.REFUSE else "documented spelling ended in an internal error"
        ctx.violation("C11:internal-error:%s:%s@%s.%s" % (prop, type(observed[1]).__name__, mod, fn), case, what,
                      expected=list(verdict[:1]), observed=observed[1])
        return
    if verdict[0] == M.ACCEPT and observed[0] == "refuse":
        if via != "set_property" and prop == "item_delimiter" and verdict[1] in ('"', "\r", "\n"):
            ctx.unjudged("item delimiter equal to the default quote/escape character or a line break (refused at completion)")
            return
        ctx.violation("C11:documented-spelling-refused:%s" % prop, case, "documented spelling was refused", expected=verdict, observed=observed[1])
    elif verdict[0] == M.REFUSE and observed[0] == "accept":
        ctx.violation("C11:invalid-value-accepted:%s" % prop, case, "value outside the documented set (or property not applicable to the format) was accepted",
                      expected="InterfaceError", observed=core.jsonable(read_attribute(fmt, prop)) if hasattr(fmt, "_" + prop) else "accepted")
    elif verdict[0] == M.ACCEPT:
        got = read_attribute(fmt, prop)
        want = verdict[1]
        if prop == "allowed_characters":
            want = sorted(want, key=repr)
        if prop == "encoding":
            # (blanks around a cell of the CID are no part of the name)
            if str(got).lower().strip() != str(want).lower().strip():
                ctx.violation("C11:wrong-internal-value:%s" % prop, case, "property holds another value than the spelling denotes", expected=want, observed=got)
        elif got != want:
            ctx.violation("C11:wrong-internal-value:%s" % prop, case, "property holds another value than the spelling denotes", expected=want, observed=got)


def judge_defaults(ctx, kind):
    from cutplace import data

    fmt = data.DataFormat(kind)
    for prop, want in M.DEFAULTS.items():
        if prop in M.APPLIES[kind]:
            case = {"format": kind, "property": prop, "value": "(unset)"}
            ctx.case(case, True)
            ctx.count("defaults.judged")
            got = getattr(fmt, prop)
            if got != want:
                ctx.violation("C11:default:%s" % prop, case, "unset property does not have its documented default", expected=want, observed=got)


def judge_consistency(ctx, settings):
    from cutplace import errors, interface

    kind = settings["kind"]
    rows = [["D", "Format", kind]]
    spell_ld = {"\n": "LF", "\r": "CR", "\r\n": "CRLF", "any": "Any", None: "None"}
    if kind == "delimited":
        d = settings["item_delimiter"]
        rows.append(["D", "Item delimiter", str(ord(d))])
        rows.append(["D", "Quote character", settings["quote_character"]])
        rows.append(["D", "Escape character", settings["escape_character"]])
    rows.append(["D", "Line delimiter", spell_ld[settings["line_delimiter"]]])
    rows.append(["D", "Decimal separator", settings["decimal_separator"]])
    rows.append(["D", "Thousands separator", settings["thousands_separator"]])
    rng_order = settings.get("order")
    if rng_order:
        head, tail = rows[:1], rows[1:]
        tail = [tail[i] for i in rng_order if i < len(tail)] + [r for k, r in enumerate(tail) if k not in rng_order]
        rows = head + tail
    rows.append(["F", "a", "", "", "3" if kind == "fixed" else "", "Text", ""])
    case = {"settings": {k: v for k, v in settings.items()}, "cid_rows": rows}
    verdict = M.consistent(settings)
    if verdict == M.UNJUDGED:
        ctx.unjudged("combination whose consistency the statement leaves open")
        return
    ctx.case(case, True)
    ctx.count("consistency.judged")
    try:
        interface.Cid().read("<c11>", rows)
        observed = "accept"
    except errors.InterfaceError as error:
        observed = error
    except Exception as error:
        mod, fn = core.innermost_cutplace_frame(error)
        ctx.violation("C11:internal-error:consistency:%s@%s.%s" % (type(error).__name__, mod, fn), case, "completing the CID ended in an internal error", observed=error)
        return
    if verdict == M.ACCEPT and observed != "accept":
        ctx.violation("C11:consistent-settings-refused", case, "consistent combination of settings was refused", expected="accepted", observed=observed)
    elif verdict == M.REFUSE and observed == "accept":
        ctx.violation("C11:contradiction-accepted", case, "contradictory settings were accepted when the CID was completed", expected="InterfaceError", observed="accepted")


def run(ctx):
    ctx.floor("set.judged", 2000)
    ctx.floor("consistency.judged", 200)
    index = 0
    for kind in KINDS + ["csv"]:
        if ctx.mine(index) and kind != "csv":
            judge_defaults(ctx, kind)
        index += 1
        for prop in M.ALL_PROPERTIES:
            pool = value_pool(prop)
            if prop not in M.APPLIES["delimited" if kind == "csv" else kind]:
                pool = pool[:6]  # the verdict does not depend on the value: property not applicable
            for value in pool:
                index += 1
                if not ctx.mine(index):
                    continue
                judge_set(ctx, kind, prop, value, "set_property")
                REPEAT.append((kind, prop, value))
                if index % 3 == 0 or prop != "item_delimiter":
                    judge_set(ctx, kind, prop, value, "cid" if index % 2 else "cid-upper")
    # consistency rules
    delimiters = [",", ";", "\t", "|", '"', "'", "\\", "\n", "\r", ":", " ", "x"]
    quotes = ['"', "'", "\\", ":", "|" if False else "#"]
    escapes = ['"', "\\"]
    lds = ["\n", "\r", "\r\n", "any"]
    decs = [".", ","]
    thss = ["", ",", "."]
    for d, q, e, ld in itertools.product(delimiters, quotes, escapes, lds):
        index += 1
        if not ctx.mine(index):
            continue
        rng = ctx.rng("order", index)
        dec, ths = rng.choice([(".", ""), (".", ","), (",", "."), (",", "")])
        order = list(range(6))
        rng.shuffle(order)
        judge_consistency(ctx, {"kind": "delimited", "item_delimiter": d, "quote_character": q, "escape_character": e, "line_delimiter": ld,
                                "decimal_separator": dec, "thousands_separator": ths, "order": order if index % 2 else None})
    for kind in ("delimited", "fixed"):
        for dec, ths in itertools.product(decs, thss):
            for ld in lds + ([None] if kind == "fixed" else []):
                index += 1
                if not ctx.mine(index):
                    continue
                judge_consistency(ctx, {"kind": kind, "item_delimiter": ",", "quote_character": '"', "escape_character": '"', "line_delimiter": ld,
                                        "decimal_separator": dec, "thousands_separator": ths})
    # second round: every value once more, in reverse order, after everything else has been asked for
    for kind, prop, value in reversed(REPEAT):
        judge_set(ctx, kind, prop, value, "set_property")
        ctx.count("set.repeated")
    # contradictions between ONE explicit setting and the other property's default
    for rows, verdict in (
        ([["D", "Format", "Delimited"], ["D", "Thousands separator", "."]], M.REFUSE),
        ([["D", "Format", "Fixed"], ["D", "Thousands separator", "."]], M.REFUSE),
        ([["D", "Format", "Delimited"], ["D", "Decimal separator", ","], ["D", "Thousands separator", "."]], M.ACCEPT),
        ([["D", "Format", "Delimited"], ["D", "Decimal separator", ","]], M.ACCEPT),
        ([["D", "Format", "Delimited"], ["D", "Item delimiter", '"\""']], M.REFUSE),
        ([["D", "Format", "Delimited"], ["D", "Item delimiter", "34"]], M.REFUSE),
        ([["D", "Format", "Delimited"], ["D", "Item delimiter", "0x22"]], M.REFUSE),
        ([["D", "Format", "Delimited"], ["D", "Quote character", "'"], ["D", "Item delimiter", "39"]], M.REFUSE),
        ([["D", "Format", "Delimited"], ["D", "Item delimiter", "39"]], M.ACCEPT),
        ([["D", "Format", "Delimited"], ["D", "Item delimiter", "lf"], ["D", "Line delimiter", "lf"]], M.REFUSE),
        ([["D", "Format", "Delimited"], ["D", "Item delimiter", "cr"], ["D", "Line delimiter", "cr"]], M.REFUSE),
        ([["D", "Format", "Delimited"], ["D", "Quote character", ","]], M.UNJUDGED),
    ):
        index += 1
        if not ctx.mine(index) or verdict == M.UNJUDGED:
            continue
        from cutplace import errors, interface

        full = rows + [["F", "a", "", "", "3" if rows[0][2] == "Fixed" else "", "Text", ""]]
        case = {"cid_rows": full, "expect": verdict, "what": "one explicit setting against the other property's default"}
        ctx.case(case, True)
        ctx.count("consistency.judged")
        ctx.count("consistency.against-defaults")
        try:
            interface.Cid().read("<c11>", [list(r) for r in full])
            observed = M.ACCEPT
        except errors.InterfaceError as error:
            observed = M.REFUSE
        except Exception as error:
            ctx.violation("C11:internal-error:consistency:%s" % type(error).__name__, case, "completing the CID ended in an internal error", observed=error)
            continue
        if observed != verdict:
            key = "C11:contradiction-with-default-accepted" if verdict == M.REFUSE else "C11:consistent-settings-refused"
            ctx.violation(key, case, "completion of the CID does not apply the consistency rules to defaults", expected=verdict, observed=observed)
    ctx.exhaustive = True
    ctx.note("the pools of every property are enumerated completely for all four formats in both tiers")


def replay(ctx, case):
    if "cid_rows" in case and "settings" not in case:
        from cutplace import errors, interface

        ctx.case(case, True)
        try:
            interface.Cid().read("<c11>", [list(r) for r in case["cid_rows"]])
            observed = M.ACCEPT
        except errors.InterfaceError:
            observed = M.REFUSE
        if observed != case["expect"]:
            ctx.violation("C11:contradiction-with-default-accepted" if case["expect"] == M.REFUSE else "C11:consistent-settings-refused", case,
                          "completion of the CID does not apply the consistency rules to defaults", expected=case["expect"], observed=observed)
        return
    if "settings" in case:
        judge_consistency(ctx, case["settings"])
    elif case.get("value") == "(unset)":
        judge_defaults(ctx, case["format"])
    else:
        judge_set(ctx, case["format"], case["property"], case["value"], case.get("via", "set_property"))
