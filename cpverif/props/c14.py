"""C14 A validating writer emits only conforming rows; its output validates again."""
import io

from cpverif import gen, storage
from cpverif.models import rowmodel as RM
from cpverif.props import c04

LEVEL = "exploration"
RULE = (
    "sequences of 0-8 rows mixing accepted rows, rows with a rejected cell, rows with a wrong item count and duplicates "
    "(cells from the C02 pools, classified by M-field; Text cells of delimited data also with line breaks inside) written one by one (write_row, or write_rows with one row) through cutplace.Writer bound to delimited and "
    "fixed CIDs (a sixth of them named by the path of a CID file) with header 0-1, optional IsUnique and DistinctCount checks (in both declaration orders) and every fixed line-delimiter setting. After "
    "every write_row the stream is inspected: it must have grown by exactly the encoding of the row iff M-writer accepts "
    "the row; close() must fail iff the distinct-count model fails; the same rows written to a file named by its path must leave, after close() (also a close() that fails for a whole-file check), the same text in the file; the same rows handed in bulk to write_rows() of a second writer (continued after every rejection) must produce the same output and end verdict; the output is read back with cutplace.rows under a "
    "fresh CID and must be accepted completely (its end-of-data verdict being the one of the whole-file checks over the written rows) and equal the written values (modulo fixed padding). A case is (CID, row "
    "sequence), distinct by digest, non-trivial with at least one accepted and one rejected row."
)
ASSUMPTIONS = ["delimited output is compared with Python's csv.writer for the CID's (default) dialect; under 'any' (also the default) any of the three delimiters is accepted"]
OPS = ["<", "<=", "==", "!=", ">=", ">"]


def gen_case(rng, kind):
    store = "delimited-stream" if kind == "delimited" else "fixed-stream"
    model, table = c04.gen_case(rng, store)
    model.header = rng.choice([0, 0, 1])
    if kind == "delimited":
        model.line_delimiter = rng.choice(["lf", "cr", "crlf", "any", None])
        model.skip_initial_space = rng.random() < 0.15
    if kind == "fixed":
        model.line_delimiter = rng.choice(["lf", "cr", "crlf", "any", None, "none", "none"])
        if rng.random() < 0.25:
            # blank is not an allowed character: values shorter than the field cannot be written in a way the reader accepts
            from cpverif.models import rangemodel as R

            model.allowed_text = rng.choice(["33...", "33...126, 160..."])
            model.fmt = dict(model.fmt, allowed=R.parse_int_range(model.allowed_text))
    if rng.random() < 0.4:
        f = rng.choice(model.fields)["name"]
        dist = {"desc": "dist", "type": "DistinctCount", "field": f, "op": rng.choice(OPS), "n": rng.randint(0, 4)}
        # declared after or before the IsUnique check (the order in which a row reaches them)
        if rng.random() < 0.5:
            model.checks.append(dist)
        else:
            model.checks.insert(0, dist)
    widths = model.widths() if kind == "fixed" else None
    rows = [r for r in table if True]
    # rebuild: header rows first (well-formed strings), then data rows from the generated table
    data = [r for r in table[len(table) - max(0, len(table) - 0):]]
    header_rows = []
    for h in range(model.header):
        header_rows.append([("H%d" % i)[: (widths[i] if widths else 9)] for i in range(len(model.fields))])
    if kind == "fixed" and header_rows and rng.random() < 0.3:
        # a heading that does not fit the fixed layout: one cell too wide, or one cell too many / too few
        bad = list(header_rows[0])
        how = rng.choice(["wide", "more", "less"])
        if how == "wide":
            bad[rng.randrange(len(bad))] = "heading that is too wide"
        elif how == "more":
            bad.append("x")
        elif len(bad) > 1:
            bad.pop()
        else:
            bad[0] = "heading that is too wide"
        header_rows.insert(0, bad)
    data_rows = [r for r in table if not (r and isinstance(r[0], str) and (r[0].startswith("junk") or r[0].startswith("#")))]
    if kind == "delimited" and model.skip_initial_space:
        # values that start with blanks: what is written has to come back as written
        for row in data_rows:
            for i, cell in enumerate(row):
                if i < len(model.fields) and model.fields[i]["type"] == "Text" and rng.random() < 0.4:
                    row[i] = " " * rng.randint(1, 2) + cell
    if kind == "delimited":
        # values with line breaks inside: they are part of the value, whatever the declared line delimiter is
        for row in data_rows:
            for i, cell in enumerate(row):
                if i < len(model.fields) and model.fields[i]["type"] == "Text" and rng.random() < 0.12:
                    cut = rng.randint(0, len(cell))
                    row[i] = cell[:cut] + rng.choice(["\r\n", "\n", "\r", "\n\r", "\r\n\r\n"]) + cell[cut:]
    if kind == "fixed":
        # callers may hand over values that are already (partly) padded with blanks: "ab" and "ab  " denote the same cell
        for row in data_rows:
            for i, cell in enumerate(row):
                if i < len(widths) and len(cell) < widths[i] and rng.random() < 0.3:
                    row[i] = cell + " " * rng.randint(1, widths[i] - len(cell))
                elif i < len(widths) and 0 < len(cell) <= widths[i] and rng.random() < 0.06:
                    # ... but a value that is wider than its field - if only by blanks - does not fit the field
                    row[i] = cell + " " * (widths[i] - len(cell) + rng.randint(1, 3))
        # wrong item counts are possible through the writer API even for fixed data
        if data_rows and rng.random() < 0.3:
            k = rng.randrange(len(data_rows))
            data_rows[k] = data_rows[k][:-1] if rng.random() < 0.5 else data_rows[k] + ["x"]
    if data_rows and rng.random() < 0.08:
        # an item that is no text at all (None, a number): the writer refuses the row like any other row it cannot take
        k = rng.randrange(len(data_rows))
        if data_rows[k]:
            data_rows[k][rng.randrange(len(data_rows[k]))] = rng.choice([None, 7])
    return model, header_rows + data_rows


def encode(model, row):
    if model.kind == "delimited":
        return [storage.delimited_text([row], model.quote, model.escape)]
    text = "".join(cell.ljust(w) for cell, w in zip(row, model.widths()))
    ld = model.line_delimiter
    if ld == "none":
        return [text]
    if ld in (None, "any"):
        return [text + d for d in ("\n", "\r", "\r\n")]
    return [text + {"lf": "\n", "cr": "\r", "crlf": "\r\n"}[ld]]


def check_case(ctx, model, rows, cid_by_path=False, one_by_one_through_write_rows=False):
    import os

    import cutplace
    from cutplace import errors

    case = {"cid": model.to_json(), "rows": rows, "cid_by_path": cid_by_path, "one_by_one_through_write_rows": one_by_one_through_write_rows}
    try:
        cid = gen.load_cid(model)
    except errors.InterfaceError as error:
        ctx.case(case, True)
        ctx.violation("C14:cid-refused", case, "generated valid CID refused", observed=error)
        return
    state = RM.CheckState(model)
    target = io.StringIO(newline="")
    verdicts = []
    written = []
    written_as_judged = []  # the data rows that were written, as the row model saw them (header rows: None)
    try:
        if cid_by_path:
            # the writer is bound to the CID by the path of the CID, like readers can be
            cid_path = os.path.join(ctx.tmp, "cid_c14.csv")
            with open(cid_path, "w", encoding="utf-8", newline="") as f:
                f.write(storage.delimited_text(model.cid_rows()))
            writer = cutplace.Writer(cid_path, target)
            ctx.count("writers.bound-by-cid-path")
        else:
            writer = cutplace.Writer(cid, target)
    except Exception as error:
        from cpverif import core

        mod, fn = core.innermost_cutplace_frame(error)
        ctx.case(case, True)
        ctx.violation("C14:writer-crash:%s@%s.%s" % (type(error).__name__, mod, fn), case, "creating the writer failed", observed=error)
        return
    n_written = 0
    unjudged = False
    for index, row in enumerate(rows):
        before = target.getvalue()
        if n_written < model.header:
            verdict = (RM.ACCEPTED,)  # header rows are written without validation
            if model.kind == "fixed" and (len(row) != len(model.fields) or any(len(c) > w for c, w in zip(row, model.widths()))):
                # ... but what cannot be laid out in the fixed columns cannot be written
                verdict = (RM.REJECTED, "header-shape")
        else:
            # fixed-width cells are compared as they appear in the output (padded to the field width): the writer's
            # verdict has to be the one the reader will give to the written record
            as_written = row
            if model.kind == "fixed" and len(row) == len(model.fields) and all(isinstance(c, str) and len(c) <= w for c, w in zip(row, model.widths())):
                as_written = [c.ljust(w) for c, w in zip(row, model.widths())]
            verdict = RM.validate_row(model, as_written, state, n_written + 1)
        if verdict[0] == RM.UNJUDGED:
            unjudged = True
            break
        outcome = None
        try:
            if one_by_one_through_write_rows:
                writer.write_rows([row])  # the other spelling of the same thing
                ctx.count("writes.through-write_rows")
            else:
                writer.write_row(row)
            outcome = "written"
        except errors.DataError as error:
            outcome = error
        except Exception as error:
            from cpverif import core

            mod, fn = core.innermost_cutplace_frame(error)
            ctx.case(case, True)
            ctx.violation("C14:write-crash:%s@%s.%s" % (type(error).__name__, mod, fn), case, "write_row failed with an internal error at row %d" % (index + 1), observed=error)
            return
        after = target.getvalue()
        ctx.count("writes.judged")
        verdicts.append(verdict[0])
        if verdict[0] == RM.ACCEPTED:
            if outcome != "written":
                ctx.case(case, True)
                key = "C14:conforming-row-refused"
                if any(v == RM.REJECTED for v in verdicts[:-1]):
                    key = "C14:conforming-row-refused-after-rejection"
                ctx.violation(key, case, "row %d conforms but the writer refused it" % (index + 1), expected="written", observed=outcome)
                return
            grown = after[len(before):] if after.startswith(before) else None
            acceptable = encode(model, row)
            if model.kind == "delimited":
                # lines end with the declared line delimiter; under 'any' (the default) any of the three is fine
                body = acceptable[0][:-2]
                declared = {"lf": "\n", "cr": "\r", "crlf": "\r\n"}.get(model.line_delimiter)
                acceptable = [body + d for d in (("\r\n", "\n", "\r") if declared is None else (declared,))]
            if grown is None or grown not in acceptable:
                ctx.case(case, True)
                ctx.violation("C14:emitted-text", case, "the text emitted for row %d is not the encoding of the row" % (index + 1),
                              expected=acceptable, observed=grown if grown is not None else after)
                return
            written.append(row)
            written_as_judged.append(list(as_written) if n_written >= model.header else None)
            n_written += 1
        else:
            if outcome == "written":
                ctx.case(case, True)
                ctx.violation("C14:offending-row-written:%s" % verdict[1], case, "row %d must be rejected (%s) but was written" % (index + 1, verdict[1]),
                              expected=list(verdict), observed=after[len(before):])
                return
            if after != before:
                ctx.case(case, True)
                ctx.violation("C14:stream-grew-on-rejection", case, "the stream changed although row %d was rejected" % (index + 1), expected=before, observed=after)
                return
    if unjudged:
        ctx.unjudged("row containing a cell the field model does not judge")
        return
    ctx.case(case, RM.ACCEPTED in verdicts and RM.REJECTED in verdicts)
    end_expected = state.end_verdict()
    end_error = None
    try:
        writer.close()
    except errors.CheckError as error:
        end_error = error
    except Exception as error:
        ctx.violation("C14:close-crash:%s" % type(error).__name__, case, "close failed with an internal error", observed=error)
        return
    ctx.count("closes.judged")
    if (end_expected is not None) != (end_error is not None):
        ctx.violation("C14:end-check", case, "close() does not agree with the whole-file checks over the written rows",
                      expected="CheckError" if end_expected is not None else "no error", observed=end_error)
        return
    # ---- read back under a fresh CID
    output = target.getvalue() if not target.closed else None
    if output is None:
        ctx.inconclusive_because("writer closed a stream it did not open")
        return
    # ---- the same rows written to a file named by its path: when close() has returned - or has failed for a whole-file
    # check - the file holds what the stream holds
    file_path = os.path.join(ctx.tmp, "c14_target.txt")
    try:
        # (a second writer bound to the SAME Cid object as the first one, which is closed by now: one run after the other)
        file_writer = cutplace.Writer(cid, file_path)
        for row in rows:
            try:
                file_writer.write_row(row)
            except errors.DataError:
                pass
        try:
            file_writer.close()
        except errors.CheckError:
            ctx.count("file-targets.close-failed-for-a-check")
        with open(file_path, encoding="utf-8", newline="") as f:
            file_text = f.read()
        ctx.count("file-targets.judged")
        if file_text != output:
            ctx.violation("C14:file-differs-from-stream", case, "after close() the file named by a path does not hold the rows the writer accepted",
                          expected=output, observed=file_text)
            return
        # ... and reading the file by its path gives what reading the text from a stream gives
        def produced(source):
            items = []
            try:
                for item in cutplace.rows(gen.load_cid(model), source, on_error="yield"):
                    items.append(type(item).__name__ if isinstance(item, Exception) else list(item))  # (the texts name the input)
            except errors.CheckError:
                items.append("end: CheckError")
            return items

        from_path, from_stream = produced(file_path), produced(io.StringIO(output, newline=""))
        if from_path != from_stream:
            ctx.violation("C14:readback-from-path-differs", case, "reading the written file by its path gives other rows than reading the same text from a stream",
                          expected=from_stream, observed=from_path)
            return
    except Exception as error:
        from cpverif import core

        mod, fn = core.innermost_cutplace_frame(error)
        ctx.violation("C14:file-target-crash:%s@%s.%s" % (type(error).__name__, mod, fn), case, "writing the rows to a file failed with an internal error", observed=error)
        return
    finally:
        if os.path.exists(file_path):
            os.remove(file_path)
    # ---- the same rows handed over in bulk: write_rows() stops at a rejected row, and calling it again with what is
    # left of the iterator carries on - the result has to be what row-by-row writing produced
    bulk_target = io.StringIO(newline="")
    bulk_end = None
    try:
        bulk_writer = cutplace.Writer(gen.load_cid(model), bulk_target)
        remaining = iter(rows)
        while True:
            try:
                bulk_writer.write_rows(remaining)
                break
            except errors.DataError:
                ctx.count("bulk.continued-after-rejection")
        try:
            bulk_writer.close()
        except errors.CheckError as error:
            bulk_end = error
    except Exception as error:
        from cpverif import core

        mod, fn = core.innermost_cutplace_frame(error)
        ctx.violation("C14:bulk-crash:%s@%s.%s" % (type(error).__name__, mod, fn), case, "writing the rows with write_rows() failed with an internal error", observed=error)
        return
    ctx.count("bulk.judged")
    if bulk_target.getvalue() != output or (bulk_end is not None) != (end_error is not None):
        ctx.violation("C14:write_rows-differs-from-write_row", case, "writing the rows with write_rows() (continued after every rejection) does not produce what writing them one by one produces",
                      expected={"output": output, "end": core_json(end_error)}, observed={"output": bulk_target.getvalue(), "end": core_json(bulk_end)})
        return
    back = []
    back_error = None
    try:
        for item in cutplace.rows(gen.load_cid(model), io.StringIO(output, newline=""), on_error="yield"):
            back.append(item)
    except errors.CheckError as error:
        back_error = error
    except Exception as error:
        ctx.violation("C14:readback-failed:%s" % type(error).__name__, case, "the produced output cannot be read back", expected="rows", observed={"output": output, "error": core_json(error)})
        return
    ctx.count("readbacks.judged")
    data_written = written[model.header:]
    lost_blank = model.kind == "delimited" and model.skip_initial_space and any(isinstance(c, str) and c.startswith(" ") for r in data_written for c in r)
    if lost_blank and (any(isinstance(i, Exception) for i in back) or [list(r) for r in back] != [list(r) for r in data_written]):
        ctx.violation("C14:skip-initial-space:leading-blank-lost", case, "a written value that starts with a blank does not come back as written under 'skip initial space'",
                      expected=data_written, observed=[core_json(i) for i in back])
        return
    if any(isinstance(i, Exception) for i in back):
        ctx.violation("C14:readback-rejects", case, "reading the output back rejects a row", expected=data_written, observed=[core_json(i) for i in back])
        return
    if model.kind == "fixed":
        want = [[c.ljust(w) for c, w in zip(r, model.widths())] for r in data_written]
    else:
        want = [list(r) for r in data_written]
    if [list(r) for r in back] != want:
        ctx.violation("C14:readback-differs", case, "rows read back differ from the rows written", expected=want, observed=back)
        return
    # "its output validates again": the end-of-data verdict over the rows that were written
    again = RM.expected_run(model, [["header"]] * model.header + [r for r in written_as_judged if r is not None])
    if again is None:
        ctx.unjudged("written rows the row model does not judge")
        return
    if (back_error is not None) != (again["end"] is not None):
        ctx.violation("C14:readback-end-check", case, "end-of-data verdict of the read-back differs from the whole-file checks over the written rows", expected=again["end"], observed=back_error)
    elif (end_expected is not None) != (again["end"] is not None):
        # the writer's own verdict at close() was the model's (judged above), the read-back's is the model's over the
        # written rows, and the two differ: a DistinctCount check declared before the check that rejected a row has
        # counted that row although it was never written
        ctx.violation("C14:end-verdict-counts-rows-a-later-check-rejected", case,
                      "close() of the writer and validating its output again disagree: a check declared earlier has counted a row that a later-declared check rejected (and that was not written)",
                      expected={"validating the output": again["end"]}, observed={"writer.close()": core_json(end_error)})


def core_json(obj):
    from cpverif import core

    return core.jsonable(obj)


ENCODING_CASES = [
    ("utf-16", ["abc", "\u00e4\u00f6\u00fc", "x"], "\ud800x"),
    ("utf-32", ["abc", "\u00e4\u00f6\u00fc", "x"], "\ud800x"),
    ("utf-8", ["abc", "\u00e4\u20ac", "x"], "\udc80"),
    ("iso2022_jp", ["abc", "\u3042", "\u3042\u3044"], "\u3042\U0001f600"),
    ("iso2022_kr", ["abc", "\ud55c", "\ud55c\uae00"], "\ud55c\U0001f600"),
    ("hz", ["abc", "\u4e2d", "\u4e2d\u6587"], "\u4e2d\U0001f600"),
    ("ascii", ["abc", "x", "y"], "\u00e4"),
    ("cp1252", ["abc", "\u00e4", "\u20ac"], "\u3042"),
    ("shift_jis", ["abc", "\u3042", "\u30a2"], "\U0001f600"),
]


def encoding_refusals(ctx, index):
    """A row that cannot be encoded for the target file is refused as a whole - also for encodings with a byte order mark
    or with shift sequences - and the rows accepted before and after it come back as written."""
    import os

    import cutplace
    from cutplace import errors, interface

    rng = ctx.rng("encoding", index)
    encoding, good, bad = ENCODING_CASES[index % len(ENCODING_CASES)]
    kind = ["delimited", "fixed"][(index // len(ENCODING_CASES)) % 2]
    rows = [["D", "Format", kind.capitalize()], ["D", "Encoding", encoding]]
    if kind == "fixed":
        rows += [["D", "Line delimiter", "LF"], ["F", "a", "", "", "4", "Text", ""], ["F", "b", "", "", "2", "Text", ""]]
    else:
        rows += [["F", "a", "", "", "", "Text", ""], ["F", "b", "", "", "", "Text", ""]]
    values = [rng.choice(good) for _ in range(rng.randint(2, 5))]
    position = rng.choice([0, 0, 1, len(values)])
    sequence = [[v, "ok"] for v in values]
    sequence.insert(position, [bad, "no"])
    case = {"cid_rows": rows, "rows": sequence, "refused_at": position + 1, "what": "row that cannot be encoded for the target file"}
    ctx.case(case, True)
    ctx.count("encoding-refusals.judged")
    cid = interface.Cid()
    cid.read("<c14>", rows)
    path = os.path.join(ctx.tmp, "encoded.txt")
    accepted = []
    try:
        with cutplace.Writer(cid, path) as writer:
            for row in sequence:
                try:
                    writer.write_row(row)
                    accepted.append(row)
                except errors.DataError:
                    pass
        if [bad, "no"] in accepted:
            ctx.unjudged("the runtime can encode the probe value after all")
            return
        if accepted != [row for row in sequence if row != [bad, "no"]]:
            # "can continue after a rejection": the rows around the refused one can be encoded
            ctx.violation("C14:conforming-row-refused-after-encoding-refusal:%s" % kind, case, "a row that can be encoded was refused next to a row that cannot",
                          expected=[row for row in sequence if row != [bad, "no"]], observed=accepted)
            return
        cid2 = interface.Cid()
        cid2.read("<c14>", rows)
        back = [list(r) for r in cutplace.rows(cid2, path)]
    except Exception as error:
        ctx.violation("C14:output-unreadable-after-encoding-refusal:%s" % encoding, case, "after a row was refused for its encoding the output of the accepted rows cannot be read back",
                      expected=accepted, observed=error)
        return
    finally:
        if os.path.exists(path):
            os.remove(path)
    want = [[v.ljust(4), w.ljust(2)] for v, w in accepted] if kind == "fixed" else accepted
    if back != want:
        ctx.violation("C14:rows-changed-after-encoding-refusal:%s" % encoding, case, "rows accepted next to a row refused for its encoding do not come back as written", expected=want, observed=back)


def run(ctx):
    for i in range(ctx.pick(90, 1800)):
        if ctx.mine(i):
            encoding_refusals(ctx, i)
    if ctx.mine(0):
        # the smallest history of the open finding (9.3), so that every run meets it: the value z is only ever seen in
        # a row that the later-declared IsUnique check rejects
        fields = [{"name": "a", "type": "Text", "empty": False, "length": "", "rule": ""}, {"name": "b", "type": "Text", "empty": False, "length": "", "rule": ""}]
        checks = [{"desc": "dist", "type": "DistinctCount", "field": "b", "op": ">=", "n": 3}, {"desc": "uniq", "type": "IsUnique", "fields": ["a"]}]
        check_case(ctx, RM.CidModel("delimited", fields, checks), [["1", "x"], ["2", "y"], ["1", "z"]])
    ctx.floor("writes.judged", 1000)
    ctx.floor("readbacks.judged", 200)
    n = ctx.pick(1500, 75000)
    for i in range(n):
        if not ctx.mine(i):
            continue
        rng = ctx.rng("case", i)
        kind = "delimited" if i % 2 == 0 else "fixed"
        model, rows = gen_case(rng, kind)
        check_case(ctx, model, rows, cid_by_path=(i % 6 == 5), one_by_one_through_write_rows=(i % 4 >= 2))


def replay(ctx, case):
    if "cid_rows" in case:
        ctx.note("regenerated by index; rerun the quick check to reproduce")
        for i in range(90):
            encoding_refusals(ctx, i)
        return
    check_case(ctx, RM.CidModel.from_json(case["cid"]), case["rows"], case.get("cid_by_path", False), case.get("one_by_one_through_write_rows", False))
