"""C06 Error-handling modes agree with each other and account for every row."""
import io
import os

from cpverif import gen, storage
from cpverif.models import rowmodel as RM
from cpverif.props import c04

LEVEL = "exploration"
RULE = (
    "tables as in C04 (accepted and rejected cells, ragged rows, duplicates under IsUnique, headers; 60% of the CIDs with a DistinctCount check that "
    "may fail at the end of the data or on a part of it) read three times, alternately through Reader.rows() with an explicit close() and through cutplace.rows() - "
    "on_error = yield, continue, raise - on freshly loaded CIDs from six storages; relational oracle: continue == accepted "
    "rows of yield, raise == prefix before the first rejection + that same error (type and text), yielded errors keep "
    "their location after the iteration moved on, accepted + rejected == number of data rows (also under a validation limit, where the rows behind it count as accepted); each also compared with "
    "M-reader. Container faults injected at every row boundary k: unterminated quote opened in row k, UTF-16 / UTF-32 data without byte order mark, fixed data that end at every position inside their last record or inside its CR LF, undecodable byte in "
    "row k (files, utf-8 and ascii), fixed record k cut short or its delimiter replaced, ODS/XLSX archives truncated at "
    "every 64th byte and content.xml cut - expected: rows before the fault as usual (a prefix for decoding faults), then "
    "DataFormatError, in every mode. A case is (CID, table, storage, fault) over the three modes, distinct by digest, "
    "non-trivial with at least one rejection or a container fault."
)
ASSUMPTIONS = ["an exception that ends a complete yield/continue pass through cutplace.rows() is the end-of-data verdict of a check and has to be the same in both modes"]
MODES = ["yield", "continue", "raise"]


def strip_distinct(model):
    model.checks = [c for c in model.checks if c["type"] == "IsUnique"]
    return model


def run_modes(ctx, model, make_src, case, expected, fault=None):
    """Reads the source once per mode on fresh CIDs and applies the relational + model oracles."""
    from cutplace import errors

    api = case.get("api", "reader")
    reader_function = gen.read_with_rows if api == "rows" else gen.read_with_reader

    observations = {}
    for mode in MODES:
        try:
            cid = gen.load_cid(model)
        except errors.InterfaceError as error:
            ctx.violation("C06:cid-refused", case, "generated valid CID refused", observed=error)
            return
        source = make_src()
        ctx.count("reads.%s" % mode)
        try:
            observations[mode] = reader_function(cid, source, mode=mode, until=case.get("until"))
        except OSError as error:
            if fault and fault["kind"] in ("archive-truncated", "content-xml-cut"):
                ctx.unjudged("damaged archive reported as OSError (environment)")
                return
            raise
        except Exception as error:
            from cpverif import core

            mod, fn = core.innermost_cutplace_frame(error)
            what = "malformed container ended in something else than a data-format error" if fault else "reading failed with an internal error"
            ctx.violation("C06:%s:%s@%s.%s" % ("fault-escape" if fault else "crash", type(error).__name__, mod, fn), dict(case, mode=mode), what,
                          expected="DataFormatError" if fault else "rows", observed=error)
            return
    y, c, r = observations["yield"], observations["continue"], observations["raise"]
    # ---- yielded errors keep their location
    for item in y.items:
        if item[0] == "error":
            ctx.count("yielded-errors.reinspected")
            now = gen.snapshot(item[1])
            if now != item[2]:
                ctx.violation("C06:yielded-error-mutated", case, "a yielded error changed after the iteration moved on", expected=item[2], observed=now)
                return
    y_rows = [i[1] for i in y.items if i[0] == "row"]
    c_rows = [i[1] for i in c.items]
    if any(i[0] != "row" for i in c.items):
        ctx.violation("C06:continue-yields-errors", case, "continue mode produced an error object", observed=gen.describe_items(c.items))
        return
    if fault is None or fault.get("deterministic_prefix", True):
        if c_rows != y_rows:
            ctx.violation("C06:continue-differs-from-yield", case, "continue mode does not produce the accepted rows of yield mode", expected=y_rows, observed=c_rows)
            return
    first_err = next((k for k, i in enumerate(y.items) if i[0] == "error"), None)
    if first_err is not None:
        prefix = [i[1] for i in y.items[:first_err]]
        r_rows = [i[1] for i in r.items]
        if r_rows != prefix:
            ctx.violation("C06:raise-prefix", case, "raise mode did not produce exactly the rows before the first rejection", expected=prefix, observed=gen.describe_items(r.items))
            return
        want = y.items[first_err]
        if r.raised is None:
            ctx.violation("C06:raise-did-not-raise", case, "raise mode did not raise the first rejection", expected=want[2], observed="no exception")
            return
        if type(r.raised) is not type(want[1]) or str(r.raised) != want[2]["text"]:
            ctx.violation("C06:raise-other-error", case, "raise mode raised a different error than yield mode reported for that row",
                          expected=want[2], observed=gen.snapshot(r.raised))
            return
        ctx.count("raise-vs-yield.judged")
    elif fault is None:
        same_end = api == "rows" and r.raised is not None and y.raised is not None and type(r.raised) is type(y.raised) and str(r.raised) == str(y.raised)
        if (r.raised is not None and not same_end) or [i[1] for i in r.items] != y_rows:
            ctx.violation("C06:raise-differs-without-rejection", case, "raise mode differs from yield mode although nothing was rejected",
                          expected=y_rows, observed=[gen.describe_items(r.items), r.raised])
            return
    if fault is None:
        # ---- complete pass: conservation + model
        end_y = y.end_error if api == "reader" else y.raised
        end_c = c.end_error if api == "reader" else c.raised
        if (end_y is None) != (end_c is None) or (end_y is not None and (type(end_y) is not type(end_c) or str(end_y) != str(end_c))):
            ctx.violation("C06:end-verdict-differs", case, "yield and continue mode end the same data differently", expected=gen.snapshot(end_y) if end_y else None,
                          observed=gen.snapshot(end_c) if end_c else None)
            return
        if api == "rows":
            # the counters are not available through cutplace.rows(); an exception at the end must be the verdict of a check
            for mode, obs in (("yield", y), ("continue", c)):
                ctx.count("rows-api.complete-passes")
                if obs.raised is not None and not isinstance(obs.raised, errors.CheckError):
                    ctx.violation("C06:incomplete-pass", dict(case, mode=mode), "a well-formed container was not read completely", observed=obs.raised)
                    return
                if obs.raised is not None:
                    ctx.count("rows-api.failed-at-end")
        for mode, obs in (("yield", y), ("continue", c)) if api == "reader" else ():
            ctx.count("conservation.judged")
            n_data = max(0, len(expected["raw"]) - model.header)
            if obs.raised is not None or not obs.completed:
                ctx.violation("C06:incomplete-pass", dict(case, mode=mode), "a well-formed container was not read completely", observed=obs.raised)
                return
            if obs.accepted is None or obs.rejected is None or obs.accepted + obs.rejected != n_data:
                ctx.violation("C06:counters", dict(case, mode=mode), "accepted + rejected does not add up to the number of data rows",
                              expected=n_data, observed=[obs.accepted, obs.rejected])
                return
            if obs.accepted != len(y_rows) or obs.rejected != len(y.items) - len(y_rows):
                ctx.violation("C06:counters-vs-items", dict(case, mode=mode), "counters disagree with the produced items",
                              expected=[len(y_rows), len(y.items) - len(y_rows)], observed=[obs.accepted, obs.rejected])
                return
        if expected["run"] is not None:
            exp = expected["run"]["items"]
            got_kinds = [i[0] for i in y.items]
            if got_kinds != [e[0] for e in exp]:
                ctx.violation("C06:yield-vs-model", case, "yield mode disagrees with the row model", expected=[e[:2] for e in exp], observed=gen.describe_items(y.items))
                return
            ctx.count("model.judged")
    else:
        # ---- malformed container: DataFormatError in every mode, after the expected prefix
        for mode, obs in observations.items():
            ctx.count("faults.judged")
            if obs.raised is None:
                if fault.get("may_be_benign"):
                    ctx.unjudged("corrupted container that still parses")
                    continue
                ctx.violation("C06:fault-not-reported:%s" % fault["kind"], dict(case, mode=mode), "malformed container did not stop reading with an error",
                              expected="DataFormatError", observed=gen.describe_items(obs.items))
                return
            if not isinstance(obs.raised, errors.DataFormatError):
                if fault.get("may_be_benign") and isinstance(obs.raised, errors.CheckError) and (mode != "raise" or first_err is None):
                    ctx.unjudged("corrupted container that still parses")  # ... and fails a check at the end of the data
                    continue
                if mode == "raise" and first_err is not None and isinstance(obs.raised, errors.DataError):
                    continue  # a row rejection before the fault position surfaced first
                ctx.violation("C06:fault-wrong-error:%s" % fault["kind"], dict(case, mode=mode), "malformed container ended in another error than DataFormatError",
                              expected="DataFormatError", observed=gen.snapshot(obs.raised))
                return
        if expected["run"] is not None and fault.get("prefix_rows") is not None and not fault.get("may_be_benign"):
            exp = [e for e in expected["run"]["items"] if True][: fault["prefix_rows"]]
            got = y.items
            if fault.get("deterministic_prefix", True):
                if [i[0] for i in got] != [e[0] for e in exp]:
                    ctx.violation("C06:fault-prefix:%s" % fault["kind"], case, "rows before the fault were not produced as usual",
                                  expected=[e[:2] for e in exp], observed=gen.describe_items(got))
                    return
            elif [i[0] for i in got] != [e[0] for e in exp][: len(got)]:
                ctx.violation("C06:fault-prefix:%s" % fault["kind"], case, "items produced before the fault are not a prefix of the expected ones",
                              expected=[e[:2] for e in exp], observed=gen.describe_items(got))
                return


def add_distinct(rng, model):
    """A check that can fail at the end of the data - and that would fail on a part of the data although it holds on the
    whole, or the other way round."""
    strip_distinct(model)
    f = rng.choice(model.fields)["name"]
    position = rng.choice([0, len(model.checks)])
    model.checks.insert(position, {"desc": "dist", "type": "DistinctCount", "field": f, "op": rng.choice(["<", "<=", "==", "!=", ">=", ">"]), "n": rng.randint(0, 4)})


def clean_case(ctx, index):
    rng = ctx.rng("case", index)
    store = gen.STORAGES[index % len(gen.STORAGES)]
    model, table = c04.gen_case(rng, store)
    strip_distinct(model)
    api = "rows" if (index // len(gen.STORAGES)) % 2 else "reader"
    if rng.random() < 0.6:
        add_distinct(rng, model)
    case = {"cid": model.to_json(), "table": table, "storage": store, "fault": None, "api": api}
    if rng.random() < 0.3:
        # under a validation limit too: the rows behind it are returned without being judged, and counted all the same
        case["until"] = rng.randint(0, len(table) + 1)
        ctx.count("cases.with-validation-limit")
    check_clean(ctx, model, table, store, case)


def check_clean(ctx, model, table, store, case):
    sources = []

    def make_src():
        src, raw, name = gen.make_source(ctx, model, table, store, tag="data")  # same input name in every mode
        sources.append(src)
        make_src.raw = raw
        return src

    _, raw, _ = gen.make_source(ctx, model, table, store, tag="probe")
    run = RM.expected_run(model, raw, validate_until=case.get("until"))
    rejections = 0 if run is None else sum(1 for e in run["items"] if e[0] == "error")
    ctx.case(case, rejections >= 1)
    run_modes(ctx, model, make_src, case, {"raw": raw, "run": run})
    for s in sources:
        if isinstance(s, str) and os.path.exists(s):
            os.remove(s)


# ---------------------------------------------------------------------------------- faults
def fault_cases(ctx, index):
    """One generated table, every fault kind that applies to its storage, at every row boundary."""
    rng = ctx.rng("fault", index)
    store = ["delimited-file", "fixed-file", "ods", "xlsx", "delimited-stream", "fixed-stream"][index % 6]
    model, table = c04.gen_case(rng, store)
    strip_distinct(model)
    if model.line_delimiter in ("any", "none"):
        # the fixed faults below are built around one declared delimiter (without any delimiter a record cut short is
        # just a shorter last record and there is no delimiter to replace)
        model.line_delimiter = {"any": None, "none": "lf"}[model.line_delimiter]
    model.fault_api = "rows" if (index // 6) % 2 else "reader"
    if rng.random() < 0.6:
        add_distinct(rng, model)
    kind = gen.KIND_OF_STORAGE[store]
    if kind == "delimited":
        table = [r for r in table if r != []] or [["a"] * len(model.fields)]
        for k in range(len(table)):
            broken = [list(r) for r in table]
            rest = storage.delimited_text(broken[k + 1 :], model.quote, model.escape)
            text_rows = storage.delimited_text(broken[:k], model.quote, model.escape) + model.quote + "unterminated" + ",x" * (len(model.fields) - 1) + "\r\n" + rest
            fault = {"kind": "unterminated-quote", "row": k + 1, "prefix_rows": max(0, k - model.header),
                     "may_be_benign": model.quote in rest or model.escape in rest}
            check_fault_text(ctx, model, store, text_rows, table[:k], fault)
        if store == "delimited-file":
            for k in range(len(table)):
                for enc in ("utf-8", "ascii"):
                    data = storage.delimited_text(table[:k], model.quote, model.escape).encode("utf-8") + b"ab\xffcd" + b",x" * (len(model.fields) - 1) + b"\r\n" + storage.delimited_text(table[k + 1 :], model.quote, model.escape).encode("utf-8")
                    if enc == "ascii" and any(ord(ch) > 127 for r in table[:k] for cell in r for ch in cell):
                        continue
                    fault = {"kind": "undecodable-byte", "row": k + 1, "encoding": enc, "prefix_rows": max(0, k - model.header), "deterministic_prefix": False}
                    check_fault_bytes(ctx, model, store, data, table[:k], fault, enc)
            # the codec itself refuses the input before the first character: data of a CID that declares UTF-16 / UTF-32
            # written without the byte order mark these encodings start with
            for enc in ("utf-16", "utf-32"):
                data = storage.delimited_text(table, model.quote, model.escape).encode(enc + "-le")
                fault = {"kind": "missing-byte-order-mark", "row": 1, "encoding": enc, "prefix_rows": 0, "deterministic_prefix": False}
                check_fault_bytes(ctx, model, store, data, [], fault, enc)
    elif kind == "fixed":
        widths = model.widths()
        delim = {"lf": "\n", "cr": "\r", "crlf": "\r\n", None: "\n"}[model.line_delimiter]
        if not table:
            table = [["x".ljust(w)[:w] for w in widths]]
        records = ["".join(c.ljust(w) for c, w in zip(r, widths)) for r in table]
        for k in range(len(records)):
            # (1) record k cut short by one character (last record: a short record; otherwise misalignment)
            cut = [r + delim for r in records]
            # (the last record is cut together with its delimiter, otherwise the delimiter just fills the gap)
            cut[k] = records[k][:-1] + (delim if k < len(records) - 1 else "")
            if cut[k] == "":
                continue  # a one-character last record cut away leaves a well-formed file
            fault = {"kind": "short-record", "row": k + 1, "prefix_rows": max(0, k - model.header)}
            check_fault_text(ctx, model, store, "".join(cut), table[:k], fault)
            # (2) delimiter of record k replaced by a letter
            if k < len(records) - 1:
                bad = [r + delim for r in records]
                bad[k] = records[k] + "X" * len(delim)
                fault = {"kind": "wrong-delimiter", "row": k + 1, "prefix_rows": max(0, k - model.header)}
                check_fault_text(ctx, model, store, "".join(bad), table[:k], fault)
        # (2b) the data end inside the delimiter of the last record (CR LF cut after the CR)
        if len(delim) == 2:
            text = "".join(r + delim for r in records)[:-1]
            fault = {"kind": "partial-delimiter", "row": len(records), "prefix_rows": max(0, len(records) - 1 - model.header)}
            check_fault_text(ctx, model, store, text, table[: len(records) - 1], fault)
        # (3) the data end inside the last record, at every position - also where only blanks of a right-aligned first
        # value are left of it
        last = records[-1]
        if widths[0] >= 3:
            last = "  " + last[2:]
        for n in range(1, len(last)):
            text = "".join(r + delim for r in records[:-1]) + last[:n]
            fault = {"kind": "short-record", "row": len(records), "prefix_rows": max(0, len(records) - 1 - model.header), "cut_after": n}
            check_fault_text(ctx, model, store, text, table[: len(records) - 1], fault)
        if store == "fixed-file":
            for k in range(len(records)):
                body = "".join(r + delim for r in records[:k]).encode("utf-8") + b"\xff" + records[k][1:].encode("utf-8") + delim.encode() + "".join(r + delim for r in records[k + 1 :]).encode("utf-8")
                fault = {"kind": "undecodable-byte", "row": k + 1, "encoding": "utf-8", "prefix_rows": max(0, k - model.header), "deterministic_prefix": False}
                check_fault_bytes(ctx, model, store, body, table[:k], fault, "utf-8")
    else:
        path = os.path.join(ctx.tmp, "whole.%s" % ("ods" if kind == "ods" else "xlsx"))
        if kind == "ods":
            storage.write_ods(path, [table])
        else:
            storage.write_xlsx(path, [table])
        with open(path, "rb") as f:
            data = f.read()
        os.remove(path)
        step = 64 if ctx.tier == "thorough" else 256
        for cut in range(0, len(data), step):
            fault = {"kind": "archive-truncated", "at": cut, "prefix_rows": None}
            check_fault_bytes(ctx, model, store, data[:cut], [], fault, None)
        # the archive's directory intact, but bytes inside the compressed data of a part overwritten
        import struct
        import zipfile as _zipfile

        with _zipfile.ZipFile(io.BytesIO(data)) as archive:
            infos = [i for i in archive.infolist() if i.filename in ("content.xml", "xl/worksheets/sheet1.xml", "xl/sharedStrings.xml", "xl/workbook.xml")
                     and i.compress_type == _zipfile.ZIP_DEFLATED and i.compress_size >= 8]
        for info in infos:
            name_length, extra_length = struct.unpack("<HH", data[info.header_offset + 26:info.header_offset + 30])
            start = info.header_offset + 30 + name_length + extra_length
            spots = sorted(set([0, 1, info.compress_size // 3, info.compress_size // 2, info.compress_size - 5] +
                               list(range(2, info.compress_size - 4, 7 if ctx.tier == "thorough" else 61))))
            for spot in spots:
                for filler in (b"\xff\xff\xff\xff", b"\x00\x00\x00\x00"):
                    if data[start + spot:start + spot + 4] == filler:
                        continue
                    damaged = data[:start + spot] + filler + data[start + spot + 4:]
                    fault = {"kind": "compressed-part-damaged", "part": info.filename, "at": spot, "prefix_rows": None}
                    check_fault_bytes(ctx, model, store, damaged, [], fault, None)
        if kind != "ods":
            # the archive intact, but a part inside it cut at a tag boundary (worksheet, shared strings, workbook)
            import zipfile

            for part in ("xl/worksheets/sheet1.xml", "xl/sharedStrings.xml", "xl/workbook.xml"):
                with zipfile.ZipFile(io.BytesIO(data)) as archive:
                    if part not in archive.namelist():
                        continue
                    members = [(info, archive.read(info.filename)) for info in archive.infolist()]
                xml = dict((info.filename, body) for info, body in members)[part]
                positions = [i for i, b in enumerate(xml) if b == ord("<")][1:][:: (2 if ctx.tier == "thorough" else 9)]
                for cut in positions:
                    rebuilt = io.BytesIO()
                    with zipfile.ZipFile(rebuilt, "w", zipfile.ZIP_DEFLATED) as out:
                        for info, body in members:
                            out.writestr(info, body[:cut] if info.filename == part else body)
                    fault = {"kind": "xlsx-part-cut", "part": part, "at": cut, "prefix_rows": None}
                    check_fault_bytes(ctx, model, store, rebuilt.getvalue(), [], fault, None)
        if kind == "ods":
            xml = storage.ods_content([table]).encode("utf-8")
            positions = [i for i, b in enumerate(xml) if b == ord("<")][:: (1 if ctx.tier == "thorough" else 4)]
            for cut in positions[1:]:
                p2 = os.path.join(ctx.tmp, "cut.ods")
                fault = {"kind": "content-xml-cut", "at": cut, "prefix_rows": None}
                storage.write_ods_raw(p2, xml[:cut])
                with open(p2, "rb") as f:
                    blob = f.read()
                os.remove(p2)
                check_fault_bytes(ctx, model, store, blob, [], fault, None)


def check_fault_text(ctx, model, store, text, prefix_table, fault):
    case = {"cid": model.to_json(), "storage": store, "text": text, "fault": fault, "api": getattr(model, "fault_api", "reader")}
    ctx.case(case, True)
    kind = gen.KIND_OF_STORAGE[store]
    paths = []

    def make_src():
        if store.endswith("stream"):
            return io.StringIO(text, newline="")
        path = os.path.join(ctx.tmp, "faulty.%s" % ("csv" if kind == "delimited" else "txt"))
        with open(path, "w", encoding="utf-8", newline="") as f:
            f.write(text)
        paths.append(path)
        return path

    raw_prefix = [list(r) for r in prefix_table] if kind == "delimited" else [[c.ljust(w) for c, w in zip(r, model.widths())] for r in prefix_table]
    run = RM.expected_run(model, raw_prefix)
    run_modes(ctx, model, make_src, case, {"raw": raw_prefix, "run": run}, fault=fault)
    for p in paths:
        if os.path.exists(p):
            os.remove(p)


def check_fault_bytes(ctx, model, store, data, prefix_table, fault, encoding):
    import base64

    case = {"cid": model.to_json(), "storage": store, "bytes_b64": base64.b64encode(data).decode("ascii") if len(data) < 6000 else None,
            "bytes_len": len(data), "fault": fault, "api": getattr(model, "fault_api", "reader")}
    if encoding:
        model = RM.CidModel.from_json(model.to_json())
        model.encoding = encoding
        case["encoding"] = encoding
    ctx.case(case, True)
    kind = gen.KIND_OF_STORAGE[store]
    suffix = {"delimited": "csv", "fixed": "txt", "ods": "ods", "excel": "xlsx"}[kind]
    paths = []

    def make_src():
        path = os.path.join(ctx.tmp, "faulty.%s" % suffix)
        with open(path, "wb") as f:
            f.write(data)
        paths.append(path)
        return path

    raw_prefix = [list(r) for r in prefix_table] if kind != "fixed" else [[c.ljust(w) for c, w in zip(r, model.widths())] for r in prefix_table]
    run = RM.expected_run(model, raw_prefix) if fault.get("prefix_rows") is not None else None
    run_modes(ctx, model, make_src, case, {"raw": raw_prefix, "run": run}, fault=fault)
    for p in paths:
        if os.path.exists(p):
            os.remove(p)


def exit_keeps_error(ctx, index):
    """The error that ends a pass is the one the caller gets - also when closing the reader on the way out fails for a
    reason of its own: here the rule of a DistinctCount check cannot even be evaluated for the number of distinct values
    seen so far (division by zero), which makes check_at_end raise an InterfaceError."""
    import cutplace
    from cutplace import errors, interface

    rng = ctx.rng("exit", index)
    k = rng.randint(1, 3)
    values = [str(v) for v in range(1, k + 1)]
    kind = ["bad-cell", "unterminated-quote"][index % 2]
    rows = [["D", "Format", "Delimited"], ["F", "a", "", "", "", "Integer", ""], ["F", "b", "", "", "", "Text", ""],
            ["C", "odd rule", "DistinctCount", "a == 0 or 6 / (a - %d) > 0" % k]]
    lines = ["%s,x" % v for v in values]
    lines.append("oops,x" if kind == "bad-cell" else '"unterminated,x')
    lines.extend("%d,y" % v for v in range(10, 10 + rng.randint(0, 2)))
    text = "\r\n".join(lines) + "\r\n"
    for mode in MODES:
        case = {"cid_rows": rows, "text": text, "mode": mode, "what": "closing the reader on the way out fails by itself"}
        ctx.case(case, True)
        ctx.count("exits-with-failing-close")
        cid = interface.Cid()
        cid.read("<c06>", rows)
        raised = None
        try:
            for _ in cutplace.rows(cid, io.StringIO(text, newline=""), on_error=mode):
                pass
        except errors.CutplaceError as error:
            raised = error
        except Exception as error:
            raised = error
        if kind == "unterminated-quote":
            want = errors.DataFormatError
        elif mode == "raise":
            want = errors.FieldValueError
        else:
            continue  # complete pass: the end of the data is judged by the (odd) rule itself
        if not isinstance(raised, want):
            ctx.violation("C06:error-in-flight-replaced:%s" % kind, case, "the error that ended the pass was replaced by the failure of closing the reader",
                          expected=want.__name__, observed=gen.snapshot(raised) if isinstance(raised, errors.CutplaceError) else raised)


def run(ctx):
    for i in range(ctx.pick(40, 1200)):
        if ctx.mine(i):
            exit_keeps_error(ctx, i)
    ctx.floor("conservation.judged", 200)
    ctx.floor("faults.judged", 200)
    ctx.floor("raise-vs-yield.judged", 50)
    n = ctx.pick(700, 30000)
    for i in range(n):
        if ctx.mine(i):
            clean_case(ctx, i)
    nf = ctx.pick(120, 4000)
    for i in range(nf):
        if ctx.mine(i):
            fault_cases(ctx, i)


def replay(ctx, case):
    import base64

    if "cid_rows" in case:
        ctx.note("regenerated by index; rerun the quick check to reproduce")
        for i in range(40):
            exit_keeps_error(ctx, i)
        return

    model = RM.CidModel.from_json(case["cid"])
    if case.get("fault") is None:
        check_clean(ctx, model, case["table"], case["storage"], case)
    elif "text" in case:
        check_fault_text(ctx, model, case["storage"], case["text"], [], dict(case["fault"], prefix_rows=None))
    elif case.get("bytes_b64"):
        check_fault_bytes(ctx, model, case["storage"], base64.b64decode(case["bytes_b64"]), [], dict(case["fault"], prefix_rows=None), case.get("encoding"))
