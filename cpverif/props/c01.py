"""C01 Range descriptions accept exactly the values they describe.

Workload only - the deciding oracle is monitors.rangemon.RangeMonitor (M-range), which judges
every Range/DecimalRange constructor and validate() call from its own arguments."""
import decimal
import itertools
from decimal import Decimal

from cpverif.monitors.rangemon import RangeMonitor

LEVEL = "exploration"
RULE = (
    "descriptions generated from the documented grammar (1-4 non-overlapping items, every limit spelling: decimal, "
    "0x/0X hex in both letter cases, minus sign, both quote styles, escapes, symbolic names in three casings; each of "
    "the separators '...', ':' and the one-character ellipsis chosen per item; random blanks) probed with every finite "
    "limit, its +-1 neighbours (decimal: +- one unit in the next digit; for a third of the decimal descriptions also +-1e-33 as text, and whole numbers of 29 and 31 digits as int, text and Decimal), far values and random values; plus the "
    "exhaustive sweep of all 1-2 item descriptions with limits in {-2..2, none} x values -4..4 (Range) and the same "
    "limits written as decimals x values in steps of 0.5 (DecimalRange); plus all pairs of the 33 ASCII punctuation "
    "characters and the blank as quoted limits, in every quoted spelling (both quote styles, backslash escapes, \\x escapes) x "
    "every separator, alone, around a numeric item, and as open items. A case is (description, value); it is "
    "non-trivial when the value is on or next to a finite limit of the description; a constructor call counts as a "
    "case of its own. Distinctness by digest of (operation, description, value)."
)
ASSUMPTIONS = [
    "M-range (cpverif/models/rangemodel.py) is the documented grammar; descriptions it does not parse "
    "(overlapping items, empty items, string prefixes, exponents, leading zeros) are counted as unjudged",
    "CPython 3.12.1 only",
]

SEPS = ["...", ":", "…"]


def spell_int(rng, v):
    """One spelling of integer limit v."""
    options = ["dec"]
    options.append("hex")
    if v in (9, 10, 11, 12, 13):
        options += ["sym", "sym"]
    if v in (9, 10, 13, 92, 39, 34):
        options.append("esc")
    if (32 <= v < 127 and v not in (92,)) or (160 <= v < 0xD800) or (0xE000 <= v < 0xFFFE):
        options += ["chr", "chr"]
    if v in (9, 11, 12, 13):
        options.append("literal-control")
    if 0 <= v < 256:
        options.append("xesc")
    if 0 <= v < 0x10000 and not (0xD800 <= v <= 0xDFFF):
        options.append("uesc")
    how = rng.choice(options)
    if how == "dec":
        if rng.random() < 0.15:
            # decimal integers written with leading zeros, like the months 01...12
            return ("-" if v < 0 else "") + "0" * rng.randint(1, 2) + str(abs(v))
        return str(v)
    if how == "hex":
        digits = "%x" % abs(v)
        if rng.random() < 0.5:
            digits = digits.upper()
        return ("-" if v < 0 else "") + rng.choice(["0x", "0X"]) + digits
    if how == "sym":
        name = {9: "tab", 10: "lf", 11: "vt", 12: "ff", 13: "cr"}[v]
        return rng.choice([name, name.upper(), name.capitalize()])
    q = rng.choice("'\"")
    prefix = rng.choice("uU") if rng.random() < 0.1 else ""  # the documented u"..." spelling
    if how == "literal-control":
        return q + chr(v) + q  # the character itself between the quotes (tab, vertical tab, form feed, carriage return)
    if how == "esc":
        e = {9: "\\t", 10: "\\n", 13: "\\r", 92: "\\\\", 39: "\\'", 34: '\\"'}[v]
        return prefix + q + e + q
    if how == "xesc":
        return prefix + q + "\\x%02x" % v + q
    if how == "uesc":
        return prefix + q + "\\u%04x" % v + q
    c = chr(v)
    if c == q:
        q = "'" if q == '"' else '"'
    if c in ".\u2026":  # '...' inside quotes would be rewritten by the constructor: stay out of that corner
        return str(v)
    return prefix + q + c + q


def blanks(rng):
    return " " * rng.choice([0, 0, 0, 1, 2])


def gen_int_description(rng):
    n = rng.choice([1, 1, 2, 2, 3, 4])
    domain = rng.choice(["small", "ctrl", "char", "wide", "neg"])
    lo, hi = {"small": (-60, 60), "ctrl": (0, 42), "char": (0, 0x2FFF), "wide": (-(2**40), 2**40), "neg": (-5000, -1)}[domain]
    # 2n distinct sorted points with gaps >= 2 between items
    points = sorted(rng.sample(range(lo + rng.randrange(3), hi, 3), 2 * n))
    items = []
    for k in range(n):
        a, b = points[2 * k], points[2 * k + 1]
        shape = rng.choice(["single", "closed", "closed", "closed"])
        if shape == "single":
            items.append((a, a))
        else:
            items.append((a, b))
    open_low = rng.random() < 0.3
    if open_low:
        items[0] = (None, items[0][1])
    if rng.random() < 0.3 and not (open_low and n == 1):
        items[-1] = (items[-1][0], None)
    order = list(items)
    rng.shuffle(order)
    parts = []
    for lower, upper in order:
        sep = rng.choice(SEPS)
        if lower is not None and lower == upper and rng.random() < 0.8:
            text = spell_int(rng, lower)
        else:
            text = (spell_int(rng, lower) if lower is not None else "") + blanks(rng) + sep + blanks(rng) + (spell_int(rng, upper) if upper is not None else "")
        parts.append(blanks(rng) + text + blanks(rng))
    return ",".join(parts), items


def int_probes(rng, items):
    out = set()
    finite = [v for item in items for v in item if v is not None]
    for v in finite:
        out.update((v - 1, v, v + 1))
    out.update((min(finite) - 1000, max(finite) + 1000, -(2**62), 2**62, 0))
    for _ in range(3):
        out.add(rng.randint(min(finite) - 5, max(finite) + 5))
    return sorted(out)


def dec_text(rng, d, digits):
    s = "%.*f" % (digits, d)
    return s


def gen_dec_description(rng):
    n = rng.choice([1, 1, 2, 3, 4])
    digits = rng.choice([0, 1, 2, 2, 3, 4])
    scale = 10**digits
    span = rng.choice([50, 5000, 10**9])
    points = sorted(rng.sample(range(-span * scale, span * scale, 3), 2 * n))
    items = []
    for k in range(n):
        a, b = Decimal(points[2 * k]) / scale, Decimal(points[2 * k + 1]) / scale
        items.append((a, a) if rng.random() < 0.25 else (a, b))
    open_low = rng.random() < 0.3
    if open_low:
        items[0] = (None, items[0][1])
    if rng.random() < 0.3 and not (open_low and n == 1):
        items[-1] = (items[-1][0], None)
    order = list(items)
    rng.shuffle(order)
    parts = []
    for lower, upper in order:
        sep = rng.choice(SEPS)
        # per limit a number of fraction digits between what the value needs and `digits`
        if lower is not None and lower == upper and rng.random() < 0.8:
            text = dec_text(rng, lower, digits)
        else:
            text = (dec_text(rng, lower, digits) if lower is not None else "") + blanks(rng) + sep + blanks(rng) + (dec_text(rng, upper, digits) if upper is not None else "")
        parts.append(blanks(rng) + text + blanks(rng))
    return ",".join(parts), items, digits


def dec_probes(rng, items, digits):
    out = set()
    eps = Decimal(1) / (10 ** (digits + 1))
    unit = Decimal(1) / (10**digits)
    finite = [v for item in items for v in item if v is not None]
    for v in finite:
        out.update((v - eps, v, v + eps, v - unit, v + unit))
    out.update((min(finite) - 1000, max(finite) + 1000, Decimal(0)))
    for _ in range(3):
        out.add(Decimal(rng.randint(int(min(finite) * 100) - 300, int(max(finite) * 100) + 300)) / 100)
    return sorted(out)


def sweep_items():
    """All item shapes with limits in {-2..2, none}: 5 singles+closed (15 with l<=u), 5 open-right, 5 open-left."""
    shapes = []
    vals = [-2, -1, 0, 1, 2]
    for a in vals:
        for b in vals:
            if a <= b:
                shapes.append((a, b))
    for a in vals:
        shapes.append((a, None))
        shapes.append((None, a))
    return shapes


def sweep_spellings(item, decimal):
    lower, upper = item

    def lim(v):
        if decimal:
            return "%.1f" % v
        return str(v)

    out = []
    if lower is not None and lower == upper:
        out.append(lim(lower))
    for sep in SEPS:
        out.append((lim(lower) if lower is not None else "") + sep + (lim(upper) if upper is not None else ""))
    return out


def run_sweep(ctx, ranges, decimal):
    from cpverif.models import rangemodel as M

    cls = ranges.DecimalRange if decimal else ranges.Range
    values = [Decimal(k) / 2 for k in range(-8, 9)] if decimal else list(range(-4, 5))
    shapes = sweep_items()
    descriptions = []
    for item in shapes:
        for text in sweep_spellings(item, decimal):
            descriptions.append(text)
    for a, b in itertools.permutations(shapes, 2):
        if M.overlap(a, b):
            continue
        for ta in sweep_spellings(a, decimal):
            for tb in sweep_spellings(b, decimal):
                descriptions.append(ta + ", " + tb)
    for index, text in enumerate(descriptions):
        if not ctx.mine(index):
            continue
        ctx.count("sweep.descriptions")
        try:
            r = cls(text)
        except Exception:
            continue  # the monitor has judged the refusal
        for v in values:
            try:
                r.validate("x", v)
            except Exception:
                pass
    return len(descriptions)


SPECIALS = [chr(v) for v in range(32, 127) if not chr(v).isalnum()]


def special_spellings(c):
    """Every quoted spelling of one punctuation character (the character itself in both quote styles, escaped where
    the quote style needs it, and the backslash escapes)."""
    out = []
    for q in "'\"":
        if c == q or c == "\\":
            out.append(q + "\\" + c + q)
        else:
            out.append(q + c + q)
    out.append('"\\x%02x"' % ord(c))
    return out


def run_specials(ctx, ranges):
    """Punctuation as limits: all pairs a < b of the 33 ASCII punctuation characters and the blank, in every quoted
    spelling, joined by every separator, alone and around a numeric item - the characters that mean something to the
    description's own syntax (quotes, backslash, comma, colon, dots, hash) are exactly the ones a tokenizer can trip on."""
    index = 0
    for ia, a in enumerate(SPECIALS):
        for b in SPECIALS[ia + 1:]:
            index += 1
            if not ctx.mine(index):
                continue
            va, vb = ord(a), ord(b)
            probes = sorted({va - 1, va, va + 1, vb - 1, vb, vb + 1, 199, 200, 205, 210, 211})
            for ta in special_spellings(a):
                for tb in special_spellings(b):
                    for sep in SEPS:
                        for text in (ta + sep + tb, ta + ", 200" + sep + "210, " + tb, ta + "," + tb + sep, sep + ta + " , " + tb):
                            ctx.count("specials.descriptions")
                            try:
                                r = ranges.Range(text)
                            except Exception:
                                continue  # the monitor has judged the refusal
                            for v in probes:
                                try:
                                    r.validate("x", v)
                                except Exception:
                                    pass


def run(ctx):
    from cutplace import ranges

    RangeMonitor(ctx).attach()
    ctx.floor("range.init.judged", 50)
    ctx.floor("range.validate.judged", 500)

    n_int = ctx.pick(2500, 120000)
    n_dec = ctx.pick(1500, 80000)
    for i in range(n_int):
        if not ctx.mine(i):
            continue
        rng = ctx.rng("int", i)
        text, items = gen_int_description(rng)
        try:
            r = ranges.Range(text)
        except Exception:
            continue
        probes = int_probes(rng, items)
        if rng.random() < 0.3:
            rng.shuffle(probes)  # acceptance must not depend on the order in which values are validated
        for v in probes:
            try:
                r.validate("value", v)
            except ranges.errors.RangeValueError:
                pass
        if i % 4 == 0:
            # descriptions that look alike (other letter case, other spacing) are different descriptions: each is
            # constructed and probed in the same process, so that nothing remembered under a coarse key can leak
            for variant in (text.swapcase(), text.upper(), text.lower(), " ".join(text.split()), text.replace(" ", "")):
                if variant == text:
                    continue
                try:
                    other = ranges.Range(variant)
                except Exception:
                    continue
                for v in probes[:12]:
                    try:
                        other.validate("value", v)
                    except ranges.errors.RangeValueError:
                        pass
                ctx.count("look-alike-descriptions")
    for i in range(n_dec):
        if not ctx.mine(i):
            continue
        rng = ctx.rng("dec", i)
        text, items, digits = gen_dec_description(rng)
        try:
            r = ranges.DecimalRange(text)
        except Exception:
            continue
        for v in dec_probes(rng, items, digits):
            try:
                r.validate("value", str(v) if rng.random() < 0.3 else v)
            except ranges.errors.RangeValueError:
                pass
        if i % 3 == 0:
            # values a hair's breadth (1e-33) beside a limit, handed over as text: more significant digits than the
            # arithmetic context's default precision holds
            with decimal.localcontext() as high:
                high.prec = 200
                hair = Decimal(1).scaleb(-33)
                close = [format(v + sign * hair, "f") for item in items for v in item if v is not None for sign in (1, -1)]
            for text in close:
                try:
                    r.validate("value", text)
                except ranges.errors.RangeValueError:
                    pass
            ctx.count("decimal-probes.with-more-than-28-significant-digits", len(close))
    if ctx.mine(0):
        # whole numbers beyond 28 digits as int and as text, next to a limit of 29 and 31 digits
        for description, base in (("...10000000000000000000000000000", 10**28), ("-1000000000000000000000000000000...1000000000000000000000000000000", 10**30)):
            try:
                r = ranges.DecimalRange(description)
            except Exception:
                continue
            for v in (base - 1, base, base + 1, -base - 1, -base, -base + 1):
                for value in (v, str(v), Decimal(v)):
                    try:
                        r.validate("value", value)
                    except ranges.errors.RangeValueError:
                        pass
    run_sweep(ctx, ranges, False)
    run_sweep(ctx, ranges, True)
    run_specials(ctx, ranges)
    ctx.exhaustive = True
    ctx.note("exhaustive part: all 1-2 item descriptions with limits in {-2..2, none}, every separator spelling per item, x values -4..4 (Range) / -4..4 step 0.5 (DecimalRange); the generated part is sampled")


def replay(ctx, case):
    from cutplace import ranges

    RangeMonitor(ctx).attach()
    cls = ranges.DecimalRange if case["op"].startswith("Decimal") else ranges.Range
    try:
        r = cls(case["description"])
    except Exception:
        return
    if "value" in case:
        value = Decimal(case["value"]) if cls is ranges.DecimalRange else int(case["value"])
        try:
            r.validate("value", value)
        except Exception:
            pass
