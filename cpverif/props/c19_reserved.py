"""Reserved words of the four SQL dialects as the vendors document them (DB2 for z/OS "Reserved schema names and reserved
words", SQL Server "Reserved Keywords (Transact-SQL)", Oracle "SQL Reserved Words", SQL-92 reserved words), written down from
those lists - not copied from cutplace's tables: a word that silently drops out of one of cutplace's tables must still be quoted."""

DB2 = (
    "add after all allocate allow alter and any as asensitive associate asutime at audit aux auxiliary before begin "
    "between bufferpool by call capture cascaded case cast ccsid char character check clone close cluster "
    "collection collid column comment commit concat condition connect connection constraint contains content "
    "continue create current current_date current_lc_ctype current_path current_schema current_time "
    "current_timestamp currval cursor data database day days dbinfo declare default delete descriptor deterministic "
    "disable disallow distinct do document double drop dssize dynamic editproc else elseif encoding encryption end "
    "ending erase escape except exception execute exists exit explain external fenced fetch fieldproc final first "
    "for free from full function generated get global go goto grant group handler having hold hour hours if "
    "immediate in inclusive index inherit inner inout insensitive insert into is isobid iterate jar join keep key "
    "label language last lc_ctype leave left like local locale locator locators lock lockmax locksize long loop "
    "maintained materialized microsecond microseconds minute minutes modifies month months next nextval no none not "
    "null nulls numparts obid of old on open optimization optimize or order organization out outer package "
    "parameter part padded partition partitioned partitioning path period piecesize plan precision prepare prevval "
    "prior priqty privileges procedure program psid public query queryno reads references refresh release rename "
    "repeat resignal restrict result result_set_locator return returns revoke right role rollback round_ceiling "
    "round_down round_floor round_half_down round_half_even round_half_up round_up row rowset run savepoint schema "
    "scratchpad second seconds secqty security select sensitive sequence session_user set signal simple some source "
    "specific standard statement static stay stogroup stores style summary synonym sysdate system systimestamp "
    "table tablespace then to trigger truncate type undo union unique until update user using validproc value "
    "values variable variant vcat view volatile volumes when whenever where while with wlm xmlexists xmlnamespaces "
    "xmlcast year years zone "
).split()

TRANSACT_SQL = (
    "add all alter and any as asc authorization backup begin between break browse bulk by cascade case check "
    "checkpoint close clustered coalesce collate column commit compute constraint contains containstable continue "
    "convert create cross current current_date current_time current_timestamp current_user cursor database dbcc "
    "deallocate declare default delete deny desc disk distinct distributed double drop dump else end errlvl escape "
    "except exec execute exists exit external fetch file fillfactor for foreign freetext freetexttable from full "
    "function goto grant group having holdlock identity identity_insert identitycol if in index inner insert "
    "intersect into is join key kill left like lineno load merge national nocheck nonclustered not null nullif of "
    "off offsets on open opendatasource openquery openrowset openxml option or order outer over percent pivot plan "
    "precision primary print proc procedure public raiserror read readtext reconfigure references replication "
    "restore restrict return revert revoke right rollback rowcount rowguidcol rule save schema securityaudit select "
    "semantickeyphrasetable semanticsimilaritydetailstable semanticsimilaritytable session_user set setuser "
    "shutdown some statistics system_user table tablesample textsize then to top tran transaction trigger truncate "
    "try_convert tsequal union unique unpivot update updatetext use user values varying view waitfor when where "
    "while with writetext "
).split()

PL_SQL = (
    "access add all alter and any as asc audit between by char check cluster column comment compress connect create "
    "current date decimal default delete desc distinct drop else exclusive exists file float for from grant group "
    "having identified immediate in increment index initial insert integer intersect into is level like lock long "
    "maxextents minus mlslabel mode modify noaudit nocompress not nowait null number of offline on online option or "
    "order pctfree prior public raw rename resource revoke row rowid rownum rows select session set share size "
    "smallint start successful synonym sysdate table then to trigger uid union unique update user validate values "
    "varchar varchar2 view whenever where with "
).split()

ANSI = (
    "absolute action add all allocate alter and any are as asc assertion at authorization avg begin between bit "
    "bit_length both by cascade cascaded case cast catalog char character char_length character_length check close "
    "coalesce collate collation column commit connect connection constraint constraints continue convert "
    "corresponding count create cross current current_date current_time current_timestamp current_user cursor date "
    "day deallocate dec decimal declare default deferrable deferred delete desc describe descriptor diagnostics "
    "disconnect distinct domain double drop else end escape except exception exec execute exists external extract "
    "false fetch first float for foreign found from full get global go goto grant group having hour identity "
    "immediate in indicator initially inner input insensitive insert int integer intersect interval into is "
    "isolation join key language last leading left level like local lower match max min minute module month names "
    "national natural nchar next no not null nullif numeric octet_length of on only open option or order outer "
    "output overlaps pad partial position precision prepare preserve primary prior privileges procedure public read "
    "real references relative restrict revoke right rollback rows schema scroll second section select session "
    "session_user set size smallint some space sql sqlcode sqlerror sqlstate substring sum system_user table "
    "temporary then time timestamp timezone_hour timezone_minute to trailing transaction translate translation trim "
    "true union unique unknown update upper usage user using value values varchar varying view when whenever where "
    "with work write year zone "
).split()

RESERVED = {"DB2": DB2, "Transact-SQL": TRANSACT_SQL, "PL/SQL": PL_SQL, "ANSI": ANSI}
