"""C10 CID and data problems surface as cutplace errors, never as internal failures."""
import io
import itertools
import os

from cpverif import core, storage
from cpverif.models import rowmodel as RM

LEVEL = "fault_enumeration"
RULE = (
    "four valid base CIDs (delimited, fixed, Excel, ODS; all eight field types, IsUnique and DistinctCount) with matching "
    "data. CID side: every cell of every row kind (D name/value, F name/example/mark/length/type/rule, C "
    "description/type/rule) is replaced, one cell at a time, by every value of a pool of ~90 hostile values (unterminated "
    "quotes, stray operators and brackets, gigantic / out-of-range numbers, NaN / Infinity, non-ASCII, control characters, "
    "Python keywords, string prefixes, broken escapes, private attribute names, regex / glob / strptime metacharacters, "
    "duplicated date tokens, empty); the CID is loaded with Cid.read and, when it loads, the base data is validated under "
    "it; plus the cell's own value in other letter cases and decorated in 27 ways (no-break and other non-ASCII white space, control characters, zero-width characters, brackets, stray punctuation, doubled). Data side: every cell of the base data is replaced by every pool value, read with cutplace.rows (raise mode) and written through cutplace.Writer (delimited and fixed) "
    "and validate. Thorough: all pairs of cells within a row over the 25 most productive values, and containers "
    "(delimited, fixed, ODS, XLSX) truncated and with one byte replaced at every offset. A tenth of the cases also go "
    "through applications.main (must not answer 4). Oracle: only InterfaceError / DataError may escape; the innermost "
    "cutplace frame of the traceback names the mechanism. A case is (base, row, cell, hostile value[, second cell]) or "
    "(container, offset, fault); distinct by digest; non-trivial when the hostile value differs from the base cell."
)
ASSUMPTIONS = [
    "OSError for unreadable files is environment (C18); a corrupted container that still parses is fine; a CID problem reported as DataError subclass is counted, not judged",
]

POOL = [
    "", " ", "'", '"', "'abc", '"abc', "'''", '"""', "'a' 'b'", "u'a'", "b'a'", "rb'x'", "f'{x}'", '"\\u"', '"\\x"', '"\\N{x}"', "'\\'", "\\",
    "(", ")", "[", "]", "{", "}", "((", "())", "[a", "a]", "a)(", "*", "**", "+", "-", "--", "/", "%", "%%", "%d", "%Y", "%(x)s", "{0}", "$", "^", "|", "?", "(?P<x>", "(?", "[z-a]", "a{2,1}", "\\1", "*a", "a**",
    "0", "-1", "2", "3", "1e999", "-1e999", "9" * 40, "-" + "9" * 40, "1" + "0" * 400, "0x", "0x110000", "1114112", "0b2", "1__0", "1_", "1.2.3", "1..5", "1....5", "...", "…", ":", "1:2:3", ",", ",,", "1,", ",1", "5...1",
    "NaN", "nan", "Infinity", "-Infinity", "inf", "sNaN", "1e5", "١٢٣", "１２", "äöü", "€", " ", "\x00", "\t", "\n", "\r\n", "a\nb", "\x1b[0m", "﻿", "\ud800",
    "class", "None", "lambda", "import os", "__import__('os')", "is valid", "is_valid", "format", "_format", "VALID_LINE_DELIMITER_TEXTS", "__dict__", "__class__",
    "-1e5000", "-1e5000...", "...-1e5000", "1e5000", "...5", ":5", "5...", "1e999999999999999999", "1e-999999999999999999", "0...1e999999999999999999", "a{99999999999}", "(a{99999}){99999}", "0x" + "f" * 5000, "0x" + "f" * 4000, "1...0x" + "f" * 4000, "9" * 5000, "hex", "rot13", "base64", "zlib_codec", "unicode_escape", "idna", "punycode",
    '"red",\n   "green",\n "blue"', "1,\n   2,\n 3", "a\n\tb\n        c", "'50%', red", "\"100%d\", 'x'", "'%s', '%(x)s', red", "DD.DD", "YYYYYY", "hh:hh", "%%DD", "DD%", "MMMM", "x" * 300, "a,b;c|d", "tab", "TAB", "cr lf",
    "999999999999999", "1...999999999999999", "999999999999999...", "(?a)(?u)x", "(" * 500 + "a" + ")" * 500, "[" * 300, "kind < exit(4)", "kind < quit()", "id\\\n< 3", "\\\nid < 3",
    " /\n\x00", "/\n\x00", "id /\n\x00", "1 if", "kind < (yield)", "kind < (lambda: 1)()", "kind < [c for c in 'ab']", "kind := 3", "kind < 1; 2",
]
# hostile variations of the cell's own (well-formed) value: white space the tokenizer does not know, control characters,
# brackets and stray punctuation glued to it
DECORATIONS = ["\xa0{}", "{}\xa0", "\u2003{}", "{}\u2003", "{}\u3000", "\u1680{}", "{}\t", "{}\n", "\n{}", "\ufeff{}", "{}\ufeff", "{}\x00", "{}\x0c", "\x1f{}", "{}\u200b",
               "({})", "{},", "{}#x", "{}\\", "{} {}", "{}\xa0{}", "{},\xa0{}", "{}" + " " * 12, " " * 12 + "{}", "{}\xa0, amount", "amount,\xa0{}", "{},\u2003kind"]
PRODUCTIVE = ["'", '"abc', "u'a'", '"\\u"', "(", "[", "*", "%", "-", "1e999", "9" * 40, "0x", "1__0", "...", ",", "NaN", "Infinity", "äöü", "\x00", "\n", "class", "is valid", "DD.DD", "", "5...1"]


def variations(value):
    """The cell's own value decorated, and in other letter cases (legal for most cells: names, marks and the values of
    choice-like properties are case-insensitive - the unusual spelling of a legal value must not end in an internal error
    either)."""
    out = [d.replace("{}", value) for d in DECORATIONS]
    for other in (value.upper(), value.lower(), value.swapcase(), value.title()):
        if other != value and other not in out:
            out.append(other)
    return out


def base_cid_rows(kind):
    fixed = kind == "fixed"

    def L(n):
        return str(n) if fixed else ""

    rows = [["D", "Format", {"delimited": "Delimited", "fixed": "Fixed", "excel": "Excel", "ods": "ODS"}[kind]]]
    if kind in ("delimited", "fixed"):
        rows += [["D", "Encoding", "utf-8"], ["D", "Line delimiter", "LF" if fixed else "Any"], ["D", "Decimal separator", "."], ["D", "Thousands separator", ","]]
    if kind == "delimited":
        rows += [["D", "Item delimiter", ","], ["D", "Quote character", '"'], ["D", "Escape character", '"'], ["D", "Quoting", "Minimal"], ["D", "Skip initial space", "False"]]
    if kind in ("excel", "ods"):
        rows += [["D", "Sheet", "1"]]
    rows += [["D", "Header", "1"], ["D", "Allowed characters", "32...255"]]
    rows += [
        ["F", "id", "12", "", L(4) if fixed else "1...4", "Integer", "0...9999"],
        ["F", "amount", "1.50", "X", L(8), "Decimal", "0...9999.99"],
        ["F", "kind", "red", "", L(5), "Choice", "red, green, 'blue'"],
        ["F", "const", "x", "", L(1), "Constant", "x"],
        ["F", "born", "31.12.1999", "X", L(10), "DateTime", "DD.MM.YYYY"],
        ["F", "code", "AB12", "", L(4), "Pattern", "??[0-9]*"],
        ["F", "mail", "a@b", "X", L(9), "RegEx", "[a-z]+@[a-z]+"],
        ["F", "note", "", "X", L(6) if fixed else "...6", "Text", ""],
        ["C", "id must be unique", "IsUnique", "id"],
        ["C", "few kinds", "DistinctCount", "kind < 4"],
    ]
    return rows


BASE_DATA = [["id", "amount", "kind", "const", "born", "code", "mail", "note"],
             ["1", "1.50", "red", "x", "31.12.1999", "AB12", "a@b", "hello"],
             ["2", "1,000.25", "green", "x", "", "xy9", "", ""],
             ["3", "", "blue", "x", "29.02.2000", "QQ0z", "me@home", "n"]]
WIDTHS = [4, 8, 5, 1, 10, 4, 9, 6]


class Base(object):
    def __init__(self, ctx, kind):
        self.kind = kind
        self.rows = base_cid_rows(kind)
        self.dir = os.path.join(ctx.tmp, "c10_" + kind)
        os.makedirs(self.dir, exist_ok=True)
        self.data_path = self.write_data(BASE_DATA, "base")

    def write_data(self, table, tag):
        ext = {"delimited": "csv", "fixed": "txt", "ods": "ods", "excel": "xlsx"}[self.kind]
        path = os.path.join(self.dir, "%s.%s" % (tag, ext))
        if self.kind == "delimited":
            with open(path, "w", encoding="utf-8", newline="") as f:
                f.write(storage.delimited_text(table))
        elif self.kind == "fixed":
            with open(path, "w", encoding="utf-8", newline="") as f:
                f.write("".join("".join(c[:w].ljust(w) for c, w in zip(r, WIDTHS)) + "\n" for r in table))
        elif self.kind == "ods":
            storage.write_ods(path, [table], ("s", "tab", "linebreak"))
        else:
            storage.write_xlsx(path, [table])
        return path


def classify_escape(error):
    mod, fn = core.innermost_cutplace_frame(error)
    return "%s@%s.%s" % (type(error).__name__, mod, fn)


def load_and_validate(ctx, base, cid_rows, case, via_main):
    """Cid.read on hostile rows, then validation of the base data when the CID loads."""
    import cutplace
    from cutplace import errors, interface

    ctx.count("cid.loads")
    cid = interface.Cid()
    try:
        cid.read("<c10>", [list(r) for r in cid_rows])
    except errors.InterfaceError:
        ctx.count("cid.refused")
        cid = None
    except errors.CutplaceError as error:
        ctx.count("cid.refused-with-%s(not judged)" % type(error).__name__)
        cid = None
    except (Exception, SystemExit) as error:
        ctx.violation("C10:escape:cid:%s" % classify_escape(error), case, "loading a CID with a hostile cell ended in an internal error",
                      expected="InterfaceError or success", observed=error)
        return
    if cid is not None:
        ctx.count("cid.loaded")
        try:
            cutplace.validate(cid, base.data_path)
        except (errors.DataError, errors.InterfaceError):
            pass
        except MemoryError:
            # e.g. a fixed-width field declared 999999999999999 characters wide: the reader asks for that many characters
            ctx.unjudged("memory exhausted while reading under absurd declared sizes")
            return
        except (Exception, SystemExit) as error:
            ctx.violation("C10:escape:validate-under-hostile-cid:%s" % classify_escape(error), case,
                          "validating data under a CID that loaded with a hostile cell ended in an internal error",
                          expected="DataError, InterfaceError or success", observed=error)
            return
    if via_main:
        from cutplace import applications

        cid_path = os.path.join(base.dir, "hostile_cid.csv")
        with open(cid_path, "w", encoding="utf-8", newline="", errors="surrogatepass") as f:
            f.write(storage.delimited_text(cid_rows))
        try:
            code = applications.main(["cutplace", "--log", "critical", cid_path, base.data_path])
        except SystemExit as exit_:
            code = "SystemExit(%s)" % exit_.code
        except BaseException as error:  # noqa
            code = "raised %s" % type(error).__name__
        ctx.count("main.invocations")
        if code == 4 or (isinstance(code, str) and (code.startswith("raised") or code == "SystemExit(4)")):
            ctx.violation("C10:exit-4:cid", case, "the command line answered a hostile CID with exit code 4", expected="0, 1 or 3", observed=code)


HOSTILE_COUNTS = ["0", "-1", "00", "x", "", "1.5", " 2 ", "99999999999999999999", "1e3", "\u0663"]


def hostile_ods_counts(ctx, base):
    """ODS data and ODS CIDs whose first repeat count (of a row, of a cell - also on the very first row of the sheet) is
    hostile: a data error / interface error or success, never an internal error."""
    import cutplace
    from cutplace import errors, interface

    cid = interface.Cid()
    cid.read("<c10>", [list(r) for r in base.rows])
    path = os.path.join(base.dir, "hostile_counts.ods")
    for attr in HOSTILE_COUNTS:
        for which in ("row", "cell"):
            for target in ("data", "cid"):
                table = BASE_DATA if target == "data" else base.rows
                # (a first row that is repeated, so that the hostile count stands on the first row element of the sheet)
                table = [list(table[0])] + [list(r) for r in table]
                kw = {"row_repeat_attr": attr} if which == "row" else {"cell_repeat_attr": attr}
                storage.write_ods(path, [table], ("rowruns", "colruns"), **kw)
                case = {"base": "ods", "hostile_count": attr, "on": which, "in": target}
                ctx.case(case, True)
                ctx.count("ods-counts.judged")
                try:
                    if target == "data":
                        cutplace.validate(cid, path)
                    else:
                        cutplace.Cid(path)
                except (errors.DataError, errors.InterfaceError):
                    ctx.count("ods-counts.refused")
                except MemoryError:
                    ctx.unjudged("memory exhausted under an absurd repeat count")
                except (Exception, SystemExit) as error:
                    ctx.violation("C10:escape:ods-count:%s" % classify_escape(error), case, "an ODS container with a hostile repeat count ended in an internal error",
                                  expected="DataError, InterfaceError or success", observed=error)


def hostile_data(ctx, base, table, case, via_main):
    import cutplace
    from cutplace import errors, interface

    path = base.write_data(table, "hostile")
    ctx.count("data.reads")
    cid = interface.Cid()
    cid.read("<c10>", [list(r) for r in base.rows])
    try:
        for _ in cutplace.rows(cid, path):
            pass
    except errors.DataError:
        pass
    except Exception as error:
        ctx.violation("C10:escape:data:%s" % classify_escape(error), case, "reading data with a hostile cell ended in an internal error",
                      expected="DataError or success", observed=error)
        return
    cid = interface.Cid()
    cid.read("<c10>", [list(r) for r in base.rows])
    try:
        reader = cutplace.Reader(cid, path, on_error="continue")
        try:
            for _ in reader.rows():
                pass
        finally:
            reader.close()
    except errors.DataError:
        pass
    except Exception as error:
        ctx.violation("C10:escape:data-continue:%s" % classify_escape(error), case, "reading data with a hostile cell (continue mode) ended in an internal error",
                      expected="DataError or success", observed=error)
        return
    if base.kind in ("delimited", "fixed"):
        # the same hostile values handed to the validating writer: refused as data errors or written, nothing else
        cid = interface.Cid()
        cid.read("<c10>", [list(r) for r in base.rows])
        ctx.count("data.writes")
        try:
            writer = cutplace.Writer(cid, io.StringIO(newline=""))
            try:
                for row in table:
                    try:
                        writer.write_row(list(row))
                    except errors.DataError:
                        pass
            finally:
                try:
                    writer.close()
                except errors.DataError:
                    pass
        except MemoryError:
            ctx.unjudged("memory exhausted while writing under absurd declared sizes")
        except Exception as error:
            ctx.violation("C10:escape:data-writer:%s" % classify_escape(error), case, "writing data with a hostile cell ended in an internal error",
                          expected="DataError or success", observed=error)
            return
    if via_main:
        from cutplace import applications

        cid_path = os.path.join(base.dir, "base_cid.csv")
        if not os.path.exists(cid_path):
            with open(cid_path, "w", encoding="utf-8", newline="") as f:
                f.write(storage.delimited_text(base.rows))
        try:
            code = applications.main(["cutplace", "--log", "critical", cid_path, path])
        except SystemExit as exit_:
            code = "SystemExit(%s)" % exit_.code
        ctx.count("main.invocations")
        if code == 4:
            ctx.violation("C10:exit-4:data", case, "the command line answered hostile data with exit code 4", expected="0, 1 or 3", observed=code)


def encodable(kind, value):
    if kind == "excel":
        return "\x00" not in value and "\ud800" not in value and "\x1b" not in value
    if kind == "ods":
        return storage.ods_encodable(value, ("s", "tab", "linebreak"))
    if "\ud800" in value:
        return False
    return True


def container_faults(ctx, base, index_offset):
    import cutplace
    from cutplace import errors, interface

    with open(base.data_path, "rb") as f:
        blob = f.read()
    ext = os.path.splitext(base.data_path)[1]
    path = os.path.join(base.dir, "damaged" + ext)
    # text containers and the (small) ODS archive: every offset; the larger XLSX archive is sampled
    step = 1 if base.kind in ("delimited", "fixed", "ods") else (3 if ctx.tier == "thorough" else 23)
    replacements = [0xFF, 0x00, ord('"'), ord("\n")] if base.kind in ("delimited", "fixed") else [0xFF, 0x00, 0x01, 0x40]
    faults = []
    for offset in range(0, len(blob), step):
        faults.append(("truncate", offset, None))
        for rep in replacements:
            faults.append(("replace", offset, rep))
    for k, (kind, offset, rep) in enumerate(faults):
        if not ctx.mine(index_offset + k):
            continue
        data = blob[:offset] if kind == "truncate" else blob[:offset] + bytes([rep]) + blob[offset + 1 :]
        with open(path, "wb") as f:
            f.write(data)
        case = {"base": base.kind, "container_fault": kind, "offset": offset, "byte": rep, "of": len(blob)}
        ctx.case(case, True)
        ctx.count("containers.read")
        cid = interface.Cid()
        cid.read("<c10>", [list(r) for r in base.rows])
        try:
            for _ in cutplace.rows(cid, path, on_error="continue"):
                pass
        except errors.DataError:
            pass
        except OSError:
            # some damage makes the archive layer fail with an OSError (seek to an impossible offset): "the named file
            # cannot be read" (C18: exit code 3) is a defensible answer for a damaged file, so this is not judged
            ctx.unjudged("damaged container reported as OSError (environment)")
        except Exception as error:
            ctx.violation("C10:escape:container:%s:%s" % (base.kind, classify_escape(error)), case, "a damaged container ended in an internal error",
                          expected="DataError or success", observed=error)
    return len(faults)


def csv_faults(ctx, base):
    """Delimited text the csv layer itself gives up on - at every line, also the very first one - as data and as CID."""
    import cutplace
    from cutplace import errors, interface

    data_lines = storage.delimited_text(BASE_DATA).split("\r\n")[:-1]
    cid_lines = storage.delimited_text(base.rows).split("\r\n")[:-1]
    damages = [("junk-after-closing-quote", '"q"x'), ("unterminated-quote", '"abc'), ("field-larger-than-the-csv-limit", "y" * 140000),
               ("quote-inside-then-junk", 'a"b"c"'), ("nul-character", "a\x00b")]
    for what, lines, loader in (("data", data_lines, None), ("cid", cid_lines, "cid")):
        for k in range(len(lines)):
            for kind, text in damages:
                for single_line in (False, True):
                    if single_line and k > 0:
                        continue
                    broken = list(lines)
                    cells = broken[k].split(",")
                    cells[min(1, len(cells) - 1)] = text
                    broken[k] = ",".join(cells)
                    if single_line:
                        broken = broken[:1]
                    path = os.path.join(base.dir, "csv_fault_%s.csv" % what)
                    with open(path, "w", encoding="utf-8", newline="") as f:
                        f.write("\r\n".join(broken) + ("" if single_line else "\r\n"))
                    case = {"base": base.kind, "csv_fault": kind, "in": what, "line": k + 1, "single_line_file": single_line}
                    ctx.case(case, True)
                    ctx.count("csv-faults")
                    try:
                        if loader == "cid":
                            interface.Cid(path)
                        else:
                            cid = interface.Cid()
                            cid.read("<c10>", [list(r) for r in base.rows])
                            for _ in cutplace.rows(cid, path, on_error="continue"):
                                pass
                    except errors.InterfaceError:
                        pass
                    except errors.DataError as error:
                        if loader == "cid":
                            # a problem in the CID is an interface error; data errors are for problems in the data
                            ctx.violation("C10:cid-problem-reported-as-data-error:%s" % type(error).__name__, case,
                                          "text in a CID file that the csv layer refuses was reported as an error in the data", expected="InterfaceError", observed=error)
                    except Exception as error:
                        ctx.violation("C10:escape:csv-fault:%s:%s" % (what, classify_escape(error)), case,
                                      "text the csv layer refuses ended in an internal error", expected="DataError / InterfaceError or success", observed=error)


def run(ctx):
    ctx.floor("cid.loads", 1000)
    ctx.floor("data.reads", 300)
    index = 0
    for kind in ("delimited", "fixed", "excel", "ods"):
        base = Base(ctx, kind)
        if kind == "ods" and ctx.mine(3):
            hostile_ods_counts(ctx, base)
        # ---- CID cells, one at a time
        for r, row in enumerate(base.rows):
            for c in range(1, {"D": 3, "F": 7, "C": 4}[row[0]]):
                # (the format cell also under the format's other documented name)
                for value in POOL + variations(row[c]) + (["csv", "CSV", " csv "] if row[1] == "Format" and c == 2 and kind == "delimited" else []):
                    index += 1
                    if not ctx.mine(index):
                        continue
                    rows = [list(x) for x in base.rows]
                    rows[r][c] = value
                    case = {"base": kind, "cid_row": r + 1, "cid_cell": c + 1, "row_kind": row[0], "value": value}
                    ctx.case(case, value != row[c])
                    load_and_validate(ctx, base, rows, case, via_main=(index % 10 == 0))
        # ---- data cells, one at a time
        for r in range(len(BASE_DATA)):
            for c in range(len(BASE_DATA[0])):
                for value in POOL + variations(BASE_DATA[r][c]):
                    index += 1
                    if not ctx.mine(index):
                        continue
                    if not encodable(kind, value):
                        ctx.count("data.not-encodable-in-this-container")
                        continue
                    table = [list(x) for x in BASE_DATA]
                    table[r][c] = value
                    case = {"base": kind, "data_row": r + 1, "data_cell": c + 1, "value": value}
                    ctx.case(case, value != BASE_DATA[r][c])
                    hostile_data(ctx, base, table, case, via_main=(index % 10 == 0))
        if ctx.tier == "thorough":
            # ---- pairs of CID cells within a row
            for r, row in enumerate(base.rows):
                cells = range(1, {"D": 3, "F": 7, "C": 4}[row[0]])
                for c1, c2 in itertools.combinations(cells, 2):
                    for v1, v2 in itertools.product(PRODUCTIVE, repeat=2):
                        index += 1
                        if not ctx.mine(index):
                            continue
                        rows = [list(x) for x in base.rows]
                        rows[r][c1], rows[r][c2] = v1, v2
                        case = {"base": kind, "cid_row": r + 1, "cid_cells": [c1 + 1, c2 + 1], "row_kind": row[0], "values": [v1, v2]}
                        ctx.case(case, True)
                        load_and_validate(ctx, base, rows, case, via_main=False)
        if kind in ("delimited", "fixed"):
            # ---- the same data cells under the other convention for numbers (decimal comma, no thousands separator)
            comma = Base(ctx, kind)
            comma.rows = [list(r) for r in comma.rows if r[1] != "Thousands separator"]
            for r in comma.rows:
                if r[1] == "Decimal separator":
                    r[2] = ","
                if r[0] == "F" and r[1] == "amount":
                    r[2] = "1,50"  # (the rule keeps its dots: limits are written the same under every convention)
            comma_data = [list(r) for r in BASE_DATA]
            comma_data[1][1], comma_data[2][1] = "1,50", "1000,25"
            for value in POOL + variations("1,50") + ["1.5", "1.234,5", ".5", "5.", "1,5.0", "1.000,25"]:
                index += 1
                if not ctx.mine(index) or not encodable(kind, value):
                    continue
                table = [list(x) for x in comma_data]
                table[1][1] = value
                case = {"base": kind + " with decimal comma", "data_row": 2, "data_cell": 2, "value": value}
                ctx.case(case, True)
                ctx.count("data.reads-under-decimal-comma")
                hostile_data(ctx, comma, table, case, via_main=False)
        # ---- damaged containers (quick: delimited and fixed at every offset, archives sampled)
        index += container_faults(ctx, base, index)
        if kind == "delimited" and ctx.mine(0):
            csv_faults(ctx, base)
    ctx.exhaustive = True
    ctx.note("one-cell-at-a-time enumeration over the hostile pool is complete for all four base CIDs and their data in both tiers; thorough adds cell pairs and denser archive damage")


def replay(ctx, case):
    base = Base(ctx, case["base"])
    if "cid_row" in case:
        rows = [list(x) for x in base.rows]
        if "cid_cells" in case:
            for c, v in zip(case["cid_cells"], case["values"]):
                rows[case["cid_row"] - 1][c - 1] = v
        else:
            rows[case["cid_row"] - 1][case["cid_cell"] - 1] = case["value"]
        ctx.case(case, True)
        load_and_validate(ctx, base, rows, case, via_main=True)
    elif "data_row" in case:
        table = [list(x) for x in BASE_DATA]
        table[case["data_row"] - 1][case["data_cell"] - 1] = case["value"]
        ctx.case(case, True)
        hostile_data(ctx, base, table, case, via_main=True)
    else:
        ctx.note("container faults are regenerated by the quick check")
        container_faults(ctx, base, 0)
