"""C20 User-defined field formats and checks are driven by the documented call protocol."""
import io
import json
import os
import subprocess
import sys

from cpverif import gen, storage
from cpverif.models import fieldmodel as F
from cpverif.models import rangemodel as R
from cpverif.models import rowmodel as RM

LEVEL = "exploration"
RULE = (
    "recording subclasses of AbstractFieldFormat ('Rec') and AbstractCheck ('Rec') registered in the harness process; CIDs "
    "with 1-4 recording fields (empty flag, length declaration, allowed characters varied) and 0-3 recording checks "
    "(accepting / vetoing marked rows / failing at the end) x tables of 0-6 rows (empty, blank-only, disallowed-character, "
    "wrong-length, hook-rejected cells, wrong item counts, vetoed rows) x header 0-2 x validation limit x the three error "
    "modes x reader (cutplace.rows, Reader, cutplace.validate) and writer x delimited and fixed x 1-3 consecutive runs on one CID (a Reader that was read and closed may be asked for its rows once more: a run of its own). The recorded call log must equal "
    "the sequence M-protocol predicts (reset at least once before the first row of each data set and never later; value "
    "hooks only for guarded-clean cells in column order up to the first rejected cell; check_row in declaration order "
    "until the first veto; check_at_end once for every check in declaration order, whether or not an earlier one failed; cleanup of every check; no "
    "calls for header rows or rows beyond the limit). A third of the CIDs use classes defined late in the process, a sixth classes that derive "
    "from other user classes, a sixth get their checks through Cid.add_check() instead of C rows. Plus the same classes written to a plugin folder and loaded by "
    "import_plugins and by the command line's --plugins in subprocesses, logging to a JSONL file. A case is (CID, table, "
    "mode, API, runs), distinct by digest; non-trivial with a rejected cell, a vetoing/failing check or an active "
    "header/limit."
)
ASSUMPTIONS = ["'reset once before the first row' is judged as 'at least once between the previous run's last event and the first row, none later' (validators reset at creation and again when rows() starts)"]

LOG = []
POST_DEFINED = [0]  # number of class pairs defined after the Cid object that uses them (a handful per process)
KEEP = {}  # the Reader (and its source) of the most recent "reader" run
ERRORS_SEEN = []  # [expected row number, error class, row number in the error's location, text] of yielded errors
_registered = {}


def _define(prefix):
    """Defines a recording field format <prefix>FieldFormat and check <prefix>Check (direct subclasses of the abstract
    bases, like any plugin); they resolve by class name like built-ins."""
    from cutplace import checks, errors, fields

    def field_init(self, field_name, is_allowed_to_be_empty, length, rule, data_format):
        fields.AbstractFieldFormat.__init__(self, field_name, is_allowed_to_be_empty, length, rule, data_format, empty_value="")

    def validated_value(self, value):
        LOG.append(["validated_value", self.field_name, value])
        if value.startswith("REJ"):
            if value.startswith("REJR"):
                # a hook built on cutplace.ranges: Range.validate() raises a RangeValueError (another kind of data error)
                raise errors.RangeValueError("recording field rejects %r" % value)
            raise errors.FieldValueError("recording field rejects %r" % value)
        return value

    def check_init(self, description, rule, available_field_names, location_of_definition=None):
        checks.AbstractCheck.__init__(self, description, rule, available_field_names, location_of_definition)
        self.behaviour = rule.strip()
        if self.behaviour == "badrule":
            # the way the documented example check does it (ranges.Range(rule) raises an InterfaceError without location)
            raise errors.InterfaceError("recording check %s cannot make sense of its rule" % description)

    def reset(self):
        LOG.append(["reset", self.description])

    def check_row(self, field_name_to_value_map, location):
        LOG.append(["check_row", self.description, [field_name_to_value_map[n] for n in self.field_names]])
        if self.behaviour == "veto" and any(v.startswith("VETO") for v in field_name_to_value_map.values()):
            if any(v.startswith("VETOB") for v in field_name_to_value_map.values()):
                # the way the documentation shows it: without passing on the location
                raise errors.CheckError("recording check %s vetoes the row" % self.description)
            raise errors.CheckError("recording check %s vetoes the row" % self.description, location)

    def check_at_end(self, location):
        LOG.append(["check_at_end", self.description])
        if self.behaviour == "fail":
            raise errors.CheckError("recording check %s fails at the end" % self.description, location)
        if self.behaviour == "fail-range":
            # a verdict built on cutplace.ranges (Range.validate raises a RangeValueError, another kind of data error)
            raise errors.RangeValueError("recording check %s: count is outside the expected range" % self.description, location)

    def cleanup(self):
        LOG.append(["cleanup", self.description])
        if self.behaviour == "cleanup-error":
            # releasing a resource can fail, e.g. closing a file on a full disk
            raise OSError("recording check %s cannot release its resources" % self.description)

    field_class = type(prefix + "FieldFormat", (fields.AbstractFieldFormat,), {"__init__": field_init, "validated_value": validated_value})
    check_class = type(prefix + "Check", (checks.AbstractCheck,),
                       {"__init__": check_init, "reset": reset, "check_row": check_row, "check_at_end": check_at_end, "cleanup": cleanup})
    return field_class, check_class


def register():
    """Defines the recording classes once per process."""
    if not _registered:
        _registered["field"], _registered["check"] = _define("Rec")
    return _registered


def register_sub():
    """Recording classes that derive from the recording classes instead of from the abstract bases: user classes resolve
    by name however deep they sit in the class hierarchy (e.g. a format refining IntegerFieldFormat)."""
    register()
    if "sub_field" not in _registered:
        _registered["sub_field"] = type("SubRecFieldFormat", (_registered["field"],), {})
        _registered["sub_check"] = type("SubRecCheck", (_registered["check"],), {})


def register_late():
    """A second pair of recording classes, defined only after CIDs have already been created in this process: classes
    resolve by name whenever they were defined."""
    if "late_field" not in _registered:
        _registered["late_field"], _registered["late_check"] = _define("LateRec")


# ---------------------------------------------------------------------------------- case generation
def gen_case(rng):
    kind = rng.choice(["delimited", "delimited", "fixed"])
    allowed_text = rng.choice([None, None, "32...126", "48...57, 65...90, 97...122"])
    allowed = R.parse_int_range(allowed_text) if allowed_text else None
    nfields = rng.randint(1, 4)
    fields = []
    for i in range(nfields):
        if kind == "fixed":
            length = str(rng.randint(3, 6))
        else:
            length = rng.choice(["", "", "1...4", "2...", "...5", "3"])
        fields.append({"name": "r%d" % i, "type": "Rec", "empty": rng.random() < 0.5, "length": length, "rule": "any"})
    checks = []
    for c in range(rng.choice([0, 1, 1, 2, 3])):
        checks.append({"desc": "chk%d" % c, "type": "Rec", "behaviour": rng.choice(["accept", "accept", "veto", "fail", "fail-range", "cleanup-error"])})
    header = rng.choice([0, 0, 1, 2])
    model = RM.CidModel(kind, fields, [], header, allowed=allowed, allowed_text=allowed_text)
    model.rec_checks = checks
    model.late_classes = False
    model.allowed_below_fields = allowed is not None and rng.random() < 0.5
    table = []
    for r in range(rng.randint(0, 6) + header):
        row = []
        for f in fields:
            w = int(f["length"]) if kind == "fixed" else None
            roll = rng.random()
            if roll < 0.5:
                cell = rng.choice(["ab", "abc", "x1", "Zz9"])
            elif roll < 0.6:
                cell = ""
            elif roll < 0.68:
                cell = " " * rng.randint(1, 3)
            elif roll < 0.76:
                cell = rng.choice(["aé", "a_b", "a b"])  # may hit the allowed-characters guard
            elif roll < 0.84:
                cell = rng.choice(["a", "abcdef", "abcdefgh"])  # may hit the length guard
            elif roll < 0.92:
                cell = rng.choice(["REJ", "REJ", "REJR"])
            else:
                cell = rng.choice(["VETO", "VETO", "VETOB"])
            if kind == "fixed":
                cell = cell[:w] if rng.random() < 0.9 else cell
                if len(cell) <= w:
                    cell = cell.ljust(w) if rng.random() < 0.8 else cell.rjust(w)
                else:
                    cell = cell[:w]
            row.append(cell)
        if kind == "delimited" and rng.random() < 0.1:
            row = row[:-1] if rng.random() < 0.5 and len(row) > 1 else row + ["extra"]
        if kind == "delimited" and r < header and rng.random() < 0.4 and allowed is None:
            # header cells are free text, e.g. a column title spanning two lines
            row[rng.randrange(len(row))] = "two\nlines"
        table.append(row)
    return model, table


def cid_rows(model, field_type="Rec", check_type="Rec"):
    rows = []
    for row in model.cid_rows():
        if row[0] == "F":
            row = list(row)
            row[5] = field_type
        rows.append(row)
    if getattr(model, "allowed_below_fields", False):
        # the same interface with the allowed characters declared below the fields they apply to
        rows = [r for r in rows if not (r[0] == "D" and r[1] == "Allowed characters")] + [r for r in rows if r[0] == "D" and r[1] == "Allowed characters"]
    for c in model.rec_checks:
        rows.append(["C", c["desc"], check_type, c["behaviour"]])
    return rows


# ---------------------------------------------------------------------------------- M-protocol
def predict_row(model, row, calls):
    """Appends the calls one validated row causes; returns True when the row is accepted."""
    if len(row) != len(model.fields):
        return False
    for decl, cell in zip(model.fields, row):
        g = F.guard(decl, model.fmt, cell)
        if g[0] == "empty":
            continue
        if g[0] == F.REJECT:
            return False
        if g[0] == F.UNJUDGED:
            raise Unjudged(g[1])
        calls.append(["validated_value", decl["name"], g[1]])
        if g[1].startswith("REJ"):
            return False
    names = model.names()
    for c in model.rec_checks:
        calls.append(["check_row", c["desc"], list(row)])
        if c["behaviour"] == "veto" and any(v.startswith("VETO") for v in row):
            return False
    return True


class Unjudged(Exception):
    pass


def predict_close(model, calls):
    # every check is asked for its end-of-data verdict, also after an earlier-declared check has failed
    for c in model.rec_checks:
        calls.append(["check_at_end", c["desc"]])
    for c in model.rec_checks:
        calls.append(["cleanup", c["desc"]])


def predict_read(model, raw_rows, mode, limit):
    calls = []
    for rowno, row in enumerate(raw_rows, 1):
        if rowno <= model.header or (limit is not None and rowno > limit):
            continue
        ok = predict_row(model, row, calls)
        if not ok and mode == "raise":
            break
    predict_close(model, calls)
    return calls


def predict_write(model, rows):
    calls = []
    written = 0
    for row in rows:
        if written < model.header:
            written += 1
            continue
        if predict_row(model, row, calls):
            written += 1
    predict_close(model, calls)
    return calls


def normalise(log, check_names):
    """Splits off the leading resets: returns (resets_ok, rest).  resets_ok: every check was reset at least once
    before the first other event, and no reset occurs later."""
    i = 0
    seen = set()
    while i < len(log) and log[i][0] == "reset":
        seen.add(log[i][1])
        i += 1
    rest = log[i:]
    late = [e for e in rest if e[0] == "reset"]
    return (seen == set(check_names), late, rest)


# ---------------------------------------------------------------------------------- execution
def _source(model, table):
    if model.kind == "fixed":
        text = "".join("".join(row) + "\n" for row in table)
    else:
        text = storage.delimited_text(table)
    return io.StringIO(text, newline="")


def run_reader(cid, model, table, mode, limit, api, prepared=None):
    import cutplace
    from cutplace import errors

    source = _source(model, table)
    try:
        if api == "rows":
            for number, item in enumerate(cutplace.rows(cid, source, on_error=mode, validate_until=limit), 1):
                if isinstance(item, Exception):
                    # whoever rejected the row - a built-in guard, a user's value hook or a user's check -: the error
                    # handed to the caller tells where
                    location = getattr(item, "location", None)
                    ERRORS_SEEN.append([number + model.header, type(item).__name__, None if location is None else location.line + 1, str(item)])
        elif api == "validate":
            # the validate-only API: raises at the first rejected row, and nothing beyond the limit causes a call
            cutplace.validate(cid, source, validate_until=limit)
        elif api in ("reader", "reader-again", "reader-prepared"):
            if api == "reader-prepared" and prepared is not None:
                # a Reader that was created before the first run of the plan began (several validators set up at
                # once, used one after the other): its data set begins with its first row, not with its creation
                reader, source = prepared
            elif api == "reader-again" and KEEP.get("reader") is not None:
                # the Reader of the run before (read completely or aborted, and closed) is asked for its rows once
                # more: a run of its own, driven by the same protocol
                reader, source = KEEP["reader"], KEEP["source"]
                source.seek(0)
            else:
                reader = cutplace.Reader(cid, source, on_error=mode, validate_until=limit)
            KEEP["reader"], KEEP["source"] = reader, source
            try:
                try:
                    with reader:
                        for _ in reader.rows():
                            pass
                except OSError:
                    pass
            finally:
                reader.close()  # closing again must not ask the checks again
        else:
            raise ValueError(api)
    except (errors.DataError, OSError):
        pass


def run_writer(cid, model, rows, cid_path=None):
    import cutplace
    from cutplace import errors

    # (bound to the CID object, or - like readers can be - to the path of the CID's file)
    writer = cutplace.Writer(cid_path if cid_path is not None else cid, io.StringIO(newline=""))
    try:
        for row in rows:
            try:
                writer.write_row(row)
            except errors.DataError:
                pass
    finally:
        try:
            writer.close()
        except (errors.DataError, OSError):
            pass
        writer.close()  # closing again must not ask the checks again


def check_case(ctx, model, table, plan):
    """plan: list of runs [(api, mode, limit)] executed on ONE cid."""
    from cutplace import errors, interface

    register()
    classes = getattr(model, "classes", None) or ("LateRec" if getattr(model, "late_classes", False) else "Rec")
    via_add_check = getattr(model, "via_add_check", False)
    case = {"cid": dict(model.to_json(), rec_checks=model.rec_checks, classes=classes, via_add_check=via_add_check), "table": table, "plan": [list(p) for p in plan]}
    del LOG[:]
    if classes == "LateRec":
        register_late()
    elif classes == "SubRec":
        register_sub()
    cid = interface.Cid()
    if classes.startswith("PostRec"):
        # the order docs/api.rst shows: the (empty) Cid object exists before the user's classes are defined
        if classes + "_check" not in _registered:
            _registered[classes + "_field"], _registered[classes + "_check"] = _define(classes)
        ctx.count("cids.created-before-their-classes")
    try:
        if via_add_check:
            # the programmatic way to supply checks: Cid.add_check() with an instance of the user's class
            cid.read("<c20>", [r for r in cid_rows(model, classes, classes) if r[0] != "C"])
            check_class = {"Rec": _registered["check"], "LateRec": _registered.get("late_check"), "SubRec": _registered.get("sub_check")}.get(classes) or _registered[classes + "_check"]
            for c in model.rec_checks:
                cid.add_check(check_class(c["desc"], c["behaviour"], cid.field_names))
            ctx.count("cids.with-checks-from-add_check")
        else:
            cid.read("<c20>", cid_rows(model, classes, classes))
    except errors.InterfaceError as error:
        ctx.case(case, True)
        ctx.violation("C20:class-not-resolved:%s" % classes, case, "recording class registered in the process was not resolved by its name", observed=error)
        return
    except Exception as error:
        from cpverif import core

        mod, fn = core.innermost_cutplace_frame(error)
        ctx.case(case, True)
        ctx.violation("C20:cid-crash:%s@%s.%s" % (type(error).__name__, mod, fn), case, "building the CID with user classes failed with an internal error", observed=error)
        return
    del LOG[:]
    names = [c["desc"] for c in model.rec_checks]
    nontrivial = model.header > 0 or any(c["behaviour"] != "accept" for c in model.rec_checks)
    KEEP.clear()
    prepared = {}
    try:
        import cutplace

        for index, (api, mode, limit) in enumerate(plan):
            if api == "reader-prepared":
                source = _source(model, table)
                prepared[index] = (cutplace.Reader(cid, source, on_error=mode, validate_until=limit), source)
                ctx.count("readers.created-before-the-first-run")
    except Exception as error:
        from cpverif import core

        mod, fn = core.innermost_cutplace_frame(error)
        ctx.case(case, True)
        ctx.violation("C20:crash:%s@%s.%s" % (type(error).__name__, mod, fn), case, "creating a Reader failed with an internal error", observed=error)
        return
    for index, (api, mode, limit) in enumerate(plan):
        del LOG[:]
        del ERRORS_SEEN[:]
        raw = [list(r) for r in table]
        try:
            alternatives = []
            if api == "writer":
                data_rows = [[c.strip(" ") if model.kind == "fixed" else c for c in r] for r in raw]
                want = predict_write(model, data_rows)
                if model.kind == "fixed":
                    # whether the writer judges a fixed-width value before or after padding it to the field width is not
                    # fixed by the protocol (it matters when blank is not an allowed character): both are accepted
                    padded_rows = [[c.ljust(w) for c, w in zip(r, model.widths())] if len(r) == len(model.fields) else r for r in data_rows]
                    alternatives.append(predict_write(model, padded_rows))
                cid_path = None
                if not via_add_check and (len(table) + index) % 3 == 0:
                    cid_path = os.path.join(ctx.tmp, "c20_writer_cid.csv")
                    with open(cid_path, "w", encoding="utf-8", newline="") as f:
                        f.write(storage.delimited_text(cid_rows(model, classes, classes)))
                    ctx.count("writers.bound-by-cid-path")
                run_writer(cid, model, data_rows, cid_path)
            else:
                want = predict_read(model, raw, mode, limit)
                run_reader(cid, model, table, mode, limit, api, prepared.get(index))
        except Unjudged as u:
            ctx.unjudged(str(u))
            return
        except Exception as error:
            from cpverif import core

            mod, fn = core.innermost_cutplace_frame(error)
            ctx.case(case, True)
            ctx.violation("C20:crash:%s@%s.%s" % (type(error).__name__, mod, fn), case, "run %d failed with an internal error" % (index + 1), observed=error)
            return
        got = [list(e) for e in LOG]
        bad_location = [e for e in ERRORS_SEEN if e[2] != e[0]]
        ctx.count("yielded-errors.location-judged", len(ERRORS_SEEN))
        del ERRORS_SEEN[:]
        if bad_location:
            ctx.case(case, True)
            ctx.violation("C20:rejection-without-row:%s" % bad_location[0][1], dict(case, run=index + 1), "a rejection caused by a user-defined class does not tell its row",
                          expected="row %d" % bad_location[0][0], observed=bad_location[0])
            return
        ctx.count("runs.%s" % api)
        ctx.count("calls.observed", len(got))
        if api == "writer" and model.kind == "fixed":
            # whether a check sees a fixed-width value before or after padding is not part of the protocol
            for log in [got, want] + alternatives:
                for event in log:
                    if event[0] == "check_row":
                        event[2] = [v.rstrip(" ") if isinstance(v, str) else v for v in event[2]]
        resets_ok, late_resets, rest = normalise(got, names)
        if limit is not None or any(e[0] == "validated_value" and e[2].startswith("REJ") for e in want):
            nontrivial = True
        if not resets_ok:
            ctx.case(case, True)
            ctx.violation("C20:%s:reset-missing" % ("writer" if api == "writer" else "reader"), dict(case, run=index + 1),
                          "not every check was reset before the first row of run %d" % (index + 1), expected=names, observed=got[:10])
            return
        if late_resets:
            ctx.case(case, True)
            ctx.violation("C20:reset-mid-run", dict(case, run=index + 1), "a check was reset after the run had started", expected=want, observed=got)
            return
        if rest != want and rest in alternatives:
            ctx.count("writer.fixed-judged-after-padding")
            continue
        if rest != want:
            ctx.case(case, True)
            k = 0
            while k < min(len(rest), len(want)) and rest[k] == want[k]:
                k += 1
            w = want[k][0] if k < len(want) else "end"
            g = rest[k][0] if k < len(rest) else "end"
            ctx.violation("C20:protocol:expected-%s-got-%s" % (w, g), dict(case, run=index + 1),
                          "call sequence of run %d deviates from the protocol at call %d" % (index + 1, k + 1), expected=want, observed=rest)
            return
    ctx.case(case, nontrivial)


def declaration_errors(ctx, index):
    """What user classes refuse when the CID is read is an interface error that names the row, like for built-ins."""
    from cutplace import errors, interface

    register()
    rng = ctx.rng("decl", index)
    rows = [["D", "Format", "Delimited"]]
    for k in range(rng.randint(0, 3)):
        rows.append(["F", "plain%d" % k, "", "", "", "Text", ""])
    what = ["check-rule-refused-by-constructor", "example-refused-by-value-hook", "example-refused-with-range-error"][index % 3]
    if what == "check-rule-refused-by-constructor":
        rows.append(["F", "r0", "", "", "", "Rec", "any"])
        rows.append(["C", "refused", "Rec", "badrule"])
    else:
        rows.append(["F", "r0", "REJ" if what == "example-refused-by-value-hook" else "REJR", "", "", "Rec", "any"])
    bad_row = len(rows)
    case = {"cid_rows": rows, "what": what}
    ctx.case(case, True)
    ctx.count("declaration-errors.judged")
    try:
        interface.Cid().read("<c20>", rows)
    except errors.InterfaceError as error:
        if "(R%dC" % bad_row not in str(error):
            ctx.violation("C20:declaration-error-without-row:%s" % what, case, "the refusal of a user class at declaration does not name the row", expected="R%d" % bad_row, observed=str(error))
        return
    except Exception as error:
        ctx.violation("C20:declaration-error-type:%s:%s" % (what, type(error).__name__), case, "the refusal of a user class at declaration is no interface error", expected="InterfaceError", observed=error)
        return
    ctx.violation("C20:declaration-accepted:%s" % what, case, "what the user class refuses was accepted", observed="accepted")


def gen_plan(rng, model, table):
    plan = []
    for _ in range(rng.randint(1, 3)):
        api = rng.choice(["rows", "reader", "writer", "validate"])
        mode = rng.choice(["raise", "yield", "continue"])
        if api == "validate":
            mode = "raise"
        limit = rng.choice([None, None, 0, 1, 2, 3, len(table)])
        if api == "writer":
            mode, limit = None, None
        plan.append((api, mode, limit))
        if api == "reader" and rng.random() < 0.4:
            plan.append(("reader-again", mode, limit))
        elif api == "reader" and rng.random() < 0.4:
            plan[-1] = ("reader-prepared", mode, limit)
    return plan


# ---------------------------------------------------------------------------------- plugin folder variant
PLUGIN_SOURCE = '''
from __future__ import annotations
import dataclasses, json, os
from cutplace import checks, errors, fields

@dataclasses.dataclass
class PluginSettings:
    # (what ordinary modules do: dataclasses look their module up in sys.modules)
    log_name: str = "CPVERIF_PLUGIN_LOG"

def _log(event):
    with open(os.environ["CPVERIF_PLUGIN_LOG"], "a", encoding="utf-8") as f:
        f.write(json.dumps(event) + "\\n")

class PlugFieldFormat(fields.AbstractFieldFormat):
    def __init__(self, field_name, is_allowed_to_be_empty, length, rule, data_format):
        super().__init__(field_name, is_allowed_to_be_empty, length, rule, data_format, empty_value="")
    def validated_value(self, value):
        _log(["validated_value", self.field_name, value])
        if value.startswith("REJ"):
            raise errors.FieldValueError("plugin field rejects %r" % value)
        return value

class PlugCheck(checks.AbstractCheck):
    def __init__(self, description, rule, available_field_names, location_of_definition=None):
        super().__init__(description, rule, available_field_names, location_of_definition)
        self.behaviour = rule.strip()
    def reset(self):
        _log(["reset", self.description])
    def check_row(self, field_name_to_value_map, location):
        _log(["check_row", self.description, [field_name_to_value_map[n] for n in self.field_names]])
        if self.behaviour == "veto" and any(v.startswith("VETO") for v in field_name_to_value_map.values()):
            raise errors.CheckError("plugin check vetoes the row", location)
    def check_at_end(self, location):
        _log(["check_at_end", self.description])
        if self.behaviour == "fail":
            raise errors.CheckError("plugin check fails at the end", location)
    def cleanup(self):
        _log(["cleanup", self.description])
'''

IMPORT_SCRIPT = '''
import sys, logging
logging.disable(logging.CRITICAL)
import cutplace
from cutplace import interface, errors
interface.import_plugins(sys.argv[1])
for other_folder in sys.argv[4:]:
    # a second plugin folder whose module happens to have the same file name: its classes come on top of the first one's
    interface.import_plugins(other_folder)
    # ... and are there: a CID can name them
    try:
        interface.Cid().read("probe", [["D", "Format", "Delimited"], ["F", "x", "", "", "", "SecondFolder", ""]])
    except errors.InterfaceError as error:
        print("class of the second plugin folder not resolved: %s" % error, file=sys.stderr)
        sys.exit(7)
# what a program does between importing its plugins and using them: allocate (the collector runs), maybe collect explicitly
junk = [[str(i), [i]] for i in range(200000)]
del junk
import gc
gc.collect()
cid = interface.Cid(sys.argv[2])
try:
    for _ in cutplace.rows(cid, sys.argv[3], on_error="continue"):
        pass
except errors.DataError:
    pass
'''


def plugin_case(ctx, index):
    rng = ctx.rng("plugin", index)
    while True:
        model, table = gen_case(rng)
        if model.kind == "delimited":
            break
    via = "main" if index % 2 == 0 else "import_plugins"
    case = {"cid": dict(model.to_json(), rec_checks=model.rec_checks), "table": table, "via": via}
    # folder names are free: also characters that mean something to glob patterns
    folder = os.path.join(ctx.tmp, ["plugins%d", "cutplace_plugins[v%d]", "plug-ins?%d", "my plugins %d"][(index // 2) % 4] % index)
    os.makedirs(folder, exist_ok=True)
    with open(os.path.join(folder, "plug_rec.py"), "w") as f:
        f.write(PLUGIN_SOURCE)
    cid_path = os.path.join(folder, "cid.csv")
    data_path = os.path.join(folder, "data.csv")
    log_path = os.path.join(folder, "log.jsonl")
    with open(cid_path, "w", encoding="utf-8", newline="") as f:
        f.write(storage.delimited_text(cid_rows(model, "Plug", "Plug")))
    with open(data_path, "w", encoding="utf-8", newline="") as f:
        f.write(storage.delimited_text(table))
    env = dict(os.environ, CPVERIF_PLUGIN_LOG=log_path)
    if via == "main":
        cmd = [sys.executable, "-m", "cutplace.applications", "--log", "critical", "--plugins", folder, cid_path, data_path]
        mode = "raise"
    else:
        cmd = [sys.executable, "-c", IMPORT_SCRIPT, folder, cid_path, data_path]
        mode = "continue"
        if index % 4 == 1:
            second = folder + " second"
            os.makedirs(second, exist_ok=True)
            with open(os.path.join(second, "plug_rec.py"), "w") as f:
                f.write("from cutplace import fields\n\n\nclass SecondFolderFieldFormat(fields.TextFieldFormat):\n    pass\n")
            cmd.append(second)
            case["second_plugin_folder_with_a_module_of_the_same_name"] = True
            ctx.count("plugin.two-folders-one-module-name")
    try:
        proc = subprocess.run(cmd, env=env, capture_output=True, text=True, timeout=120, cwd=folder)
    except subprocess.TimeoutExpired:
        ctx.inconclusive_because("plugin subprocess hit its watchdog")
        return
    events = []
    if os.path.exists(log_path):
        with open(log_path, encoding="utf-8") as f:
            events = [json.loads(line) for line in f if line.strip()]
    ctx.case(case, True)
    ctx.count("plugin.subprocesses")
    try:
        want = predict_read(model, [list(r) for r in table], mode, None)
    except Unjudged as u:
        ctx.unjudged(str(u))
        return
    if proc.returncode not in (0, 1) or (not events and want):
        ctx.violation("C20:plugin-not-resolved", case, "classes from the plugin folder were not resolved or the run failed",
                      expected=want[:5], observed={"returncode": proc.returncode, "stderr": proc.stderr[-800:], "events": events[:5]})
        return
    names = [c["desc"] for c in model.rec_checks]
    resets_ok, late, rest = normalise(events, names)
    if not resets_ok or late or rest != want:
        ctx.violation("C20:plugin-protocol", case, "call sequence of plugin classes deviates from the protocol", expected=want, observed=events)


def run(ctx):
    ctx.floor("calls.observed", 2000)
    ctx.floor("runs.writer", 50)
    n = ctx.pick(2500, 120000)
    for i in range(n):
        if not ctx.mine(i):
            continue
        rng = ctx.rng("case", i)
        model, table = gen_case(rng)
        # from the second third of the run on, half of the CIDs use classes that are defined only then
        model.classes = "Rec"
        if (i * 3 >= n) and rng.random() < 0.5:
            model.classes = "LateRec"
            ctx.count("cids.with-late-defined-classes")
        elif rng.random() < 0.25:
            model.classes = "SubRec"
            ctx.count("cids.with-indirect-subclasses")
        elif POST_DEFINED[0] < 4 and rng.random() < 0.2:
            POST_DEFINED[0] += 1
            model.classes = "PostRec%d" % POST_DEFINED[0]
        model.via_add_check = bool(model.rec_checks) and rng.random() < 0.17
        check_case(ctx, model, table, gen_plan(rng, model, table))
    for i in range(ctx.pick(60, 600)):
        if ctx.mine(i):
            declaration_errors(ctx, i)
    for i in range(ctx.pick(12, 300)):
        if ctx.mine(i):
            plugin_case(ctx, i)
    ctx.floor("plugin.subprocesses", ctx.pick(6, 100))


def replay(ctx, case):
    if "cid_rows" in case:
        for i in range(3):
            declaration_errors(ctx, i)
        return
    c = case["cid"]
    model = RM.CidModel.from_json(c)
    model.rec_checks = c["rec_checks"]
    model.late_classes = c.get("late_classes", False)
    model.classes = c.get("classes")
    model.via_add_check = c.get("via_add_check", False)
    if "plan" in case:
        check_case(ctx, model, case["table"], [tuple(p) for p in case["plan"]])
