"""C15 ODS sheets are read as the logical table they contain."""
import itertools
import os
import re

from cpverif import storage

LEVEL = "fault_enumeration"
RULE = (
    "tables of 0-6 rows x 0-8 cells over an alphabet with runs of equal cells, equal adjacent rows, empty cells and rows, "
    "multiple / leading / trailing blanks, tabs, line breaks, XML-special and non-ASCII characters, written by an independent "
    "ODF encoder (zipfile + hand-written XML) with each optional feature switched on or off independently (column runs, "
    "row runs, text:s, text:tab, text:line-break, spans, several paragraphs: all 128 combinations; plus, each with probability 0.3, the structural "
    "encodings header rows (table:table-header-rows), nested outline groups (table:table-row-group), merged cells (table:covered-table-cell) and "
    "cell annotations), 1-3 sheets each of "
    "which is requested, XML encodings UTF-8 / UTF-16 / ISO-8859-1; read with rowio.ods_rows and (rectangular tables) "
    "with cutplace.rows under an ODS CID with a Sheet property; expected = the table handed to the encoder. Faults: "
    "missing sheet, not a zip archive, no content.xml, archive truncated at every 64th byte, content.xml cut at every tag "
    "boundary, repeat counts 0 / -1 / x / empty / 1.5 / 1_0 / 1e1 / 0x10 / non-ASCII digits on columns, rows and text:s - expected DataFormatError. A case is (tables, "
    "feature set, encoding, sheet) or a fault, distinct by digest; non-trivial when an optional feature is on, there are "
    ">= 2 sheets, or it is a fault."
)
ASSUMPTIONS = [
    "a run of equal, completely empty rows at the very end of a sheet is unjudged: it cannot be told apart from the filler rows spreadsheet applications append",
    "the encoder follows ODF 1.2 white-space rules; a merged cell denotes its text followed by empty cells for the cells it covers",
    "several paragraphs in one cell denote the paragraph texts joined by line breaks",
]

CELLS = ["", "", "a", "a", "b", "ab", "a b", "a  b", "a   b", " a", "a ", "  ", " ", "x\ty", "\tx", "l1\nl2", "l1\n\nl3", "\n", "<&>", "\"q'", "äöü", "ñ", "€", "日本", "0", "1.5", "a\t b\n c"]


def gen_table(rng, features, latin1):
    nrows = rng.randint(0, 6)
    table = []
    for _ in range(nrows):
        if table and rng.random() < 0.3:
            table.append(list(table[-1]))  # equal adjacent rows
            continue
        ncells = rng.randint(0, 8)
        row = []
        while len(row) < ncells:
            cell = rng.choice(CELLS)
            if not storage.ods_encodable(cell, features) or (latin1 and any(ord(c) > 255 for c in cell)):
                cell = rng.choice(["a", "b", "", "ab"])
            run = rng.choice([1, 1, 1, 2, 3])
            row.extend([cell] * min(run, ncells - len(row)))
        table.append(row)
    return table


def feature_sets():
    out = []
    for n in range(len(storage.ALL_ODS_FEATURES) + 1):
        out.extend(itertools.combinations(storage.ALL_ODS_FEATURES, n))
    return out


def rows_collapsed(table):
    out = []
    for row in table:
        if not out or out[-1] != row:
            out.append(row)
    return out


def trailing_filler_alternative(table):
    """The table with a final run (>= 2) of equal, completely empty rows collapsed into one row: what a reader that
    treats a trailing repeated empty row as the filler spreadsheet applications append would return."""
    n = len(table)
    if n < 2 or any(table[-1]):
        return None
    k = n
    while k > 0 and table[k - 1] == table[-1]:
        k -= 1
    if n - k < 2:
        return None
    return table[:k] + [table[-1]]


def filler_zone(ctx, table, got, features):
    if "rowruns" in features and got == trailing_filler_alternative(table):
        ctx.unjudged("run of equal empty rows at the end of a sheet (indistinguishable from filler rows)")
        return True
    return False


def classify(table, got, features):
    """Mechanism key of a mismatch (defect models of known findings first)."""
    if ("headerrows" in features or "rowgroups" in features) and len(got) < len(table) and all(r in table for r in got):
        return "C15:rows-in-row-containers-dropped"
    if "covered" in features and len(got) == len(table) and any(len(g) < len(t) for g, t in zip(got, table)) and \
            all([c for c in g if c != ""] == [c for c in t if c != ""] for g, t in zip(got, table)):
        return "C15:covered-cells-dropped"
    if "rowruns" in features and got == rows_collapsed(table) and got != table:
        return "C15:row-runs-collapsed"
    if len(got) == len(table) and all(len(g) == len(t) for g, t in zip(got, table)):
        kinds = set()
        for g, t in zip(got, table):
            for a, b in zip(g, t):
                if a != b:
                    if a is None:
                        kinds.add("none-for-empty-paragraph")
                    elif isinstance(a, str) and b.startswith(a):
                        kinds.add("text-truncated")
                    else:
                        kinds.add("text-differs")
        return "C15:cell-text:" + "+".join(sorted(kinds))
    if len(got) != len(table):
        return "C15:row-count"
    return "C15:row-width"


def check_table(ctx, index):
    import cutplace
    from cutplace import errors, interface, rowio

    rng = ctx.rng("table", index)
    fsets = feature_sets()
    features = fsets[index % len(fsets)]
    # structural encodings are switched on independently of the 128 combinations of the text-level ones
    features = features + tuple(f for f in storage.STRUCTURE_ODS_FEATURES if rng.random() < 0.3)
    for f in storage.STRUCTURE_ODS_FEATURES:
        if f in features:
            ctx.count("tables.with-" + f)
    encoding = ["UTF-8", "UTF-8", "UTF-16", "ISO-8859-1"][(index // len(fsets)) % 4]
    nsheets = rng.choice([1, 1, 2, 3])
    sheets = [gen_table(rng, features, encoding == "ISO-8859-1") for _ in range(nsheets)]
    path = os.path.join(ctx.tmp, "t.ods")
    storage.write_ods(path, sheets, features, encoding)
    for k in range(1, nsheets + 1):
        case = {"sheets": sheets, "features": list(features), "encoding": encoding, "sheet": k}
        ctx.case(case, bool(features) or nsheets >= 2)
        ctx.count("reads")
        try:
            got = list(rowio.ods_rows(path, k))
        except Exception as error:
            ctx.violation("C15:read-failed:%s" % type(error).__name__, case, "a well-formed ODS could not be read", expected=sheets[k - 1], observed=error)
            continue
        if got != sheets[k - 1] and not filler_zone(ctx, sheets[k - 1], got, features):
            ctx.violation(classify(sheets[k - 1], got, features), case, "rows read differ from the logical table of the sheet", expected=sheets[k - 1], observed=got)
    # through the validating reader with a Sheet property (rectangular, non-empty tables only)
    k = rng.randint(1, nsheets)
    table = sheets[k - 1]
    width = max([len(r) for r in table] + [0])
    if table and width > 0 and all(len(r) == width for r in table):
        rows = [["D", "Format", "ODS"], ["D", "Sheet", str(k)]] + [["F", "c%d" % i, "", "X", "", "Text", ""] for i in range(width)]
        cid = interface.Cid()
        cid.read("<c15>", rows)
        case = {"sheets": sheets, "features": list(features), "encoding": encoding, "sheet": k, "via": "cutplace.rows"}
        ctx.case(case, True)
        ctx.count("reads.via-cid")
        try:
            got = [r for r in cutplace.rows(cid, path, on_error="yield")]
        except Exception as error:
            ctx.violation("C15:cid-read-failed:%s" % type(error).__name__, case, "reading through an ODS CID failed", expected=table, observed=error)
            got = None
        if got is not None and got != table and not filler_zone(ctx, table, got, features):
            key = classify(table, got, features) if all(isinstance(r, list) for r in got) else "C15:cid-read-rejections"
            ctx.violation(key + ":via-cid", case, "rows read through the ODS CID differ from the sheet", expected=table, observed=[r if isinstance(r, list) else str(r) for r in got])
    os.remove(path)


def check_rewrite(ctx, index):
    """The document at a path is replaced by another one of the same size and modification time (and then by something
    that is no archive at all): every read must reflect what is at the path at that moment."""
    from cutplace import errors, rowio

    rng = ctx.rng("rewrite", index)
    first = [[rng.choice("abcd") + rng.choice("xyz") for _ in range(rng.randint(1, 4))] for _ in range(rng.randint(1, 4))]
    second = [[cell[::-1] if rng.random() < 0.5 else cell.upper() for cell in row] for row in first]
    if second == first:
        second[0][0] = "QQ"
    path = os.path.join(ctx.tmp, "rewritten.ods")
    case = {"first": first, "second": second, "what": "same path rewritten with equal size and modification time"}
    ctx.case(case, True)
    ctx.count("rewrites")
    storage.write_ods(path, [first], stored=True)
    stat = os.stat(path)
    got_first = list(rowio.ods_rows(path, 1))
    storage.write_ods(path, [second], stored=True)
    same_size = os.stat(path).st_size == stat.st_size
    os.utime(path, ns=(stat.st_atime_ns, stat.st_mtime_ns))
    got_second = list(rowio.ods_rows(path, 1))
    if got_first != first or got_second != second:
        ctx.violation("C15:stale-read-after-rewrite", dict(case, same_size=same_size), "rows read do not reflect the document that is at the path now",
                      expected=[first, second], observed=[got_first, got_second])
    garbage = b"x" * stat.st_size
    with open(path, "wb") as f:
        f.write(garbage)
    os.utime(path, ns=(stat.st_atime_ns, stat.st_mtime_ns))
    expect_format_error(ctx, {"fault": "not-a-zip", "after": "a valid document of the same size and time at the same path"}, path, 1, "not-a-zip")
    os.remove(path)


def expect_format_error(ctx, case, path, sheet, kind, may_be_benign=False):
    from cutplace import errors, rowio

    ctx.case(case, True)
    ctx.count("faults")
    try:
        rows = list(rowio.ods_rows(path, sheet))
    except errors.DataFormatError:
        return
    except OSError:
        if kind in ("archive-truncated", "not-a-zip"):
            ctx.unjudged("damaged archive reported as OSError (environment)")
            return
        raise
    except Exception as error:
        from cpverif import core

        mod, fn = core.innermost_cutplace_frame(error)
        ctx.violation("C15:fault-escape:%s:%s@%s.%s" % (kind, type(error).__name__, mod, fn), case, "fault ended in something else than a data-format error", expected="DataFormatError", observed=error)
        return
    if may_be_benign:
        ctx.unjudged("damaged container that still parses")
        return
    ctx.violation("C15:fault-accepted:%s" % kind, case, "fault was not reported", expected="DataFormatError", observed=rows)


def expect_rows_or_format_error(ctx, case, path, want):
    from cutplace import errors, rowio

    ctx.case(case, True)
    ctx.count("faults")
    try:
        rows = list(rowio.ods_rows(path, 1))
    except errors.DataFormatError:
        ctx.count("deep-nesting.refused")
        return
    except Exception as error:
        from cpverif import core

        mod, fn = core.innermost_cutplace_frame(error)
        ctx.violation("C15:fault-escape:%s:%s@%s.%s" % (case["fault"], type(error).__name__, mod, fn), case, "deeply nested elements ended in something else than rows or a data-format error",
                      expected="rows or DataFormatError", observed=error)
        return
    if rows != want:
        ctx.violation("C15:deep-nesting-misread", case, "deeply nested elements were read as another table", expected=want, observed=rows)


def check_faults(ctx, index):
    rng = ctx.rng("fault", index)
    table = [["a", "a", "b"], ["a", "a", "b"], ["c", "", "d e"]]
    sheets = [table, [["x"]]]
    path = os.path.join(ctx.tmp, "f.ods")
    which = index % 6
    if which == 0:
        storage.write_ods(path, sheets)
        for sheet in (3, 4, 10):
            expect_format_error(ctx, {"fault": "missing-sheet", "sheet": sheet, "sheets": 2}, path, sheet, "missing-sheet")
    elif which == 1:
        for blob in (b"", b"not a zip archive", b"PK\x03\x04 broken", "a,b\nc,d\n".encode()):
            with open(path, "wb") as f:
                f.write(blob)
            expect_format_error(ctx, {"fault": "not-a-zip", "bytes": repr(blob)}, path, 1, "not-a-zip")
    elif which == 2:
        storage.write_ods_raw(path, b"", with_content=False)
        expect_format_error(ctx, {"fault": "no-content-xml"}, path, 1, "no-content-xml")
    elif which == 3:
        data = storage.write_ods(path, sheets, ("colruns", "rowruns"))
        with open(path, "rb") as f:
            blob = f.read()
        step = 64 if ctx.tier == "thorough" else 128
        for cut in range(0, len(blob), step):
            with open(path, "wb") as f:
                f.write(blob[:cut])
            expect_format_error(ctx, {"fault": "archive-truncated", "at": cut, "of": len(blob)}, path, 1, "archive-truncated")
    elif which == 4:
        xml = storage.ods_content(sheets, ("colruns", "s")).encode("utf-8")
        cuts = [i for i, b in enumerate(xml) if b == ord("<")][1:]
        if ctx.quick:
            cuts = cuts[::3]
        for cut in cuts:
            storage.write_ods_raw(path, xml[:cut])
            expect_format_error(ctx, {"fault": "content-xml-cut", "at": cut}, path, 1, "content-xml-cut")
        for junk in (b"<a><b></a>", b"\xff\xfe\x00", b"<?xml version='1.0'?>", b"&amp;",
                     # a declaration that names no character encoding at all (unknown, or a codec that is none)
                     b"<?xml version='1.0' encoding='UTF-99'?><a/>", b"<?xml version='1.0' encoding='hex'?><a/>", b"<?xml version='1.0' encoding='rot13'?><a/>"):
            storage.write_ods_raw(path, junk)
            expect_format_error(ctx, {"fault": "content-xml-malformed", "bytes": repr(junk)}, path, 1, "content-xml-malformed")
    else:
        def kind_of(attr):
            if attr in ("x", "", "1.5", "1_0", "\u0661\u0660", "\uff11\uff12", "1e1", "0x10"):
                return "non-numeric"
            return "blank-padded" if attr == " 2" else "non-positive"

        # counts no machine can honour: still a data-format error, not an internal failure
        for attr in ("1" + "0" * 20, "1" + "0" * 13):
            storage.write_ods(path, sheets, ("colruns",), cell_repeat_attr=attr)
            expect_format_error(ctx, {"fault": "column-repeat-count", "value": attr}, path, 1, "column-repeat-count:absurd")
            xml = storage.ods_content([[["a   b"]]], ("s",))
            storage.write_ods_raw(path, xml.replace('text:c="2"', 'text:c="%s"' % attr).encode("utf-8"))
            expect_format_error(ctx, {"fault": "space-count", "value": attr}, path, 1, "space-count:absurd")
        # white space that XML does not know next to a count: not a number
        for attr in ("\u00a02", "2\u2003", "\u30002", "2\u0085"):
            storage.write_ods(path, sheets, ("colruns",), cell_repeat_attr=attr)
            expect_format_error(ctx, {"fault": "column-repeat-count", "value": attr}, path, 1, "column-repeat-count:non-numeric")
            storage.write_ods(path, sheets, ("rowruns",), row_repeat_attr=attr)
            expect_format_error(ctx, {"fault": "row-repeat-count", "value": attr}, path, 1, "row-repeat-count:non-numeric")
        # elements nested deeper than any recursion limit: the rows or a data-format error, nothing else
        for depth in (1200, 5000):
            deep_spans = "<text:span>" * depth + "deep" + "</text:span>" * depth
            xml = storage.ods_content([[["a", "MARK"]]], ()).replace("MARK", deep_spans)
            storage.write_ods_raw(path, xml.encode("utf-8"))
            expect_rows_or_format_error(ctx, {"fault": "deeply-nested-spans", "depth": depth}, path, [["a", "deep"]])
            xml = storage.ods_content([[["a"], ["b"]]], ())
            xml = xml.replace("<table:table-row>", "<table:table-row-group>" * depth + "<table:table-row>", 1)
            k = xml.rindex("</table:table-row>") + len("</table:table-row>")
            xml = xml[:k] + "</table:table-row-group>" * depth + xml[k:]
            storage.write_ods_raw(path, xml.encode("utf-8"))
            expect_rows_or_format_error(ctx, {"fault": "deeply-nested-row-groups", "depth": depth}, path, [["a"], ["b"]])
        # "1_0", Arabic-Indic and full-width digits are numbers for Python's int() but not for XML Schema's positiveInteger
        for attr in ("0", "-1", "x", "", "1.5", " 2", "1_0", "\u0661\u0660", "\uff11\uff12", "1e1", "0x10"):
            storage.write_ods(path, sheets, ("colruns",), cell_repeat_attr=attr)
            expect_format_error(ctx, {"fault": "column-repeat-count", "value": attr}, path, 1, "column-repeat-count:%s" % kind_of(attr), may_be_benign=(attr == " 2"))
            storage.write_ods(path, sheets, ("rowruns",), row_repeat_attr=attr)
            expect_format_error(ctx, {"fault": "row-repeat-count", "value": attr}, path, 1, "row-repeat-count:%s" % kind_of(attr), may_be_benign=(attr == " 2"))
            if attr not in ("0", " 2"):
                xml = storage.ods_content([[["a   b"]]], ("s",))
                assert 'text:c="2"' in xml
                storage.write_ods_raw(path, xml.replace('text:c="2"', 'text:c="%s"' % attr).encode("utf-8"))
                expect_format_error(ctx, {"fault": "space-count", "value": attr}, path, 1, "space-count:%s" % kind_of(attr))
        # text:c is a count that may be 0 (ODF: nonNegativeInteger): no blank at all
        for encoded, want_text in (('<text:s text:c="0"/>', "a b"), ('<text:s text:c="00"/>', "a b"), ('<text:s text:c="+0"/>', "a b")):
            xml = storage.ods_content([[["a   b"]]], ("s",))
            storage.write_ods_raw(path, xml.replace('<text:s text:c="2"/>', encoded).encode("utf-8"))
            zero_case = {"fault": None, "what": "text:s with a count of zero", "spelled": encoded}
            ctx.case(zero_case, True)
            ctx.count("space-count-zero.judged")
            from cutplace import errors as _e0, rowio as _r0

            try:
                got = list(_r0.ods_rows(path, 1))
            except Exception as error:  # noqa
                if encoded.endswith('"+0"/>') and isinstance(error, _e0.DataFormatError):
                    continue  # (a sign is no part of a nonNegativeInteger's canonical form; refusing it is in order)
                ctx.violation("C15:space-count-zero-refused", zero_case, "a sheet whose text:s declares a count of 0 was refused", expected=[[want_text]], observed=error)
                continue
            if got != [[want_text]]:
                ctx.violation("C15:space-count-zero", zero_case, "text:s with a count of 0 does not stand for no blank", expected=[[want_text]], observed=got)
        # a sheet that is nothing but its element (no column, no row): the k-th sheet all the same, with no rows
        xml = storage.ods_content([[["a"]], [], [["z"]]], ())
        bare = re.sub(r'(<table:table table:name="Sheet2">).*?(</table:table>)', r'<table:table table:name="Sheet2"/>', xml, count=1, flags=re.S)
        assert bare != xml
        storage.write_ods_raw(path, bare.encode("utf-8"))
        from cutplace import errors as _errors, rowio as _rowio

        for sheet_number, want in ((1, [["a"]]), (2, []), (3, [["z"]])):
            sheet_case = {"fault": None, "what": "sheet without any child element", "sheet": sheet_number}
            ctx.case(sheet_case, True)
            ctx.count("sheets-without-children.judged")
            try:
                got = list(_rowio.ods_rows(path, sheet_number))
            except Exception as error:
                ctx.violation("C15:sheet-without-children", sheet_case, "reading sheet %d of a document whose second sheet has no child element failed" % sheet_number, expected=want, observed=error)
                continue
            if got != want:
                ctx.violation("C15:sheet-without-children", sheet_case, "sheet %d of a document whose second sheet has no child element was read as another table" % sheet_number, expected=want, observed=got)
        # a broken count on the last row element, which holds only empty cells or no cell at all (where the filler rows of
        # spreadsheet applications sit): broken all the same
        for attr in ("0", "-1", "-0", " 0 ", "x", "1.5", ""):
            xml = storage.ods_content([[["a"], [""]]], ())
            k = xml.rindex("<table:table-row")
            close = xml.index(">", k)
            with_cells = xml[:close] + ' table:number-rows-repeated="%s"' % attr + xml[close:]
            end = xml.index("</table:table-row>", k) + len("</table:table-row>")
            without_cells = xml[:k] + '<table:table-row table:number-rows-repeated="%s"/>' % attr + xml[end:]
            for shape, text in (("empty-cells", with_cells), ("no-cells", without_cells)):
                storage.write_ods_raw(path, text.encode("utf-8"))
                expect_format_error(ctx, {"fault": "row-repeat-count-on-last-empty-row", "value": attr, "row": shape}, path, 1, "row-repeat-count-on-last-empty-row:%s" % kind_of(attr.strip() or ""))
    if os.path.exists(path):
        os.remove(path)


def run(ctx):
    ctx.floor("reads", 200)
    ctx.floor("faults", 30)
    n = ctx.pick(768, 25600)
    for i in range(n):
        if ctx.mine(i):
            check_table(ctx, i)
    for i in range(ctx.pick(6, 60)):
        if ctx.mine(i):
            check_faults(ctx, i)
    for i in range(ctx.pick(60, 2000)):
        if ctx.mine(i):
            check_rewrite(ctx, i)


def replay(ctx, case):
    from cutplace import rowio

    if "fault" in case:
        ctx.note("fault cases are regenerated by index; run the quick check to reproduce")
        for i in range(6):
            check_faults(ctx, i)
        return
    path = os.path.join(ctx.tmp, "r.ods")
    storage.write_ods(path, case["sheets"], tuple(case["features"]), case["encoding"])
    got = list(rowio.ods_rows(path, case["sheet"]))
    want = case["sheets"][case["sheet"] - 1]
    ctx.case(case, True)
    if got != want and not filler_zone(ctx, want, got, case["features"]):
        ctx.violation(classify(want, got, case["features"]), case, "rows read differ from the logical table of the sheet", expected=want, observed=got)
