"""C04 A row is accepted iff all cells and row checks pass; errors name the culprit."""
import os

from cpverif import gen
from cpverif.models import rowmodel as RM

LEVEL = "exploration"
RULE = (
    "tables of 0-8 rows over per-field pools of accepted and rejected cells (pools come from the C02 generators and "
    "are classified by M-field), ragged rows (too short, too long, empty) where the storage allows, CIDs of 1-5 fields "
    "of mixed types with none, one or two IsUnique checks (rows that repeat the key of one check only), header 0-2 (header rows hold junk), stored as delimited text "
    "(stream and file), fixed text (stream and file), generated ODS and generated XLSX; read with "
    "cutplace.rows(on_error='yield') and compared item by item with M-rows o M-raw: verdict per row, row number, first "
    "offending column, input name in the location, field name in the message. A case is (CID, table, storage), "
    "distinct by digest, non-trivial when it has at least one accepted and one rejected row."
)
ASSUMPTIONS = ["M-field / M-rows models; the column of count-mismatch and check errors is not judged (statement fixes it for cells only)"]


def gen_case(rng, store):
    kind = gen.KIND_OF_STORAGE[store]
    nfields = rng.randint(1, 5)
    dec, ths = rng.choice(c02_seps(kind))
    fields, pools = [], []
    for i in range(nfields):
        decl, accept, reject = gen.gen_field(rng, kind, "f%d" % i, dec, ths)
        fields.append(decl)
        pools.append((accept, reject))
    checks = []
    dice = rng.random()
    if dice < 0.4:
        k = rng.sample(range(nfields), rng.randint(1, min(2, nfields)))
        checks.append({"desc": "uniq", "type": "IsUnique", "fields": ["f%d" % i for i in sorted(k)]})
    elif dice < 0.6 and nfields >= 2:
        # two row checks over different keys: a row is judged by every check, in the order of declaration, and a
        # row that one of them rejects is no "earlier accepted row" for the other
        first, second = rng.sample(range(nfields), 2)
        checks.append({"desc": "uniq", "type": "IsUnique", "fields": ["f%d" % first]})
        checks.append({"desc": "uniq two", "type": "IsUnique", "fields": ["f%d" % second]})
    header = rng.choice([0, 0, 1, 2])
    model = RM.CidModel(kind, fields, checks, header, dec, ths, line_delimiter=rng.choice(["lf", "cr", "crlf", None, "any", "none"]) if kind == "fixed" else None)
    if kind == "delimited":
        # the default dialect, another quote character, or an escape character different from the quote character
        model.quote, model.escape = rng.choice([('"', '"'), ('"', '"'), ("'", '"'), ('"', "\\"), ("'", "\\")])
    nrows = rng.randint(0, 8)
    table = []
    widths = model.widths() if kind == "fixed" else None
    for r in range(header):
        if kind == "fixed":
            table.append([("#" * w) for w in widths])
        else:
            table.append(["junk %d" % r] * rng.randint(1, nfields + 1))
    for r in range(nrows):
        shape = rng.random()
        row = []
        bad_col = rng.randrange(nfields) if rng.random() < 0.35 else None
        for i, (accept, reject) in enumerate(pools):
            if i == bad_col and reject:
                blank = [c for c in reject if c.strip() == ""]
                row.append(rng.choice(blank) if blank and rng.random() < 0.3 else rng.choice(reject))
            elif bad_col is not None and i > bad_col and reject and rng.random() < 0.3:
                row.append(rng.choice(reject))  # a second offender further right must not be the one reported
            else:
                row.append(rng.choice(accept))
        if kind != "fixed":
            if shape < 0.08:
                row = row[:-1]
            elif shape < 0.16:
                row = row + ["extra"]
            elif shape < 0.19:
                row = []
        if checks and table[header:] and rng.random() < 0.3:
            row = list(rng.choice(table[header:]))  # provoke duplicates
        elif len(checks) == 2 and table[header:] and rng.random() < 0.5:
            # duplicate under one of the two checks only
            earlier = rng.choice(table[header:])
            keep = int(rng.choice(checks)["fields"][0][1:])
            if keep < len(earlier) and keep < len(row):
                row[keep] = earlier[keep]
        table.append(row)
    if kind == "excel":
        # xlsx cannot hold trailing empty rows/cells distinctly; keep the case but M-raw decides what is read
        pass
    return model, table


def c02_seps(kind):
    from cpverif.props import c02

    return c02.SEP_CONVENTIONS if kind in ("delimited", "fixed") else [(".", "")]


def check_case(ctx, model, table, store, second_pass=False):
    import cutplace
    from cutplace import errors

    case = {"cid": model.to_json(), "table": table, "storage": store}
    try:
        cid = gen.load_cid(model)
    except errors.InterfaceError as error:
        ctx.case(case, True)
        ctx.violation("C04:cid-refused", case, "generated valid CID refused", observed=error)
        return
    source, raw_rows, input_name = gen.make_source(ctx, model, table, store)
    expected = RM.expected_run(model, raw_rows)
    if expected is None:
        ctx.unjudged("table containing a cell the field model does not judge")
        return
    items = []
    crashed = None
    ctx.count("reads")
    second_pass = isinstance(source, str) and second_pass
    case["second_pass_of_one_reader"] = second_pass
    try:
        if second_pass:
            # the same Reader asked for its rows again: a pass of its own, judged like the first one
            reader = cutplace.Reader(cid, source, on_error="yield")
            for _ in reader.rows():
                pass
            produced = reader.rows()
            ctx.count("reads.second-pass")
        else:
            produced = cutplace.rows(cid, source, on_error="yield")
        for item in produced:
            if isinstance(item, Exception):
                items.append(("error", item, gen.snapshot(item)))
            else:
                items.append(("row", item))
    except errors.CheckError as error:
        crashed = None  # end-of-data checks are C05's business; no DistinctCount here
        ctx.count("end-check-raised")
    except Exception as error:
        crashed = error
    for item in items:
        # an error handed to the caller describes its row for good, also after the reader has moved on
        if item[0] == "error":
            ctx.count("errors.reinspected")
            now = gen.snapshot(item[1])
            if now != item[2]:
                ctx.case(case, True)
                ctx.violation("C04:error-changed-after-iteration", case, "a reported error no longer names its row / column after the reader moved on",
                              expected=item[2], observed=now)
                return
    n_acc = sum(1 for e in expected["items"] if e[0] == "row")
    n_rej = len(expected["items"]) - n_acc
    ctx.case(case, n_acc >= 1 and n_rej >= 1)
    if crashed is not None:
        from cpverif import core

        mod, fn = core.innermost_cutplace_frame(crashed)
        ctx.violation("C04:read-crash:%s@%s.%s" % (type(crashed).__name__, mod, fn), case, "reading a well-formed container failed", expected=describe(expected), observed=crashed)
        return
    if len(items) != len(expected["items"]):
        ctx.violation("C04:item-count", case, "number of rows+errors differs from the number of data rows",
                      expected=describe(expected), observed=gen.describe_items(items))
        return
    for got, want in zip(items, expected["items"]):
        ctx.count("rows.judged")
        if want[0] == "row":
            if got[0] != "row":
                ctx.violation("C04:conforming-row-rejected", case, "row that the model accepts was rejected", expected=want, observed=got[2])
                return
            if list(got[1]) != list(want[1]):
                ctx.violation("C04:row-changed", case, "accepted row returned with different items", expected=want[1], observed=got[1])
                return
            continue
        rowno, verdict = want[1], want[2]
        if got[0] == "row":
            ctx.violation("C04:offending-row-accepted:%s" % verdict[1], case, "row that must be rejected (%s) was accepted" % (verdict[1],), expected=list(verdict), observed=got[1])
            return
        snap = got[2]
        if not isinstance(got[1], errors.DataError):
            ctx.violation("C04:not-a-data-error", case, "rejection is not reported as a data error", observed=snap)
            return
        ctx.count("errors.judged")
        if snap.get("line") is None or snap["line"] + 1 != rowno:
            ctx.violation("C04:row-number", case, "rejection reported for the wrong row number", expected=rowno, observed=snap)
            return
        if input_name not in snap.get("loc_text", ""):
            ctx.violation("C04:input-name", case, "location does not name the input", expected=input_name, observed=snap)
            return
        if verdict[1] == "field":
            if snap.get("cell") is None or snap["cell"] + 1 != verdict[2] + 1:
                ctx.violation("C04:column", case, "rejection does not point at the first offending column", expected=verdict[2] + 1, observed=snap)
                return
            if verdict[3] not in snap["text"]:
                ctx.violation("C04:field-name", case, "message does not name the offending field", expected=verdict[3], observed=snap)
                return
            if verdict[3] not in str(snap.get("message")):
                # (the error's text and its documented message attribute: the same message)
                ctx.violation("C04:field-name:message-attribute", case, "the error's message attribute does not name the offending field", expected=verdict[3], observed=snap)
                return
            if "R%dC%d" % (rowno, verdict[2] + 1) not in snap["text"]:
                ctx.violation("C04:location-text", case, "error text does not show row and column", expected="R%dC%d" % (rowno, verdict[2] + 1), observed=snap)
                return
    if isinstance(source, str) and os.path.exists(source):
        os.remove(source)


def describe(expected):
    return [list(i) if i[0] == "row" else ["error", i[1], list(i[2])] for i in expected["items"]]


def run(ctx):
    n = ctx.pick(1500, 60000)
    ctx.floor("rows.judged", 500)
    ctx.floor("errors.judged", 100)
    for i in range(n):
        if not ctx.mine(i):
            continue
        rng = ctx.rng("case", i)
        store = gen.STORAGES[i % len(gen.STORAGES)]
        model, table = gen_case(rng, store)
        check_case(ctx, model, table, store, second_pass=(i // len(gen.STORAGES)) % 3 == 2)


def replay(ctx, case):
    model = RM.CidModel.from_json(case["cid"])
    check_case(ctx, model, case["table"], case["storage"], case.get("second_pass_of_one_reader", False))
