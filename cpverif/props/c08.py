"""C08 Validation outcomes do not depend on what the CID was used for before."""
import io
import itertools

from cpverif import gen, storage
from cpverif.models import rowmodel as RM

LEVEL = "exploration"
RULE = (
    "histories of operations on ONE cutplace.Cid object; operations (each over three small data sets that share key and "
    "value cells): read completely (yield mode + close; raise mode through cutplace.rows), read and abandon after k = 0, 1, "
    "2 items (generator and reader closed, or everything just dropped), read without closing, two complete runs of one Reader, a Reader created before the history begins and read at its turn, reader closed without "
    "iterating, validate with limit 0, validate, write rows without close, write and close, CutplaceApp.validate (the command line's per-file step) - 66 operations - on CIDs with "
    "IsUnique, DistinctCount, or both (delimited) a fixed CID without a declared line delimiter whose data sets end their lines with CR LF, and a CID whose checks were handed over through Cid.add_check(). Oracle: history + model where the model is the implementation with fresh state: the "
    "outcome of the last operation of every history (items, rejections with row numbers, end-of-data result, written text, "
    "counters) must equal the outcome of the same operation on a freshly loaded CID. Quick: all histories of length <= 2 "
    "plus random ones of length 3-4; thorough: all of length <= 3 plus random ones of length 5-8. Plus pairs of runs (reader / writer over the three "
    "data sets) that overlap in time on one CID - random interleavings of their steps (open, one row per step, close), lockstep (copying a reader's "
    "rows into a writer, two files side by side) and one run executed completely while the other is under way - each run compared with the same run alone on a fresh CID. A case is the operation "
    "history, distinct by digest; non-trivial with >= 2 operations."
)
ASSUMPTIONS = ["for two runs that overlap in time every step-wise interleaving is a 'sequence of reads and writes performed with one CID object'"]

DATASETS = {
    1: [["a", "1"], ["b", "2"]],
    2: [["a", "1"], ["a", "2"], ["c", "1"]],
    3: [["b", "3"], ["c", "3"], ["d", "3"]],
}
FIELDS = [{"name": "key", "type": "Text", "empty": False, "length": "", "rule": ""},
          {"name": "val", "type": "Text", "empty": False, "length": "", "rule": ""}]
FIXED_FIELDS = [dict(f, length="1") for f in FIELDS]
CIDS = {
    # fixed data without a declared line delimiter ("any"): the data sets are read with CR LF line ends and written
    # with the platform's line end - what a writer resolved for itself must not become part of the CID
    "fixed-unique": [{"desc": "u", "type": "IsUnique", "fields": ["key"]}],
    "api-both": [{"desc": "u", "type": "IsUnique", "fields": ["key"]}, {"desc": "d", "type": "DistinctCount", "field": "val", "op": ">=", "n": 2}],
    "unique": [{"desc": "u", "type": "IsUnique", "fields": ["key"]}],
    "distinct": [{"desc": "d", "type": "DistinctCount", "field": "val", "op": ">=", "n": 2}],
    "both": [{"desc": "u", "type": "IsUnique", "fields": ["key"]}, {"desc": "d", "type": "DistinctCount", "field": "val", "op": ">=", "n": 2}],
    "both-reversed": [{"desc": "d", "type": "DistinctCount", "field": "val", "op": "<=", "n": 2}, {"desc": "u", "type": "IsUnique", "fields": ["key"]}],
}


def operations():
    ops = []
    for d in (1, 2, 3):
        ops.append(("read", d))
        ops.append(("read-raise", d))
        for k in (0, 1, 2):
            ops.append(("abandon-closed", d, k))
            ops.append(("abandon-dropped", d, k))
        ops.append(("read-noclose", d))
        ops.append(("close-without-rows", d))
        ops.append(("validate-limit0", d))
        ops.append(("validate", d))
        ops.append(("write", d))
        ops.append(("write-close", d))
        ops.append(("app-validate", d))
        # an abandoned iteration whose generator stays referenced, and a read during which all such generators are dropped
        ops.append(("abandon-kept", d, 1))
        ops.append(("abandon-kept-rows", d, 1))
        ops.append(("read-dropping-kept", d))
        # one Reader used for two complete runs (read, close, rewind the stream, read, close)
        ops.append(("read-twice-one-reader", d))
        ops.append(("read-twice-limit0", d))
        # one Reader whose rows are asked for again and again without closing it in between (complete, complete,
        # abandoned after the first item, complete; then closed): every complete run starts at the first row
        ops.append(("read-again-without-close", d))
        # a Reader that exists since before the first operation of the history (readers = [Reader(cid, f) for f in
        # files], then one after the other): its run begins when its rows are asked for
        ops.append(("read-created-early", d))
    return ops


class NamedText(io.StringIO):
    """A text stream with a name, so that every data set has its own input name in locations."""

    def __init__(self, text, name):
        super().__init__(text, newline="")
        self.name = name


def source_for(d, text):
    return NamedText(text, "dataset%d.csv" % d)


def err(e):
    if e is None:
        return None
    line = e.location.line if getattr(e, "location", None) is not None else None
    see = getattr(e, "see_also_location", None)
    return [type(e).__name__, line, str(e.message) if hasattr(e, "message") else str(e), str(e.location) if e.location is not None else None,
            str(see) if see is not None else None]


KEPT = []  # generators of abandoned iterations that are still referenced (cleared at the start of every history)


def perform(cid, op, early=None):
    """Executes one operation with the real API; returns its JSON-able outcome."""
    import cutplace
    from cutplace import errors, validio

    kind, d = op[0], op[1]
    rows = DATASETS[d]
    text = text_for(cid, rows)
    out = {"op": list(op)}
    try:
        if kind in ("read", "read-noclose", "read-created-early"):
            reader = early if early is not None else validio.Reader(cid, source_for(d, text), on_error="yield")
            items = []
            for item in reader.rows():
                items.append(err(item) if isinstance(item, Exception) else item)
            out["items"] = items
            out["counters"] = [reader.accepted_rows_count, reader.rejected_rows_count]
            if kind != "read-noclose":
                try:
                    reader.close()
                    out["end"] = None
                except errors.CutplaceError as e:
                    out["end"] = err(e)
        elif kind == "read-raise":
            items = []
            try:
                for item in cutplace.rows(cid, source_for(d, text)):
                    items.append(item)
                out["end"] = None
            except errors.CutplaceError as e:
                out["end"] = err(e)
            out["items"] = items
        elif kind in ("abandon-closed", "abandon-dropped"):
            k = op[2]
            reader = validio.Reader(cid, source_for(d, text), on_error="yield")
            generator = reader.rows()
            items = []
            for _ in range(k):
                try:
                    item = next(generator)
                except StopIteration:
                    break
                items.append(err(item) if isinstance(item, Exception) else item)
            out["items"] = items
            if kind == "abandon-closed":
                generator.close()
                try:
                    reader.close()
                    out["end"] = None
                except errors.CutplaceError as e:
                    out["end"] = err(e)
            del generator
            del reader
        elif kind == "abandon-kept":
            reader = validio.Reader(cid, source_for(d, text), on_error="yield")
            generator = reader.rows()
            items = []
            for _ in range(op[2]):
                try:
                    item = next(generator)
                except StopIteration:
                    break
                items.append(err(item) if isinstance(item, Exception) else item)
            out["items"] = items
            KEPT.append((generator, reader))
        elif kind == "abandon-kept-rows":
            # the same through cutplace.rows(): finalising this generator later closes its reader (which asks the checks
            # for their end verdict and cleans them up) - whenever that happens
            generator = cutplace.rows(cid, source_for(d, text), on_error="yield")
            items = []
            for _ in range(op[2]):
                try:
                    item = next(generator)
                except StopIteration:
                    break
                items.append(err(item) if isinstance(item, Exception) else item)
            out["items"] = items
            KEPT.append((generator, None))
        elif kind == "read-dropping-kept":
            reader = validio.Reader(cid, source_for(d, text), on_error="yield")
            items = []
            for item in reader.rows():
                items.append(err(item) if isinstance(item, Exception) else item)
                del KEPT[:]  # abandoned iterations of earlier runs are finalised while this run is under way
            out["items"] = items
            out["counters"] = [reader.accepted_rows_count, reader.rejected_rows_count]
            try:
                reader.close()
                out["end"] = None
            except errors.CutplaceError as e:
                out["end"] = err(e)
        elif kind == "read-twice-one-reader":
            stream = source_for(d, text)
            reader = validio.Reader(cid, stream, on_error="yield")
            runs = []
            for _ in range(2):
                stream.seek(0)
                items = [err(item) if isinstance(item, Exception) else item for item in reader.rows()]
                try:
                    reader.close()
                    end = None
                except errors.CutplaceError as e:
                    end = err(e)
                runs.append({"items": items, "end": end, "counters": [reader.accepted_rows_count, reader.rejected_rows_count]})
            out["items"], out["end"], out["counters"] = runs[0]["items"], runs[0]["end"], runs[0]["counters"]
            out["second_run"] = runs[1]
        elif kind == "read-again-without-close":
            stream = source_for(d, text)
            reader = validio.Reader(cid, stream, on_error="yield")
            runs = []
            for complete in (True, True, False, True):
                stream.seek(0)
                items = []
                for item in reader.rows():
                    items.append(err(item) if isinstance(item, Exception) else item)
                    if not complete:
                        break
                if complete:
                    runs.append({"items": items, "end": None, "counters": [reader.accepted_rows_count, reader.rejected_rows_count]})
            try:
                reader.close()
                end = None
            except errors.CutplaceError as e:
                end = err(e)
            for run in runs:
                run["end"] = end
            out["items"], out["end"], out["counters"] = runs[0]["items"], runs[0]["end"], runs[0]["counters"]
            out["second_run"] = runs[1] if runs[1] != runs[0] else runs[2]
        elif kind == "read-twice-limit0":
            # one Reader under a validation limit of 0, read and closed twice: both runs validate no row, and both are
            # judged at their end like any run
            stream = source_for(d, text)
            reader = validio.Reader(cid, stream, on_error="yield", validate_until=0)
            runs = []
            for _ in range(2):
                stream.seek(0)
                items = [err(item) if isinstance(item, Exception) else item for item in reader.rows()]
                try:
                    reader.close()
                    end = None
                except errors.CutplaceError as e:
                    end = err(e)
                runs.append({"items": items, "end": end, "counters": [reader.accepted_rows_count, reader.rejected_rows_count]})
            out["items"], out["end"], out["counters"] = runs[0]["items"], runs[0]["end"], runs[0]["counters"]
            out["second_run"] = runs[1]
        elif kind == "close-without-rows":
            reader = validio.Reader(cid, source_for(d, text))
            try:
                reader.close()
                out["end"] = None
            except errors.CutplaceError as e:
                out["end"] = err(e)
        elif kind in ("validate-limit0", "validate"):
            try:
                cutplace.validate(cid, source_for(d, text), validate_until=0 if kind == "validate-limit0" else None)
                out["end"] = None
            except errors.CutplaceError as e:
                out["end"] = err(e)
        elif kind in ("write", "write-close"):
            target = io.StringIO(newline="")
            writer = validio.Writer(cid, target)
            results = []
            for row in rows:
                try:
                    writer.write_row(row)
                    results.append("written")
                except errors.CutplaceError as e:
                    results.append(err(e))
            out["rows"] = results
            out["text"] = target.getvalue()
            if kind == "write-close":
                try:
                    writer.close()
                    out["end"] = None
                except errors.CutplaceError as e:
                    out["end"] = err(e)
        elif kind == "app-validate":
            # the command line application validates every data path with the one CID it holds
            import os
            import tempfile

            from cutplace import applications

            handle, path = tempfile.mkstemp(suffix=".csv", prefix="cpverif_c08_")
            try:
                with os.fdopen(handle, "w", encoding="utf-8", newline="") as f:
                    f.write(text)
                app = applications.CutplaceApp()
                app.cid = cid
                app.validate(path)
                out["all_ok"] = app.all_validations_were_ok
            finally:
                os.remove(path)
        else:
            raise ValueError(kind)
    except Exception as error:  # internal failure: part of the outcome
        out["crash"] = [type(error).__name__, str(error)[:200]]
    return out


_fresh_cache = {}


def fresh_outcome(cid_kind, op):
    key = (cid_kind, op)
    if key not in _fresh_cache:
        saved = list(KEPT)
        del KEPT[:]
        _fresh_cache[key] = perform(new_cid(cid_kind), op)
        if op[0] in ("abandon-kept", "abandon-kept-rows"):
            KEPT.pop()  # the fresh reference run must not leave anything behind
        KEPT.extend(saved)
    return _fresh_cache[key]


def new_cid(cid_kind):
    if cid_kind.startswith("api-"):
        # the checks handed over as objects through Cid.add_check() (docs/api.rst) instead of being declared in C rows
        from cutplace import checks

        cid = gen.load_cid(RM.CidModel("delimited", FIELDS, []))
        for c in CIDS[cid_kind]:
            if c["type"] == "IsUnique":
                cid.add_check(checks.IsUniqueCheck(c["desc"], ", ".join(c["fields"]), cid.field_names))
            else:
                cid.add_check(checks.DistinctCountCheck(c["desc"], "%s %s %d" % (c["field"], c["op"], c["n"]), cid.field_names))
        return cid
    if cid_kind.startswith("fixed"):
        return gen.load_cid(RM.CidModel("fixed", FIXED_FIELDS, CIDS[cid_kind], line_delimiter=None))
    # (two of the delimited CIDs declare a line delimiter of their own: what a Writer emits on the second use of the CID
    # is what it emits on the first)
    return gen.load_cid(RM.CidModel("delimited", FIELDS, CIDS[cid_kind], line_delimiter={"both-reversed": "lf", "distinct": "cr"}.get(cid_kind)))


def text_for(cid, rows):
    if cid.data_format.format == "fixed":
        return storage.fixed_text(rows, [1, 1], delimiter="\r\n")
    return storage.delimited_text(rows)


def check_history(ctx, cid_kind, history, compare_all=False):
    case = {"cid": cid_kind, "history": [list(op) for op in history]}
    ctx.case(case, len(history) >= 2)
    cid = new_cid(cid_kind)
    del KEPT[:]
    from cutplace import validio

    early = {index: validio.Reader(cid, source_for(op[1], text_for(cid, DATASETS[op[1]])), on_error="yield")
             for index, op in enumerate(history) if op[0] == "read-created-early"}
    for index, op in enumerate(history):
        outcome = perform(cid, op, early.get(index))
        ctx.count("operations")
        if "second_run" in outcome:
            first_run = {k: outcome[k] for k in ("items", "end", "counters")}
            ctx.count("second-runs-of-one-reader")
            if outcome["second_run"] != first_run:
                ctx.violation("C08:second-run-of-one-reader", case, "the second complete run of one Reader over the same data has another outcome than its first run",
                              expected=first_run, observed=outcome["second_run"])
                return
        if compare_all or index == len(history) - 1:
            ctx.count("outcomes.compared")
            want = fresh_outcome(cid_kind, op)
            if outcome != want:
                prior = history[index - 1][0] if index else "nothing"
                key = "C08:%s-after-%s" % (family(op[0]), family(prior))
                diff = [k for k in sorted(set(outcome) | set(want)) if outcome.get(k) != want.get(k)]
                ctx.violation(key, case, "operation %d (%s) has another outcome than on a freshly loaded CID (differs in: %s)" % (index + 1, op[0], ", ".join(diff)),
                              expected=want, observed=outcome)
                return


# ---------------------------------------------------------------------------------- overlapping runs
class Run(object):
    """One run (reader in yield mode, or writer) that is advanced step by step: open, one row per step, close."""

    def __init__(self, kind, d):
        self.kind, self.d = kind, d
        self.items, self.end, self.opened, self.closed, self.exhausted = [], "not closed", False, False, False

    def steps(self):
        return 2 + len(DATASETS[self.d]) + (1 if self.kind == "reader" else 0)

    def step(self, cid):
        from cutplace import errors, validio

        rows = DATASETS[self.d]
        if not self.opened:
            self.opened = True
            if self.kind == "reader":
                self.validator = validio.Reader(cid, source_for(self.d, text_for(cid, rows)), on_error="yield")
                self.generator = self.validator.rows()
            else:
                self.target = io.StringIO(newline="")
                self.validator = validio.Writer(cid, self.target)
                self.position = 0
            return
        if self.kind == "reader" and not self.exhausted:
            try:
                item = next(self.generator)
                self.items.append(err(item) if isinstance(item, Exception) else item)
            except StopIteration:
                self.exhausted = True
            return
        if self.kind == "writer" and self.position < len(rows):
            try:
                self.validator.write_row(rows[self.position])
                self.items.append("written")
            except errors.CutplaceError as e:
                self.items.append(err(e))
            self.position += 1
            return
        if not self.closed:
            self.closed = True
            try:
                self.validator.close()
                self.end = None
            except errors.CutplaceError as e:
                self.end = err(e)

    def outcome(self):
        out = {"items": self.items, "end": self.end}
        if self.kind == "writer":
            out["text"] = self.target.getvalue()
        return out


def check_overlap(ctx, cid_kind, runs, schedule):
    """runs: [(kind, dataset)] * 2; schedule: sequence of 0/1 saying which run takes its next step."""
    case = {"cid": cid_kind, "runs": [list(r) for r in runs], "schedule": list(schedule)}
    ctx.case(case, True)
    want = []
    for kind, d in runs:
        alone = Run(kind, d)
        fresh = new_cid(cid_kind)
        for _ in range(alone.steps()):
            alone.step(fresh)
        want.append(alone.outcome())
    cid = new_cid(cid_kind)
    live = [Run(kind, d) for kind, d in runs]
    try:
        for who in schedule:
            live[who].step(cid)
    except Exception as error:
        ctx.violation("C08:overlap-crash:%s" % type(error).__name__, case, "interleaved runs on one CID failed with an internal error", observed=error)
        return
    ctx.count("overlapping-histories")
    got = [r.outcome() for r in live]
    overlapping = overlap_in_time(runs, schedule)
    ctx.count("overlapping-histories.%s" % ("runs-overlap" if overlapping else "one-run-after-the-other"))
    if got != want:
        key = "C08:overlapping-runs-share-check-state" if overlapping else "C08:run-after-run"
        ctx.violation(key, case, "a run %s another run on the same CID has another outcome than on a freshly loaded CID" % ("that overlaps in time with" if overlapping else "before or after"),
                      expected=want, observed=got)


def overlap_in_time(runs, schedule):
    """Two runs overlap when a step of one (creation, a row, close) falls between the beginning and the end of the
    other. A Reader's run begins when its first row is asked for - a Reader that merely exists does not run yet - a
    Writer's when it is created."""
    steps = [[i for i, who in enumerate(schedule) if who == me] for me in (0, 1)]
    for me, other in ((0, 1), (1, 0)):
        mine = steps[me]
        begin = mine[1] if runs[me][0] == "reader" and len(mine) > 1 else mine[0]
        if any(begin < step < mine[-1] for step in steps[other]):
            return True
    return False


def family(kind):
    if kind.startswith("write"):
        return "write"
    if kind in ("close-without-rows", "validate-limit0"):
        return "close-without-iteration"
    if kind in ("abandon-closed", "abandon-kept", "abandon-kept-rows"):
        return "abandoned-read"
    if kind == "nothing":
        return "nothing"
    if kind == "app-validate":
        return "app"
    return "read"


def run(ctx):
    ops = operations()
    ctx.floor("outcomes.compared", 1000)
    index = 0
    max_len = ctx.pick(2, 3)
    for cid_kind in CIDS:
        for length in range(1, max_len + 1):
            for history in itertools.product(ops, repeat=length):
                index += 1
                if ctx.mine(index):
                    check_history(ctx, cid_kind, history)
    ctx.exhaustive = True
    ctx.note("exhaustive part: all histories of length <= %d over 66 operations x 6 CIDs; longer histories are sampled" % max_len)
    n = ctx.pick(2500, 20000)
    lo, hi = ctx.pick((3, 4), (5, 8))
    for i in range(n):
        if not ctx.mine(i):
            continue
        rng = ctx.rng("hist", i)
        history = tuple(rng.choice(ops) for _ in range(rng.randint(lo, hi)))
        check_history(ctx, rng.choice(sorted(CIDS)), history, compare_all=True)
    for i in range(ctx.pick(600, 12000)):
        if ctx.mine(i):
            overlap_case(ctx, i)


def overlap_case(ctx, i):
    rng = ctx.rng("overlap", i)
    runs = [(rng.choice(["reader", "writer"]), rng.choice([1, 2, 3])) for _ in range(2)]
    counts = [Run(k, d).steps() for k, d in runs]
    schedule = [0] * counts[0] + [1] * counts[1]
    shape = rng.random()
    if shape < 0.5:
        rng.shuffle(schedule)  # any interleaving
    elif shape < 0.75:
        # lockstep, like copying the rows of a reader into a writer or comparing two files side by side
        schedule = [w for pair in itertools.zip_longest([0] * counts[0], [1] * counts[1]) for w in pair if w is not None]
    elif shape < 0.9:
        # B runs completely while A is under way (or before A is closed)
        cut = rng.randint(1, counts[0] - 1)
        schedule = [0] * cut + [1] * counts[1] + [0] * (counts[0] - cut)
    else:
        # both created up front, then one after the other (in either order)
        first = rng.choice([0, 1])
        schedule = [first, 1 - first] + [first] * (counts[first] - 1) + [1 - first] * (counts[1 - first] - 1)
    check_overlap(ctx, rng.choice(sorted(CIDS)), runs, schedule)


def replay(ctx, case):
    if "schedule" in case:
        check_overlap(ctx, case["cid"], [tuple(r) for r in case["runs"]], case["schedule"])
        return
    check_history(ctx, case["cid"], [tuple(op) for op in case["history"]], compare_all=True)
