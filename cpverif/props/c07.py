"""C07 Header rows are skipped; the validation limit bounds validation, not data."""
import io
import itertools
import os

from cpverif import attach, gen, storage
from cpverif.models import rowmodel as RM

LEVEL = "exploration"
RULE = (
    "enumerated: header 0-3 x number of rows 0-6 (header rows included) x one bad row (rejected cell, or wrong item count / an empty line "
    "for delimited data) at every position incl. inside the header, or no bad row, or (cutplace.rows in yield mode / Reader in continue mode with its counters) two rows with a rejected cell at every pair of positions x validation limit in {none, 0 .. "
    "rows+1} x API {cutplace.rows in yield mode, cutplace.validate, applications.main --until (in-process); sampled: two passes over one Reader, the CID named by a path whose file is rewritten for every case} x storage "
    "{delimited, fixed; thorough also ODS and XLSX}. Expected from M-reader with the (header, limit) window; for "
    "cutplace.validate a generator monitor on Reader.rows additionally counts the rows pulled (must not exceed the limit). "
    "A case is (header, limit, rows, bad position, bad kind, API, storage) - distinct by construction; non-trivial when "
    "the bad row is within 1 of the header or limit boundary."
)
ASSUMPTIONS = ["container faults after row N are not part of this check (C07 compares only intact files)"]


def build(kind, header, nrows, bad_at, bad_kind):
    if kind == "fixed":
        fields = [{"name": "num", "type": "Integer", "empty": False, "length": "3", "rule": ""},
                  {"name": "txt", "type": "Text", "empty": False, "length": "4", "rule": ""}]
    else:
        fields = [{"name": "num", "type": "Integer", "empty": False, "length": "", "rule": "0...999"},
                  {"name": "txt", "type": "Text", "empty": False, "length": "", "rule": ""}]
    model = RM.CidModel(kind, fields, [{"desc": "uniq", "type": "IsUnique", "fields": ["num"]}], header)
    table = []
    for r in range(1, nrows + 1):
        row = [str(100 + r), "r%d" % r]
        if r == bad_at or (isinstance(bad_at, (list, tuple)) and r in bad_at):
            if bad_kind == "cell":
                row = ["x%d" % r, "r%d" % r]
            elif bad_kind == "count":
                row = [str(100 + r)]
            elif bad_kind == "empty":
                row = []  # an empty line: a row like any other (skipped as header row, rejected as data row)
            elif bad_kind == "duplicate":
                row = [str(100 + r - 1), "r%d" % r]
        table.append(row)
    return model, table


def expected_rejection(model, table_raw, limit):
    run = RM.expected_run(model, table_raw, validate_until=limit)
    return run


def check(ctx, kind, store, header, nrows, bad_at, bad_kind, limit, api):
    import cutplace
    from cutplace import applications, errors, validio

    case = {"storage": store, "header": header, "rows": nrows, "bad_at": bad_at, "bad_kind": bad_kind, "limit": limit, "api": api}
    model, table = build(kind, header, nrows, bad_at, bad_kind)
    source, raw, name = gen.make_source(ctx, model, table, store)
    run = RM.expected_run(model, raw, validate_until=limit)
    near = bad_at is not None and any(abs(b - header) <= 1 or (limit is not None and abs(b - limit) <= 1) for b in (bad_at if isinstance(bad_at, (list, tuple)) else [bad_at]))
    ctx.case(case, near)
    ctx.count("api.%s" % api)
    first_error = next((e for e in run["items"] if e[0] == "error"), None)
    try:
        if api == "rows":
            cid = gen.load_cid(model)
            got = []
            for item in cutplace.rows(cid, source, on_error="yield", validate_until=limit):
                got.append(("error", item, gen.snapshot(item)) if isinstance(item, Exception) else ("row", item))
            want = run["items"]
            ok = len(got) == len(want) and all(g[0] == w[0] and (g[0] == "error" or list(g[1]) == list(w[1])) for g, w in zip(got, want))
            if ok:
                for g, w in zip(got, want):
                    if g[0] == "error" and g[2].get("line", -1) + 1 != w[1]:
                        ok = False
            if not ok:
                key = "C07:rows"
                if len(got) == len(want):
                    for g, w in zip(got, want):
                        if g[0] != w[0]:
                            key = "C07:rows:validated-beyond-limit-or-header" if g[0] == "error" else "C07:rows:rejection-missing"
                            break
                ctx.violation(key, case, "cutplace.rows produced other items than the (header, limit) window allows",
                              expected=[[w[0], w[1]] for w in want], observed=gen.describe_items(got))
        elif api == "rows-continue":
            # the same window in continue mode: exactly the rows of yield mode, and counters that add up to the data rows
            reader = validio.Reader(gen.load_cid(model), source, on_error="continue", validate_until=limit)
            try:
                got_rows = [list(item) for item in reader.rows()]
                counters = [reader.accepted_rows_count, reader.rejected_rows_count]
            finally:
                try:
                    reader.close()
                except errors.CheckError:
                    pass
            want_rows = [list(w[1]) for w in run["items"] if w[0] == "row"]
            want_counters = [len(want_rows), len(run["items"]) - len(want_rows)]
            if got_rows != want_rows or counters != want_counters:
                ctx.violation("C07:rows-continue", case, "continue mode produced other rows / counters than the (header, limit) window allows",
                              expected=[want_rows, want_counters], observed=[got_rows, counters])
        elif api in ("reader-twice", "rows-cid-path"):
            if api == "rows-cid-path":
                # the CID is named by its path; the file at that path is rewritten for every case
                cid_path = os.path.join(ctx.tmp, "cid_by_path.csv")
                with open(cid_path, "w", encoding="utf-8", newline="") as f:
                    f.write(storage.delimited_text(model.cid_rows()))
                passes = [list(cutplace.rows(cid_path, source, on_error="yield", validate_until=limit))]
            else:
                # one Reader, two complete passes over the same file
                reader = validio.Reader(gen.load_cid(model), source, on_error="yield", validate_until=limit)
                passes = [list(reader.rows()), list(reader.rows())]
                reader.close()
            want = run["items"]
            for number, items in enumerate(passes, 1):
                got = [("error", i, gen.snapshot(i)) if isinstance(i, Exception) else ("row", i) for i in items]
                ok = len(got) == len(want) and all(g[0] == w[0] and (g[0] == "error" or list(g[1]) == list(w[1])) for g, w in zip(got, want))
                if not ok:
                    ctx.violation("C07:%s:pass-%d" % (api, number), case, "pass %d produced other items than the (header, limit) window allows" % number,
                                  expected=[[w[0], w[1]] for w in want], observed=gen.describe_items(got))
                    break
        elif api == "validate":
            cid = gen.load_cid(model)
            log = []
            original = validio.Reader.rows

            def monitored(self):
                return attach.record_generator(log, "Reader.rows", original(self))

            validio.Reader.rows = monitored
            try:
                raised = None
                try:
                    cutplace.validate(cid, source, validate_until=limit)
                except errors.DataError as error:
                    raised = error
            finally:
                validio.Reader.rows = original
            yields = sum(1 for e in log if e[1] == "yield")
            ctx.count("validate.rows-pulled", yields)
            if limit is not None and yields > limit:
                ctx.violation("C07:validate:pulled-more-than-limit", case, "validate() pulled more rows out of Reader.rows than the limit", expected=limit, observed=yields)
            if limit is not None and raised is None and yields != min(limit, max(0, len(raw) - model.header)):
                # "stops after N data rows": not earlier either (what lies before that point is read, and a container
                # that is malformed there is noticed)
                ctx.violation("C07:validate:stopped-before-the-limit", case, "validate() pulled fewer data rows out of Reader.rows than the limit and the data allow",
                              expected=min(limit, max(0, len(raw) - model.header)), observed=yields)
            # validate() reads at most `limit` *data* rows: an offending row beyond them is never reached
            reachable = first_error is not None and (limit is None or (first_error[1] - model.header) <= limit)
            if reachable and raised is None:
                ctx.violation("C07:validate:rejection-missing", case, "validate() did not report the offending row inside the limit", expected=list(first_error[2]), observed="no error")
            elif not reachable and raised is not None:
                ctx.violation("C07:validate:validated-beyond-limit-or-header", case, "validate() reported a rejection outside the (header, limit) window", expected="no error", observed=raised)
            elif raised is not None and raised.location is not None and raised.location.line + 1 != first_error[1]:
                ctx.violation("C07:validate:row-number", case, "rejection reported for another row", expected=first_error[1], observed=gen.snapshot(raised))
        else:
            cid_path = os.path.join(ctx.tmp, "cid_c07.csv")
            with open(cid_path, "w", encoding="utf-8", newline="") as f:
                f.write(storage.delimited_text(model.cid_rows()))
            argv = ["cutplace", "--log", "critical"]
            if limit is not None:
                argv += ["--until", str(limit)]
            elif api == "main-minus-one":
                argv += ["--until", "-1"]
            argv += [cid_path, source]
            try:
                if (header + nrows + (limit or 0)) % 3 == 0:
                    # one application object used for a second command line: set_options() resets the options (the
                    # first command line had another limit)
                    app = applications.CutplaceApp()
                    app.set_options(["cutplace", "--log", "critical", "--until", "0", cid_path])
                    app.set_options(argv)
                    for data_path in app.data_paths:
                        app.validate(data_path)
                    code = 0 if app.all_validations_were_ok else 1
                    ctx.count("api.main.application-object-reused")
                else:
                    code = applications.main(argv)
            except SystemExit as exit_:
                code = "SystemExit(%s)" % exit_.code
            want = 1 if first_error is not None else 0
            if code != want:
                ctx.violation("C07:main:exit-code", case, "--until behaves differently from the API's validation limit", expected=want, observed=code)
    except Exception as error:
        from cpverif import core

        mod, fn = core.innermost_cutplace_frame(error)
        ctx.violation("C07:crash:%s@%s.%s" % (type(error).__name__, mod, fn), case, "internal error", observed=error)
    finally:
        if isinstance(source, str) and os.path.exists(source):
            os.remove(source)


def run(ctx):
    ctx.floor("api.rows", 300)
    ctx.floor("api.validate", 300)
    ctx.floor("api.main", 100)
    stores = ["delimited-stream", "fixed-stream"] + (["ods", "xlsx"] if ctx.tier == "thorough" else [])
    index = 0
    for store in stores:
        kind = gen.KIND_OF_STORAGE[store]
        for header in range(0, 4):
            for nrows in range(0, 7):
                bad_positions = [None] + list(range(1, nrows + 1))
                for bad_at in bad_positions:
                    kinds = ["cell"] if bad_at is None else (["cell", "count", "duplicate", "empty"] if kind == "delimited" else
                                                             # (a row without content between other rows of a sheet is a row like any other)
                                                             ["cell", "duplicate", "empty"] if kind == "excel" and bad_at < nrows else ["cell", "duplicate"])
                    for bad_kind in kinds:
                        if bad_kind == "duplicate" and (bad_at is None or bad_at - 1 <= header):
                            continue
                        for limit in [None] + list(range(0, nrows + 2)):
                            for api in ("rows", "validate", "main"):
                                index += 1
                                if not ctx.mine(index):
                                    continue
                                if api == "main":
                                    if store.endswith("stream"):
                                        file_store = store.replace("stream", "file")
                                    else:
                                        file_store = store
                                    if index % (3 if ctx.quick else 1) != 0:
                                        continue
                                    check(ctx, kind, file_store, header, nrows, bad_at, bad_kind, limit, "main" if limit is not None or index % 2 else "main-minus-one")
                                else:
                                    check(ctx, kind, store, header, nrows, bad_at, bad_kind, limit, api)
                                    if api == "rows" and index % 5 == 0:
                                        file_store = store.replace("stream", "file")
                                        check(ctx, kind, file_store, header, nrows, bad_at, bad_kind, limit, "reader-twice" if index % 10 == 0 else "rows-cid-path")
    # two bad rows: every row is judged by its own number, however many rows before it were rejected
    for store in ("delimited-stream", "fixed-stream"):
        kind = gen.KIND_OF_STORAGE[store]
        for header in range(0, 3):
            for nrows in range(2, 7):
                for first_bad, second_bad in itertools.combinations(range(1, nrows + 1), 2):
                    for limit in [None] + list(range(0, nrows + 2)):
                        index += 1
                        if ctx.mine(index):
                            check(ctx, kind, store, header, nrows, [first_bad, second_bad], "cell", limit, "rows" if index % 2 else "rows-continue")
                            ctx.count("cases.with-two-bad-rows")
    # a sample of ODS / XLSX in the quick tier too
    if ctx.quick:
        for store in ("ods", "xlsx"):
            for header, nrows, bad_at, limit in ((1, 4, 2, 2), (1, 4, 3, 2), (2, 5, 2, None), (0, 3, 3, 3), (0, 3, 3, 2), (2, 4, 3, 0)):
                index += 1
                if ctx.mine(index):
                    for api in ("rows", "validate", "main"):
                        check(ctx, gen.KIND_OF_STORAGE[store], store, header, nrows, bad_at, "cell", limit, api)
        # rows without content in a sheet: among the header rows, and as the one bad data row
        for header, nrows, bad_at, limit in ((3, 5, 2, None), (3, 5, 2, 4), (1, 4, 3, None), (1, 4, 3, 3), (0, 3, 2, 1)):
            index += 1
            if ctx.mine(index):
                for api in ("rows", "validate", "main"):
                    check(ctx, "excel", "xlsx", header, nrows, bad_at, "empty", limit, api)
                    ctx.count("cases.with-a-row-without-content-in-a-sheet")
    ctx.exhaustive = True


def replay(ctx, case):
    check(ctx, gen.KIND_OF_STORAGE[case["storage"]], case["storage"], case["header"], case["rows"], case["bad_at"], case["bad_kind"], case["limit"], case["api"])
