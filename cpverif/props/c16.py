"""C16 Excel cells render as documented text and the requested sheet is read."""
import datetime
import os
import re

from cpverif import storage

LEVEL = "exploration"
RULE = (
    "workbooks generated with xlsxwriter driven directly (cutplace reads with xlrd): 1-3 sheets with different contents, "
    "cells of every kind - strings (incl. empty, numeric-looking, leading '=' and blanks, non-ASCII), whole numbers at 0, "
    "+-1, +-2^k, +-(2^k +- 1) up to 2^53, finite floats over 1e-300..1e300 and shortest-repr stress values, booleans, dates "
    "sampled over 1900-03-01..9999-12-31 incl. month ends and 29 Feb, times over every hh:mm boundary and sampled seconds; "
    "ragged rows (padding); each sheet requested through rowio.excel_rows(path, sheet) and through cutplace.rows with a "
    "CID Sheet property; string tables (also texts that look like the workbook's own XML: rich-text runs, _xHHHH_ escapes, entities, CDATA) written with rowio.XlsxRowWriter and read back, a tenth of them at the limits of the format (32767 / 32768 characters in a cell, 16384 / 16385 cells in a row). Expected text computed from the "
    "values handed to the producer (numbers via float('%.16G' % v), the precision xlsx stores). A case is (workbook "
    "cells, sheet request), distinct by digest; non-trivial with a non-string cell or a sheet other than the first."
)
ASSUMPTIONS = ["whole numbers >= 1e16 (exponent form) and dates before 1900-03-01 are unjudged", "xlsxwriter stores numbers with %.16G"]

# texts that look like what the workbook's XML uses itself (rich-text runs, character escapes, entities, CDATA): to the
# row writer they are texts like any other (only used where cutplace is the producer)
MARKUP_LOOK_ALIKES = ["<r>abc</r>", "<r><t>hello</t></r>", "<r> x </r>", "<t>x</t>", "_x0041_", "_x000D_", "a_x005F_b", "&lt;", "&#10;", "]]>", "<![CDATA[x]]>", "<r>", "</r>",
                      "a\x01b", "<r>_x0041_</r>", "<r>a\x01b</r>", "<r>first line\nsecond line</r>", "<r>\n</r>"]
ESCAPE_IN_RICH_TEXT_LOOK_ALIKE = re.compile(r"^<r>.*(_x[0-9A-Fa-f]{4}_|[\x00-\x08\x0b-\x1f\ufffe\uffff]).*</r>$", re.S)
STRINGS = ["", "a", "Hello World", "  padded  ", "=1+2", "12", "1.0", "1.50", "TRUE", "äöü €", "日本語", "line\nbreak", "a\tb", "'quoted'", "<&>", "0", "-", "1e5", "2020-01-02"]


def expected_text(cell):
    """-> text or None (unjudged)"""
    if isinstance(cell, str):
        return cell
    kind, value = cell
    if kind == "string":
        return value
    if kind == "number":
        stored = float("%.16G" % value)
        if stored == int(stored) and abs(stored) < 1e16:
            return str(int(stored)) if stored != 0 or str(stored)[0] != "-" else None
        if abs(stored) >= 1e16 and stored == int(stored):
            return None
        return repr(stored)
    if kind == "bool":
        return "1" if value else "0"
    if kind == "datetime":
        if value < datetime.datetime(1900, 3, 1):
            return None
        return value.strftime("%Y-%m-%d %H:%M:%S") if value.year >= 1000 else "%04d-%02d-%02d %02d:%02d:%02d" % (value.year, value.month, value.day, value.hour, value.minute, value.second)
    if kind == "time":
        return "%02d:%02d:%02d" % (value.hour, value.minute, value.second)
    raise ValueError(kind)


def gen_cell(rng):
    roll = rng.random()
    if roll < 0.25:
        return ("string", rng.choice(STRINGS))
    if roll < 0.33:
        # the numbers that are equal to booleans and to each other in Python (1 == 1.0 == True, 0 == -0.0 == False)
        return ("number", rng.choice([0.0, 1.0, -0.0, -1.0, 2.0, 10.0, 100.0]))
    if roll < 0.45:
        k = rng.randint(0, 53)
        base = 2**k + rng.choice([-1, 0, 1]) if rng.random() < 0.7 else rng.randint(0, 10**rng.randint(1, 15))
        return ("number", float(rng.choice([-1, 1]) * base))
    if roll < 0.65:
        form = rng.random()
        if form < 0.3:
            v = rng.choice([0.1, 0.2, 0.3, 1.5, 2.675, 1 / 3, 1e-5, 123456.789, 0.1 + 0.2, 1e21 + 0.0, 1.7976931348623157e300, 5e-300, 100.25, 1234567.125])
        elif form < 0.7:
            v = rng.uniform(-1e6, 1e6)
        else:
            v = rng.uniform(1, 10) * 10 ** rng.randint(-300, 300)
        return ("number", v * rng.choice([1, -1]))
    if roll < 0.76:
        return ("bool", rng.random() < 0.5)
    if roll < 0.9:
        form = rng.random()
        if form < 0.3:
            year = rng.choice([1900, 1904, 2000, 2024, 2100, 9999, 1999])
            month = rng.randint(1, 12)
            if year == 1900 and month < 3:
                month = 3
            last = (datetime.date(year + (month == 12), month % 12 + 1, 1) - datetime.timedelta(days=1)).day if not (year == 9999 and month == 12) else 31
            day = rng.choice([1, last])
        else:
            d = datetime.date(1900, 3, 1) + datetime.timedelta(days=rng.randint(0, (datetime.date(9999, 12, 31) - datetime.date(1900, 3, 1)).days))
            year, month, day = d.year, d.month, d.day
        if rng.random() < 0.2 and year % 4 == 0 and (year % 100 != 0 or year % 400 == 0):
            month, day = 2, 29
        hms = rng.choice([(0, 0, 0), (23, 59, 59), (12, 0, 0), (rng.randint(0, 23), rng.randint(0, 59), rng.randint(0, 59))])
        # some with a fraction of a second below one half (what NOW() or date arithmetic leave in a cell): the
        # documented rendering has whole seconds
        fraction = rng.choice([120000, 250000, 333000]) if rng.random() < 0.15 else 0
        return ("datetime", datetime.datetime(year, month, day, *hms, fraction))
    hms = rng.choice([(0, 0, 1), (23, 59, 59), (rng.randint(0, 23), rng.choice([0, 59, 30]), rng.choice([0, 59])), (rng.randint(0, 23), rng.randint(0, 59), rng.randint(0, 59))])
    return ("time", datetime.time(*hms))


def gen_sheet(rng, sheet_no):
    nrows = rng.randint(1, 5)
    table = []
    for r in range(nrows):
        ncols = rng.randint(1, 5)
        table.append([("string", "s%d" % sheet_no)] + [gen_cell(rng) for _ in range(ncols)])
    return table


def expected_rows(table):
    """Rows of texts, padded to the sheet's width (bounding box of stored cells); None where a cell is unjudged."""
    texts = [[expected_text(c) for c in row] for row in table]
    stored = [[(t is None or t != "") if not (isinstance(c, tuple) and c[0] == "string" and c[1] == "") else False for c, t in zip(row, trow)] for row, trow in zip(table, texts)]
    nrows = max([y + 1 for y, row in enumerate(stored) if any(row)] + [0])
    ncols = max([x + 1 for row in stored for x, s in enumerate(row) if s] + [0])
    out = []
    for y in range(nrows):
        out.append([(texts[y][x] if x < len(texts[y]) else "") for x in range(ncols)])
    return out


def compare(ctx, case, want, got, key_prefix, table=None):
    if len(got) != len(want) or any(len(g) != len(w) for g, w in zip(got, want)):
        other = case.get("other_sheets_expected")
        if other and got in other:
            ctx.violation(key_prefix + ":wrong-sheet", case, "rows of another sheet than the requested one were returned", expected=want, observed=got)
        else:
            ctx.violation(key_prefix + ":shape", case, "number of rows or row width differs (rows must be padded to the sheet's width)", expected=want, observed=got)
        return
    for y, (g, w) in enumerate(zip(got, want)):
        for x, (a, b) in enumerate(zip(g, w)):
            if b is None:
                ctx.unjudged("whole number >= 1e16 or date before 1900-03-01")
                continue
            ctx.count("cells.judged")
            if a != b and table is not None and x < len(table[y]) and isinstance(table[y][x], tuple) and table[y][x][0] == "number" and same_number(a, b):
                ctx.count("cells.number-equally-short-spelling")
                continue
            if a != b:
                kind = "padding"
                if table is not None and x < len(table[y]):
                    kind = table[y][x][0] if isinstance(table[y][x], tuple) else "string"
                other = case.get("other_sheets_expected")
                if other and got in other:
                    ctx.violation(key_prefix + ":wrong-sheet", case, "rows of another sheet than the requested one were returned", expected=want, observed=got)
                else:
                    ctx.violation("%s:render:%s" % (key_prefix, kind), dict(case, at=[y, x]), "cell rendered differently from the documented text", expected=b, observed=a)
                return


def same_number(observed, expected):
    """'shortest text denoting the same value' does not fix a spelling among equally short ones (1e+22 vs 1E22): accept
    any text that denotes exactly the expected value and is not longer than Python's shortest repr."""
    try:
        if float(observed) != float(expected) or len(observed) > len(expected):
            return False
    except (TypeError, ValueError):
        return False
    # whole numbers must not carry a fractional suffix
    if float(expected) == int(float(expected)) and abs(float(expected)) < 1e16:
        return "." not in observed and "e" not in observed.lower()
    return True


def jsonable_table(table):
    return [[[c[0], c[1] if isinstance(c[1], (str, bool, float, int)) else c[1].isoformat()] for c in row] for row in table]


def check_workbook(ctx, index):
    import cutplace
    from cutplace import errors, interface, rowio

    rng = ctx.rng("book", index)
    nsheets = rng.choice([1, 2, 3])
    sheets = [gen_sheet(rng, s + 1) for s in range(nsheets)]
    path = os.path.join(ctx.tmp, "w.xlsx")
    # some of the sheets hidden from the application's tabs: the Sheet property counts the sheets of the workbook
    hidden = tuple(sorted(rng.sample(range(nsheets), rng.randint(1, nsheets - 1)))) if nsheets >= 2 and rng.random() < 0.3 else ()
    if hidden:
        ctx.count("workbooks.with-hidden-sheets")
    storage.write_xlsx(path, sheets, typed=True, hidden=hidden)
    wants = [expected_rows(t) for t in sheets]
    for k in range(1, nsheets + 1):
        want = wants[k - 1]
        case = {"sheets": [jsonable_table(t) for t in sheets], "sheet": k, "via": "excel_rows", "hidden_sheets": [h + 1 for h in hidden],
                "other_sheets_expected": [w for i, w in enumerate(wants) if i != k - 1 and None not in [c for r in w for c in r]]}
        nontrivial = k > 1 or any(c[0] != "string" for row in sheets[k - 1] for c in row)
        ctx.case({"sheets": case["sheets"], "sheet": k, "via": "excel_rows"}, nontrivial)
        ctx.count("reads.excel_rows")
        try:
            got = list(rowio.excel_rows(path, k))
        except Exception as error:
            ctx.violation("C16:read-failed:%s" % type(error).__name__, case, "a well-formed workbook could not be read", observed=error)
            continue
        compare(ctx, case, want, got, "C16", sheets[k - 1])
    # through a CID with a Sheet property
    k = rng.randint(1, nsheets)
    want = wants[k - 1]
    width = len(want[0]) if want else 0
    if width:
        rows = [["D", "Format", "Excel"]] + ([["D", "Sheet", str(k)]] if (k > 1 or rng.random() < 0.5) else []) + [["F", "c%d" % i, "", "X", "", "Text", ""] for i in range(width)]
        cid = interface.Cid()
        cid.read("<c16>", rows)
        case = {"sheets": [jsonable_table(t) for t in sheets], "sheet": k, "via": "cutplace.rows",
                "other_sheets_expected": [w for i, w in enumerate(wants) if i != k - 1 and None not in [c for r in w for c in r]]}
        ctx.case({"sheets": case["sheets"], "sheet": k, "via": "cutplace.rows"}, True)
        ctx.count("reads.via-cid")
        try:
            got = [r if isinstance(r, list) else str(r) for r in cutplace.rows(cid, path, on_error="yield")]
        except Exception as error:
            ctx.violation("C16:cid-read-failed:%s" % type(error).__name__, case, "reading through an Excel CID failed", observed=error)
            got = None
        if got is not None:
            if any(isinstance(r, str) for r in got):
                other = case["other_sheets_expected"]
                ctx.violation("C16:via-cid:wrong-sheet-or-rejection", case, "reading the requested sheet through the CID rejected rows", expected=want, observed=got)
            else:
                compare(ctx, case, want, got, "C16:via-cid", sheets[k - 1])
    os.remove(path)


def padded(table):
    """XlsxRowWriter hands every cell - also empty strings - to the workbook, so the sheet's extent is the table's."""
    width = max(len(r) for r in table)
    return [list(r) + [""] * (width - len(r)) for r in table]


def check_writer_roundtrip(ctx, index):
    from cutplace import errors, rowio

    rng = ctx.rng("writer", index)
    table = []
    for _ in range(rng.randint(1, 6)):
        table.append([rng.choice(STRINGS + ["x", "y z"] + MARKUP_LOOK_ALIKES) for _ in range(rng.randint(1, 6))])
    if len(table) >= 2 and rng.random() < 0.25:
        # a row without items somewhere before the last row (a row of the table like any other: it reads back as a row of
        # empty cells; at the end it could not be told from the end of the sheet)
        table.insert(rng.randint(0, len(table) - 1), [])
    path = os.path.join(ctx.tmp, "rt.xlsx")
    case = {"table": table, "via": "XlsxRowWriter"}
    limit_case = None
    if index % 10 == 3:
        # at the limits of the workbook format: what cannot be stored must be refused by the writer, not cut off
        # (the five kinds in turn, so that also a short run sees each of them)
        limit_case = ["cell-32767", "cell-32768", "row-16384", "row-16385", "surrogate"][(index // 10) % 5]
        position = rng.randrange(len(table))
        if len(table[position]) < 2:
            table[position].append("x")
        # (the offending cell is the last one of its row: cells before it must not stay behind when the row is refused)
        if limit_case == "surrogate":
            # a string the workbook (UTF-8 encoded XML) cannot hold
            table[position][-1] = "a\udcffb"
        elif limit_case.startswith("cell"):
            # (characters, not bytes: every second time the cell is made of letters that take several bytes in UTF-8)
            table[position][-1] = ("x" if (index // 50) % 2 == 0 else "ä€"[index % 2]) * int(limit_case[5:])
        else:
            table[position] = ["c"] * int(limit_case[4:])
        if position == len(table) - 1:
            table.append(["after", "the", "limit"])  # what is written after a refused row has to end up where it belongs
        if position == 0:
            table.insert(0, ["before", "the", "limit"])  # ... and something has to be accepted at all for a read-back
        case = {"table": "regenerated from the seed", "via": "XlsxRowWriter", "limit": limit_case, "index": index}
        ctx.count("writer.roundtrips-at-format-limits")
    ctx.case(case, True)
    ctx.count("writer.roundtrips")
    try:
        writer = rowio.XlsxRowWriter(path)
        accepted = []
        try:
            if limit_case is None and index % 2 == 0:
                # the whole table at once
                writer.write_rows(table)
                accepted = list(table)
                ctx.count("writer.roundtrips-through-write_rows")
            for row in (table if not accepted else []):
                try:
                    writer.write_row(row)
                    accepted.append(row)
                except errors.DataError:
                    # refused: nothing of this row may show up, and the rows after it are written as usual
                    if limit_case not in ("cell-32768", "row-16385", "surrogate"):
                        raise
                    ctx.count("writer.refused-beyond-format-limits")
        finally:
            writer.close()
        table = accepted
        if not table:
            return
        got = list(rowio.excel_rows(path, 1))
    except Exception as error:
        ctx.violation("C16:writer-roundtrip-failed:%s" % type(error).__name__, case, "writing with XlsxRowWriter and reading back failed", observed=error)
        return
    finally:
        if os.path.exists(path):
            os.remove(path)
    want = padded(table)
    shape_ok = len(got) == len(want) and all(len(g) == len(w) for g, w in zip(got, want))
    if got != want and shape_ok and all(g == w or ESCAPE_IN_RICH_TEXT_LOOK_ALIKE.match(w) for gr, wr in zip(got, want) for g, w in zip(gr, wr)):
        # the only cells that differ look like a rich-text run and hold a control character or an _xHHHH_ sequence
        ctx.violation("C16:writer-roundtrip-differs:escape-inside-text-that-looks-like-a-rich-text-run", case,
                      "a text of the form <r>...</r> that holds a control character or a literal _xHHHH_ sequence does not read back identically", expected=want, observed=got)
    elif got != want and shape_ok and all(g == w or (w.startswith("<r>") and w.endswith("</r>")) for gr, wr in zip(got, want) for g, w in zip(gr, wr)):
        # the only cells that differ are texts that look like the XML of a rich-text run
        ctx.violation("C16:writer-roundtrip-differs:text-that-looks-like-a-rich-text-run", case, "a text of the form <r>...</r> written with XlsxRowWriter does not read back identically", expected=want, observed=got)
    elif got != want and limit_case:
        ctx.violation("C16:writer-truncates-at-format-limit", case, "XlsxRowWriter silently cut off what the workbook format cannot hold",
                      expected="identical table or a data error from the writer", observed={"rows": len(got), "width": len(got[0]) if got else 0, "first-cell-length": len(got[0][0]) if got and got[0] else 0})
    elif got != want:
        ctx.violation("C16:writer-roundtrip-differs", case, "table written with XlsxRowWriter does not read back identically (modulo padding)", expected=want, observed=got)


def run(ctx):
    ctx.floor("cells.judged", 500)
    n = ctx.pick(300, 12000)
    for i in range(n):
        if ctx.mine(i):
            check_workbook(ctx, i)
    for i in range(ctx.pick(60, 2000)):
        if ctx.mine(i):
            check_writer_roundtrip(ctx, i)


def replay(ctx, case):
    ctx.note("workbooks are regenerated from the seed; rerun the quick check (VERIF_SEED) to reproduce")
    if "limit" in case:
        check_writer_roundtrip(ctx, case["index"])
        return
    if "table" in case:
        from cutplace import rowio

        path = os.path.join(ctx.tmp, "rt.xlsx")
        writer = rowio.XlsxRowWriter(path)
        writer.write_rows(case["table"])
        writer.close()
        got = list(rowio.excel_rows(path, 1))
        want = padded(case["table"])
        ctx.case(case, True)
        if got != want:
            ctx.violation("C16:writer-roundtrip-differs", case, "table written with XlsxRowWriter does not read back identically", expected=want, observed=got)
        return
    sheets = []
    for t in case["sheets"]:
        table = []
        for row in t:
            r = []
            for kind, value in row:
                if kind == "datetime":
                    value = datetime.datetime.fromisoformat(value)
                elif kind == "time":
                    value = datetime.time.fromisoformat(value)
                r.append((kind, value))
            table.append(r)
        sheets.append(table)
    from cutplace import rowio

    path = os.path.join(ctx.tmp, "w.xlsx")
    storage.write_xlsx(path, sheets, typed=True, hidden=tuple(h - 1 for h in case.get("hidden_sheets", ())))
    k = case["sheet"]
    want = expected_rows(sheets[k - 1])
    ctx.case(case, True)
    got = list(rowio.excel_rows(path, k))
    compare(ctx, case, want, got, "C16", sheets[k - 1])
