"""C02 Each field type accepts exactly the values its rule describes.

Workload only; the oracle is monitors.fieldmon.FieldMonitor (M-field) judging every validated() call."""
import csv
import io
import itertools
from decimal import Decimal

from cpverif.models import fieldmodel as F
from cpverif.monitors.fieldmon import FieldMonitor
from cpverif.props import c01

LEVEL = "exploration"
RULE = (
    "field declarations drawn from per-type rule grammars (Integer: rule ranges / length only / neither / both; Decimal: "
    "ranges with 0-4 fraction digits under the four separator conventions, fixed cells also with a tab / no-break space / ideographic space / unit separator at an edge (every third such field has judged a cell before its data format got the separators); Choice/Constant: quoted and bare items; "
    "DateTime: random orderings of DD MM YYYY YY hh mm ss with separators; Pattern: globs with * ? [..] [!..]; RegEx: a "
    "generated subset; Text) x data formats delimited/fixed/excel/ods x cells rendered from the rule (every range "
    "boundary, every choice, valid dates incl. 29 Feb) and single mutations of accepted cells (+-1 beyond a limit, "
    "case flip, one character deleted/inserted/replaced, month 13, 30 Feb, hour 24, doubled or misplaced separators); "
    "a fifth of the declarations also driven end-to-end through Cid.read + cutplace.rows; thorough adds the exhaustive "
    "sweep of all integers of up to 6 characters for every length declaration 0..5. A case is (declaration, format, "
    "cell), distinct by digest; non-trivial when the cell is a boundary rendering or a mutation of an accepted cell "
    "(flag set by the generator, random filler cells are trivial)."
)
ASSUMPTIONS = [
    "M-field (cpverif/models/fieldmodel.py): judged domains are canonical integer/decimal spellings, zero-padded dates, "
    "ASCII glob/regex subsets; everything else is counted as unjudged",
    "Python's int(), decimal.Decimal and datetime.date decide what a text denotes",
]

FORMATS = ["delimited", "fixed", "excel", "ods"]
SEP_CONVENTIONS = [(".", ""), (".", ","), (",", "."), (",", "")]


LATE_NOTE = "the field validated one cell before its data format got these separators"


def make_late_format(ctx, prop, kind, dec, ths, type_name, empty, length, rule, first_cell, mon):
    """(format, field) where the field exists - and has judged one cell - before the data format gets its separators:
    the separators that count are the data format's when a cell is judged, not the ones at the field's first use."""
    from cutplace import data

    fmt = data.DataFormat(kind)
    field = construct(ctx, prop, type_name, empty, length, rule, fmt)
    if field is None:
        return fmt, None
    feed(field, [first_cell], mon, [True])
    if ths:
        fmt.set_property(data.KEY_THOUSANDS_SEPARATOR, ths)
    if dec != ".":
        fmt.set_property(data.KEY_DECIMAL_SEPARATOR, dec)
    fmt.validate()
    field._cpverif_note = LATE_NOTE
    return fmt, field


def make_format(kind, dec=".", ths="", allowed=None, complete=True):
    from cutplace import data

    fmt = data.DataFormat(kind)
    if kind in ("delimited", "fixed"):
        if dec != ".":
            if ths == "":
                fmt.set_property(data.KEY_DECIMAL_SEPARATOR, dec)
            else:
                # set in an order that never makes both equal
                fmt.set_property(data.KEY_THOUSANDS_SEPARATOR, ths)
                fmt.set_property(data.KEY_DECIMAL_SEPARATOR, dec)
        elif ths:
            fmt.set_property(data.KEY_THOUSANDS_SEPARATOR, ths)
    if allowed:
        fmt.set_property(data.KEY_ALLOWED_CHARACTERS, allowed)
    if complete:
        fmt.validate()
    return fmt


CLASS_OF = {
    "Integer": "IntegerFieldFormat",
    "Decimal": "DecimalFieldFormat",
    "Choice": "ChoiceFieldFormat",
    "Constant": "ConstantFieldFormat",
    "DateTime": "DateTimeFieldFormat",
    "Pattern": "PatternFieldFormat",
    "RegEx": "RegExFieldFormat",
    "Text": "TextFieldFormat",
}


def construct(ctx, prop, type_name, empty, length, rule, fmt, case_hint=None):
    """Construct the real field format; generated declarations are valid by construction, so a refusal is a violation."""
    from cutplace import errors, fields

    cls = getattr(fields, CLASS_OF[type_name])
    ctx.count("field.construct")
    try:
        return cls("f", empty, length, rule, fmt)
    except errors.InterfaceError as error:
        case = {"decl": {"type": type_name, "empty": empty, "length": length, "rule": rule}, "format": fmt.format}
        ctx.case(case, True)
        ctx.violation("%s:%s:declaration-refused" % (prop, type_name), case, "valid field declaration refused",
                      expected="field format", observed=error)
        return None
    except Exception as error:
        case = {"decl": {"type": type_name, "empty": empty, "length": length, "rule": rule}, "format": fmt.format}
        ctx.case(case, True)
        from cpverif import core

        mod, fn = core.innermost_cutplace_frame(error)
        ctx.violation("%s:%s:declaration-crash:%s@%s.%s" % (prop, type_name, type(error).__name__, mod, fn), case,
                      "valid field declaration failed with an internal error", expected="field format", observed=error)
        return None


def feed(field, cells, mon, flags=None):
    from cutplace import errors

    for index, cell in enumerate(cells):
        mon.flag = True if flags is None else flags[index]
        try:
            field.validated(cell)
        except errors.FieldValueError:
            pass
        except Exception as error:  # internal failures belong to C10; counted here
            mon.ctx.count("field.validated.internal-error.%s" % type(error).__name__)


# ---------------------------------------------------------------------------------- mutation helpers
def mutations(rng, text, alphabet):
    out = []
    if text:
        i = rng.randrange(len(text))
        out.append(text[:i] + text[i + 1 :])
        i = rng.randrange(len(text))
        out.append(text[:i] + rng.choice(alphabet) + text[i + 1 :])
        c = text[i]
        if c.isalpha():
            out.append(text[:i] + c.swapcase() + text[i + 1 :])
    i = rng.randrange(len(text) + 1)
    out.append(text[:i] + rng.choice(alphabet) + text[i:])
    return out


# ---------------------------------------------------------------------------------- per-type generators
def gen_integer(ctx, rng, kind):
    """Returns (length, rule, cells, flags)."""
    cells, flags = [], []

    def add(cell, flag=True):
        cells.append(cell)
        flags.append(flag)

    shape = rng.choice(["rule", "rule", "length", "length", "neither", "both"])
    length, rule = "", ""
    if kind == "fixed":
        w = rng.randint(1, 8)
        length = str(w)
        if shape in ("rule", "both"):
            hi = 10**w - 1
            lo = -(10 ** (w - 1)) + 1 if w > 1 else 0
            a = rng.randint(lo, hi)
            b = rng.randint(a, hi)
            rule = "%d%s%d" % (a, rng.choice(c01.SEPS), b)
            probes = [a - 1, a, a + 1, b - 1, b, b + 1]
        else:
            probes = [-(10 ** (w - 1)), -(10 ** (w - 1)) + 1, 10**w - 1, 10**w, 0, 9, 10, -1, -9, -10]
        for v in probes:
            text = str(v)
            add(text)
            if len(text) < w:
                add(text.rjust(w))
                add(text.ljust(w))
        add("x" * w)
        add(" " * (w - 1) + "x")
        return length, rule, cells, flags
    if shape == "rule":
        rule, items = c01.gen_int_description(rng)
        for v in c01.int_probes(rng, items):
            add(str(v))
    elif shape == "length":
        form = rng.choice(["exact", "closed", "upper", "lower", "two"])
        a = rng.randint(1, 4)
        b = rng.randint(a, 6)
        if form == "exact":
            length = str(a)
        elif form == "closed":
            length = "%d%s%d" % (a, rng.choice(c01.SEPS), b)
        elif form == "upper":
            length = "%s%d" % (rng.choice(c01.SEPS), b)
        elif form == "lower":
            length = "%d%s" % (a, rng.choice(c01.SEPS))
        else:
            length = "%d, %d%s%d" % (a, a + 2, rng.choice(c01.SEPS), a + 3)
        for p in range(0, 8):
            for d in (-2, -1, 0, 1, 2):
                add(str(10**p + d))
                add(str(-(10**p) + d))
    elif shape == "neither":
        for v in (F.MIN_INT32 - 1, F.MIN_INT32, F.MIN_INT32 + 1, F.MAX_INT32 - 1, F.MAX_INT32, F.MAX_INT32 + 1, 0, -1, 1, 2**40, -(2**40)):
            add(str(v))
    else:
        digits = rng.randint(1, 5)
        length = str(digits)
        lo = 10 ** (digits - 1) if digits > 1 else 0
        hi = 10**digits - 1
        a = rng.randint(lo, hi)
        b = rng.randint(a, hi)
        rule = "%d%s%d" % (a, rng.choice(c01.SEPS), b)
        for v in (a - 1, a, a + 1, b - 1, b, b + 1, lo, hi, hi + 1):
            add(str(v))
    for junk in ("abc", "1.5", "1e3", "--1", "1 2", "0x10", "1,0", "１２"):
        add(junk)
    for odd in ("+5", "05", " 5", "5 ", "1_0", "-0"):
        add(odd, False)
    for _ in range(4):
        add(str(rng.randint(-(10**6), 10**6)), False)
    return length, rule, cells, flags


def render_decimal(rng, d, dec, ths, digits=None):
    s = "%f" % d if digits is None else "%.*f" % (digits, d)
    if digits is None:
        s = format(d, "f")
    sign = ""
    if s.startswith("-"):
        sign, s = "-", s[1:]
    whole, _, frac = s.partition(".")
    if ths and rng.random() < 0.7:
        groups = []
        while len(whole) > 3:
            groups.insert(0, whole[-3:])
            whole = whole[:-3]
        groups.insert(0, whole)
        whole = ths.join(groups)
    return sign + whole + (dec + frac if frac else "")


def gen_decimal(ctx, rng, kind, dec, ths):
    cells, flags = [], []

    def add(cell, flag=True):
        cells.append(cell)
        flags.append(flag)

    length = ""
    if kind == "fixed":
        length = str(rng.randint(8, 24))
    if rng.random() < 0.85:
        rule, items, digits = c01.gen_dec_description(rng)
        probes = c01.dec_probes(rng, items, digits)
    else:
        rule, items = "", None
        m = F.MAX_DECIMAL
        probes = [m, F.MIN_DECIMAL, Decimal("10000000000000000000"), Decimal("-10000000000000000000"),
                  Decimal("9999999999999999999.9999999999999"), Decimal(0), Decimal("1.5"), Decimal("-9999999999999999999.9999999999991")]
    for d in probes:
        text = render_decimal(rng, d, dec, ths)
        add(text)
        if kind == "fixed" and rng.random() < 0.3:
            add(" " + text + " ")
    base = render_decimal(rng, probes[len(probes) // 2], dec, ths)
    add(base + dec + "5")  # second decimal separator
    if ths:
        add("1" + dec + "234" + ths + "5")  # thousands separator after the decimal separator
        add("1" + ths + "234" + dec + "5")
        add("12" + ths + "34", False)
    other = "," if dec == "." else "."
    if not ths:
        add("1" + other + "5")  # the other convention's separator is no separator here
    for junk in ("abc", "1x", "--1", "1 2", "", "1e", "NaN", "Infinity", "-Infinity", "inf", "-INF", "sNaN", "1e3", "+1", ".5", "5."):
        if junk:
            add(junk, junk in ("abc", "1x", "--1", "1 2", "1e"))
    return length, rule, cells, flags


CHOICE_POOL = ["red", "green", "Blue", "x", "A", "a", "yes", "no", "N_A", "item1", "ä", "naïve", "grün", "a b", "a,b", "1", "42", "-", "ΩΩ", "it's",
               # values with a quote character at their edge (inches, feet, quoted words): quoted with the other kind
               '12"', "5'", "'yes'", '"x"', "'", '"']


def spell_choice(rng, item):
    bare_ok = item.isascii() and (item.replace("_", "a").isalnum()) and not item[0].isdigit() or (item.isdigit() and (item == "0" or item[0] != "0"))
    if bare_ok and rng.random() < 0.5:
        return item
    if '"' in item:
        return "'" + item + "'"
    if "'" in item:
        return '"' + item + '"'
    q = rng.choice("'\"")
    return q + item + q


def gen_choice(ctx, rng, kind, constant=False):
    cells, flags = [], []
    n = 1 if constant else rng.randint(1, 5)
    items = rng.sample(CHOICE_POOL, n)
    rule = (rng.choice([",", ", ", " , "])).join(spell_choice(rng, it) for it in items)
    if rng.random() < 0.3:
        rule = " " * rng.randint(0, 2) + rule + " " * rng.randint(0, 2) if not constant else rule
    length = ""
    if kind == "fixed":
        # the width of a fixed field is what its values are padded to: it may exceed the longest listed value
        length = str(max(len(it) for it in items) + rng.randint(0, 2))
    for it in items:
        cells.append(it)
        flags.append(True)
        for m in mutations(rng, it, "abXY1 ,'\""):
            if kind == "fixed" and m.strip(" ") != m:
                continue
            cells.append(m)
            flags.append(True)
        cells.append(it.swapcase())
        flags.append(True)
        cells.append(it + it)
        flags.append(True)
    for other in rng.sample(CHOICE_POOL, 3):
        cells.append(other)
        flags.append(False)
    return length, rule, cells, flags


DT_SEPARATORS = ["-", ".", "/", ":", " ", "%", ","]


def gen_datetime(ctx, rng, kind):
    cells, flags = [], []
    date_tokens = rng.choice([["DD", "MM", "YYYY"], ["YYYY", "MM", "DD"], ["MM", "DD", "YYYY"], ["DD", "MM", "YY"], ["YY", "MM", "DD"], ["MM", "YYYY"], ["DD", "MM"], ["YYYY"], []])
    time_tokens = rng.choice([[], [], ["hh", "mm", "ss"], ["hh", "mm"], ["ss", "mm", "hh"], ["mm", "ss"], ["mm", "hh"], ["mm"]])
    if not date_tokens and not time_tokens:
        date_tokens = ["DD", "MM", "YYYY"]
    dsep = rng.choice(DT_SEPARATORS)
    tsep = rng.choice([":", ".", "-", ""])
    parts = []
    if date_tokens:
        parts.append((dsep if rng.random() < 0.9 else "").join(date_tokens))
    if time_tokens:
        parts.append(tsep.join(time_tokens))
    if len(parts) == 2 and rng.random() < 0.2:
        parts.reverse()  # time before date
    rule = rng.choice([" ", "  ", ", ", "-", ""]).join(parts) if len(parts) == 2 else parts[0]
    if kind == "excel" and not time_tokens and rng.random() < 0.4:
        # the rule the documentation prescribes for date cells of Excel sheets, which render with this suffix
        rule += F.EXCEL_MIDNIGHT
    layout = F.parse_layout(rule)
    tokens = date_tokens + time_tokens

    def render(values):
        out = ""
        for k, t in layout:
            if k == "lit":
                out += t
            else:
                out += "%04d" % values[t] if t == "YYYY" else "%02d" % values[t]
        return out

    def valid_values():
        year = rng.choice([1999, 2000, 2004, 1900, 2024, 2023, rng.randint(1, 9999), 1969, 2068, 2069])
        month = rng.randint(1, 12)
        dim = [31, 29 if (year % 4 == 0 and (year % 100 != 0 or year % 400 == 0)) else 28, 31, 30, 31, 30, 31, 31, 30, 31, 30, 31][month - 1]
        day = rng.choice([1, dim, rng.randint(1, dim)])
        return {"YYYY": year, "YY": year % 100, "MM": month, "DD": day, "hh": rng.choice([0, 23, rng.randint(0, 23)]),
                "mm": rng.choice([0, 59, rng.randint(0, 59)]), "ss": rng.choice([0, 59, rng.randint(0, 59)])}

    for _ in range(6):
        v = valid_values()
        text = render(v)
        cells.append(text)
        flags.append(True)
        if rng.random() < (0.5 if kind == "excel" else 0.25):
            # Excel renders date-only cells with this suffix; only there it is part of the accepted renderings
            cells.append(text + " 00:00:00")
            flags.append(True)
        # field-level mutations
        for key, bad in (("MM", 13), ("MM", 0), ("DD", 32), ("DD", 0), ("hh", 24), ("mm", 60), ("ss", 62), ("ss", 61), ("DD", 30), ("DD", 31), ("DD", 29)):
            if key in tokens:
                w = dict(v)
                if key == "DD" and bad in (29, 30, 31):
                    w["MM"] = rng.choice([2, 4, 6, 9, 11]) if bad > 29 else 2
                w[key] = bad
                cells.append(render(w))
                flags.append(True)
        for m in mutations(rng, text, "0123456789x-./: "):
            if kind == "fixed" and m.strip(" ") != m:
                continue
            cells.append(m)
            flags.append(True)
    length = str(max(len(c) for c in cells) + 1) if kind == "fixed" else ""
    return length, rule, cells, flags


GLOB_LITERALS = "abcXYZ019._-+()$^{}|"


def gen_pattern(ctx, rng, kind):
    cells, flags = [], []
    parts = []
    for _ in range(rng.randint(1, 6)):
        k = rng.choice(["lit", "lit", "lit", "any", "one", "set", "nset"])
        if k == "lit":
            parts.append(("lit", rng.choice(GLOB_LITERALS)))
        elif k == "any":
            if not parts or parts[-1][0] != "any":
                parts.append(("any",))
        elif k == "one":
            parts.append(("one",))
        else:
            lo = rng.choice("abcdmx05")
            hi = chr(min(ord(lo) + rng.randint(0, 4), ord("z") if lo.isalpha() else ord("9")))
            parts.append(("set", k == "nset", [(lo, hi)]))
    rule = ""
    for p in parts:
        if p[0] == "lit":
            rule += p[1]
        elif p[0] == "any":
            rule += "*"
        elif p[0] == "one":
            rule += "?"
        else:
            lo, hi = p[2][0]
            rule += "[" + ("!" if p[1] else "") + (lo if lo == hi else lo + "-" + hi) + "]"

    def sample():
        out = ""
        for p in parts:
            if p[0] == "lit":
                out += p[1] if rng.random() < 0.7 else p[1].swapcase()
            elif p[0] == "any":
                out += "".join(rng.choice("abz09.-") for _ in range(rng.randint(0, 3)))
            elif p[0] == "one":
                out += rng.choice("qQ7.-")
            else:
                lo, hi = p[2][0]
                if p[1]:
                    pool = [c for c in "abcdefghmnxyz0123456789.-QZ" if not (lo <= c.lower() <= hi or lo <= c.upper() <= hi or lo <= c <= hi)]
                    out += rng.choice(pool)
                else:
                    c = chr(rng.randint(ord(lo), ord(hi)))
                    out += c if rng.random() < 0.7 else c.swapcase()
        return out

    for _ in range(5):
        text = sample()
        if text == "" or (kind == "fixed" and text.strip(" ") != text):
            continue
        cells.append(text)
        flags.append(True)
        for m in mutations(rng, text, "abz09.-Q"):
            if m == "" or (kind == "fixed" and m.strip(" ") != m):
                continue
            cells.append(m)
            flags.append(True)
        cells.append(text + "x")
        flags.append(True)
        cells.append("x" + text)
        flags.append(True)
    length = str(max([len(c) for c in cells] + [1]) + 1) if kind == "fixed" else ""
    return length, rule, cells, flags


def gen_regex_ast(rng, depth=0):
    k = rng.choice(["lit", "lit", "lit", "dot", "set", "rep", "grp", "alt", "esc"]) if depth < 2 else rng.choice(["lit", "dot", "set"])
    if k == "lit":
        return ("lit", rng.choice("abcXYZ019 -_" + ("äÖéω" if rng.random() < 0.3 else "")))
    if k == "esc":
        return rng.choice([("lit", "."), ("lit", "+"), ("lit", "("), ("cls", "d"), ("cls", "w")])
    if k == "dot":
        return ("dot",)
    if k == "set":
        lo = rng.choice("abcmx05")
        hi = chr(min(ord(lo) + rng.randint(0, 4), ord("z") if lo.isalpha() else ord("9")))
        return ("set", rng.random() < 0.25, lo, hi)
    if k == "rep":
        return ("rep", gen_regex_ast(rng, depth + 1), rng.choice(["*", "+", "?", "{2}", "{1,3}"]))
    if k == "grp":
        return ("seq", [gen_regex_ast(rng, depth + 1) for _ in range(rng.randint(1, 3))])
    return ("alt", [gen_regex_ast(rng, depth + 1) for _ in range(rng.randint(2, 3))])


def regex_text(ast, top=False):
    k = ast[0]
    if k == "lit":
        return "\\" + ast[1] if ast[1] in ".^$*+?{}[]\\|()" else ast[1]
    if k == "cls":
        return "\\" + ast[1]
    if k == "dot":
        return "."
    if k == "set":
        return "[" + ("^" if ast[1] else "") + (ast[2] if ast[2] == ast[3] else ast[2] + "-" + ast[3]) + "]"
    if k == "rep":
        inner = regex_text(ast[1])
        if ast[1][0] in ("seq", "alt", "rep"):
            inner = "(" + inner + ")" if not inner.startswith("(") or ast[1][0] == "rep" else inner
        return inner + ast[2]
    if k == "seq":
        return "(" + "".join(regex_text(a) for a in ast[1]) + ")"
    if k == "alt":
        return "(" + "|".join(regex_text(a) for a in ast[1]) + ")"


def regex_sample(rng, ast):
    k = ast[0]
    if k == "lit":
        return ast[1] if rng.random() < 0.7 else ast[1].swapcase()
    if k == "cls":
        return rng.choice("0123456789") if ast[1] == "d" else rng.choice("azAZ09_äÜж")
    if k == "dot":
        return rng.choice("qQ7.- ")
    if k == "set":
        lo, hi = ast[2], ast[3]
        if ast[1]:
            pool = [c for c in "abcdefghmnxyz0123456789.-QZ" if not (lo <= c.lower() <= hi or lo <= c.upper() <= hi or lo <= c <= hi)]
            return rng.choice(pool)
        c = chr(rng.randint(ord(lo), ord(hi)))
        return c if rng.random() < 0.7 else c.swapcase()
    if k == "rep":
        lo, hi = {"*": (0, 3), "+": (1, 3), "?": (0, 1), "{2}": (2, 2), "{1,3}": (1, 3)}[ast[2]]
        return "".join(regex_sample(rng, ast[1]) for _ in range(rng.randint(lo, hi)))
    if k == "seq":
        return "".join(regex_sample(rng, a) for a in ast[1])
    return regex_sample(rng, rng.choice(ast[1]))


def gen_regex(ctx, rng, kind):
    cells, flags = [], []
    asts = [gen_regex_ast(rng) for _ in range(rng.randint(1, 4))]
    rule = "".join(regex_text(a) for a in asts)
    anchor = rng.random()
    if anchor < 0.3:
        rule = rule + "$"
    elif anchor < 0.4:
        rule = "^" + rule + "$"
    for _ in range(5):
        text = "".join(regex_sample(rng, a) for a in asts)
        if text == "" or (kind == "fixed" and text.strip(" ") != text):
            continue
        cells.append(text)
        flags.append(True)
        for m in mutations(rng, text, "abz09.-QäÉ"):
            if m == "" or (kind == "fixed" and m.strip(" ") != m):
                continue
            cells.append(m)
            flags.append(True)
        cells.append(text + "zz")  # prefix semantics: still accepted unless anchored
        flags.append(True)
        if kind != "fixed":
            # line breaks inside a cell: "." matches a carriage return but no line feed; "$" tolerates one final line feed
            at = rng.randrange(len(text))
            for m in (text[:at] + "\n" + text[at + 1:], text[:at] + "\r" + text[at + 1:], text + "\n", text + "\n\n",
                      text[:at] + "\n" + text[at:]):
                if m.strip() == m or m.startswith(text):
                    cells.append(m)
                    flags.append(True)
        cells.append("zz" + text)
        flags.append(True)
    length = str(max([len(c) for c in cells] + [1]) + 1) if kind == "fixed" else ""
    return length, rule, cells, flags


def gen_text(ctx, rng, kind):
    cells = ["a", "Hello, World", "ä€", "  x  " if kind != "fixed" else "x", "0", "'quoted'", "line\nbreak" if kind != "fixed" else "lb"]
    length = "12" if kind == "fixed" else ""
    return length, "", cells, [True] * len(cells)


def gen_declaration(ctx, rng, type_name, kind, dec, ths):
    if type_name == "Integer":
        return gen_integer(ctx, rng, kind)
    if type_name == "Decimal":
        return gen_decimal(ctx, rng, kind, dec, ths)
    if type_name == "Choice":
        return gen_choice(ctx, rng, kind)
    if type_name == "Constant":
        return gen_choice(ctx, rng, kind, constant=True)
    if type_name == "DateTime":
        return gen_datetime(ctx, rng, kind)
    if type_name == "Pattern":
        return gen_pattern(ctx, rng, kind)
    if type_name == "RegEx":
        return gen_regex(ctx, rng, kind)
    return gen_text(ctx, rng, kind)


# ---------------------------------------------------------------------------------- end-to-end path
def end_to_end(ctx, mon, type_name, empty, length, rule, dec, ths, cells, flags):
    """Declare the field through Cid.read and validate the cells through cutplace.rows (delimited)."""
    import cutplace
    from cutplace import errors, interface

    rows = [["D", "Format", "Delimited"], ["D", "Encoding", "utf-8"]]
    separators = []
    if ths:
        separators.append(["D", "Thousands separator", ths])
    if dec != ".":
        separators.append(["D", "Decimal separator", dec])
    # data format rows may stand anywhere after the Format row: also below the fields they apply to
    late = bool(separators) and (len(cells) + len(length) + len(rule)) % 2 == 1
    if not late:
        rows.extend(separators)
    # (a length cell that holds nothing but blanks - an aligned CSV - declares no length)
    rows.append(["F", "f", "", "X" if empty else "", length if length else ("   " if len(cells) % 2 else ""), type_name, rule])
    rows.append(["F", "tail", "", "", "", "Text", ""])
    if late:
        rows.extend(separators)
        ctx.count("e2e.cid-with-separators-below-the-fields")
    cid = interface.Cid()
    ctx.count("e2e.cid")
    try:
        cid.read("<c02>", rows)
    except errors.InterfaceError as error:
        case = {"cid_rows": rows}
        ctx.case(case, True)
        ctx.violation("C02:%s:declaration-refused" % type_name, case, "valid field declaration refused by Cid.read",
                      expected="cid", observed=error)
        return
    keep = [(c, f) for c, f in zip(cells, flags) if "\r" not in c and "\n" not in c]
    out = io.StringIO()
    csv.writer(out).writerows([[c, "t"] for c, _ in keep])
    out.seek(0)
    it = cutplace.rows(cid, io.StringIO(out.getvalue(), newline=""), on_error="yield")
    index = 0
    while True:
        mon.flag = keep[index][1] if index < len(keep) else False
        try:
            item = next(it)
        except StopIteration:
            break
        except errors.DataError:
            break
        except Exception as error:  # internal failures belong to C10; counted here
            ctx.count("e2e.internal-error.%s" % type(error).__name__)
            break
        index += 1
    ctx.count("e2e.rows", index)


def length_sweep(ctx, mon):
    """thorough: all integers of up to 6 characters for every length declaration with limits 0..5."""
    from cutplace import errors

    decls = []
    for a in range(1, 6):
        decls.append(str(a))
    for a in range(0, 6):
        for b in range(max(a, 1), 6):
            if a != b:
                decls.append("%d...%d" % (a, b))
    for b in range(1, 6):
        decls.append("...%d" % b)
    for a in range(0, 6):
        decls.append("%d:" % a)
    decls += ["1, 3...4", "2, 4", "1...2, 5", "1, 3, 5"]
    fmt = make_format("delimited")
    mon.register_cases = False
    from cpverif import reach

    for index, length in enumerate(decls):
        if not ctx.mine(index):
            continue
        field = construct(ctx, "C02", "Integer", False, length, "", fmt)
        if field is None:
            continue
        items = F.length_items({"type": "Integer", "length": length})
        reach.pause()
        n = 0
        validated = field.validated
        before = ctx.violation_count
        for i in range(-99999, 1000000):
            try:
                validated(str(i))
            except errors.FieldValueError:
                pass
            n += 1
        reach.resume()
        ctx.bulk(n, n, sample={"decl": {"type": "Integer", "length": length}, "cells": "str(i) for i in -99999..999999"})
        ctx.count("sweep.length-declarations")
    mon.register_cases = True


def run(ctx):
    mon = FieldMonitor(ctx, "C02", nontrivial=lambda decl, fmt, cell, verdict: mon.flag)
    mon.flag = True
    mon.attach()
    ctx.floor("field.validated.judged", 1000)
    n = ctx.pick(2400, 120000)
    fmt_cache = {}
    history = {}
    for i in range(n):
        if not ctx.mine(i):
            continue
        rng = ctx.rng("decl", i)
        type_name = F.TYPES[i % len(F.TYPES)]
        kind = FORMATS[(i // len(F.TYPES)) % len(FORMATS)]
        dec, ths = rng.choice(SEP_CONVENTIONS) if kind in ("delimited", "fixed") else (".", "")
        key = (kind, dec, ths)
        if key not in fmt_cache:
            fmt_cache[key] = make_format(kind, dec, ths)
        fmt = fmt_cache[key]
        length, rule, cells, flags = gen_declaration(ctx, rng, type_name, kind, dec, ths)
        if kind == "fixed" and length.isdigit():
            # white space that is no blank, at the edges of a cell: part of the value, not padding
            cells, flags = list(cells), list(flags)
            for cell in rng.sample(cells, min(3, len(cells))):
                if cell and cell.strip(" ") == cell and len(cell) < int(length):
                    other = rng.choice("\t\xa0\u3000\x1f")
                    cells += [cell + other, other + cell]
                    flags += [True, True]
                    ctx.count("fixed-cells.with-other-white-space-at-the-edge", 2)
        empty = rng.random() < 0.3 and type_name != "Constant"
        if type_name == "Decimal" and (dec, ths) != (".", "") and i % 3 == 0 and cells:
            fmt, field = make_late_format(ctx, "C02", kind, dec, ths, type_name, empty, length, rule, cells[0], mon)
            ctx.count("decimal-fields-used-before-the-separators-were-set")
        else:
            field = construct(ctx, "C02", type_name, empty, length, rule, fmt)
        if field is None:
            continue
        feed(field, cells, mon, flags)
        # cross-field replay: cells that earlier fields of the same type saw are offered to this declaration too, so that
        # anything remembered by cell text across instances (caches, class-level state) meets a declaration that
        # disagrees with the one that filled it
        seen = history.setdefault((type_name, kind == "fixed"), [])
        if seen:
            replayed = [c for c in rng.sample(seen, min(len(seen), 12)) if kind != "fixed" or (c.strip(" ") == c and c != "")]
            feed(field, replayed, mon, [True] * len(replayed))
            ctx.count("cross-field.replayed-cells", len(replayed))
        seen.extend(rng.sample(cells, min(len(cells), 6)))
        if len(seen) > 120:
            del seen[:60]
        if kind == "delimited" and i % 5 == 0 and not (rule != rule.strip() and type_name in ("RegEx", "Pattern", "DateTime")):
            # (the CID loader strips the rule cell: surrounding blanks would change the meaning of these rules)
            end_to_end(ctx, mon, type_name, empty, length, rule, dec, ths, cells, flags)
    if ctx.tier == "thorough":
        length_sweep(ctx, mon)
        ctx.exhaustive = True
        ctx.note("exhaustive part: Integer fields with every length declaration over 0..5 against all integers -99999..999999; the rest is sampled")


def replay(ctx, case):
    mon = FieldMonitor(ctx, "C02")
    mon.flag = True
    mon.attach()
    if "cid_rows" in case:
        from cutplace import interface

        interface.Cid().read("<c02>", case["cid_rows"])
        return
    decl = case["decl"]
    f = case.get("format", "delimited")
    if isinstance(f, str):
        f = {"kind": f, "dec": ".", "ths": ""}
    if case.get("note") == LATE_NOTE:
        fmt, field = make_late_format(ctx, "C02", f["kind"], f.get("dec", "."), f.get("ths", ""), decl["type"], decl["empty"], decl["length"], decl["rule"], "1", mon)
    else:
        fmt = make_format(f["kind"], f.get("dec", "."), f.get("ths", ""), case.get("allowed"))
        field = construct(ctx, "C02", decl["type"], decl["empty"], decl["length"], decl["rule"], fmt)
    if field is not None and "cell" in case:
        feed(field, [case["cell"]], mon)
