"""C03 Empty, length and allowed-character guards hold for every field type.

Enumerates the product the quantifier names; the guard part of M-field (through FieldMonitor) decides."""
import csv
import io

from cpverif.models import fieldmodel as F
from cpverif.models import rangemodel as R
from cpverif.monitors.fieldmon import FieldMonitor
from cpverif.props import c02

LEVEL = "exploration"
RULE = (
    "complete enumeration of 8 built-in types x {empty allowed, not allowed} x length declarations {none, exact, "
    "lower-only, upper-only, multi-item, multi-item open on both sides, zero, zero or three; fixed: two exact widths} x allowed-character ranges {none, 32...126, two-item "
    "digits+lower-case, open 33..., letters and digits as quoted characters, digits and quoted upper-case letters; set before or after the field is declared} x formats {delimited, fixed, excel, ods} x cells {empty, 1-3 blanks, shortest and "
    "longest allowed stem, one shorter / one longer, a stem with one disallowed character at every position, fixed: "
    "blank-padded stems, cells of / padded with tabs, no-break spaces, ideographic spaces and unit separators}; type rules are chosen so that the undisturbed stem satisfies them. A case is (declaration, "
    "format, allowed range, cell), distinct by digest; every case sits on a guard and counts as non-trivial. A second "
    "part reads the same cells through Cid.read + cutplace.rows(on_error='yield') and checks that each rejection "
    "names the field. A third part, in every worker process, offers a character under a range that excludes it right after "
    "another data format's range has accepted it."
)
ASSUMPTIONS = [
    "guard model of cpverif/models/fieldmodel.py; only the blank (U+0020) is padding of fixed cells",
]

LENGTHS = ["", "3", "2...", "...4", "1...2, 4...5", "...2, 4...", "0, 3", "0"]
FIXED_WIDTHS = ["3", "5"]
ALLOWED = [None, "32...126", "48...57, 97...122", "33...", '"0"..."9", "A"..."Z", "a"..."z"', '"0"..."9", "A"..."Z"']
DISALLOWED_CHAR = {None: None, "32...126": "é", "48...57, 97...122": "A", "33...": " ", '"0"..."9", "A"..."Z", "a"..."z"': "_", '"0"..."9", "A"..."Z"': "b"}
FIELD = "fld_under_test"


def stem_for(type_name, n):
    if type_name in ("Integer", "Decimal"):
        return "1" * n
    if type_name == "DateTime":
        return {2: "24", 4: "2024", 6: "240229"}.get(n)
    return "a" * n


def rule_for(type_name, wanted_lengths):
    """(rule, usable stem lengths)"""
    if type_name in ("Integer", "Decimal", "Text"):
        return "", wanted_lengths
    if type_name == "Choice":
        return ", ".join("a" * n for n in sorted(set(wanted_lengths)) if n > 0), wanted_lengths
    if type_name == "Constant":
        # the declared length must contain the constant's own length (fixed: equal the width)
        n = [k for k in wanted_lengths if k > 0][-1]
        return "a" * n, [n]
    if type_name == "DateTime":
        for n, layout in ((4, "YYYY"), (2, "YY"), (6, "YYMMDD")):
            if n in wanted_lengths:
                return layout, [n]
        return "YYYY", []
    if type_name == "Pattern":
        return "a*", wanted_lengths
    return "a+", wanted_lengths  # RegEx


def lengths_inside(length_text, kind):
    """Stem lengths to probe: shortest/longest allowed and one beyond on each side (1..7)."""
    if kind == "fixed":
        w = int(length_text)
        return list(range(1, w + 1)), [w + 1]
    if length_text == "":
        return [1, 3, 6], []
    items = R.parse_int_range(length_text)
    inside = [n for n in range(1, 8) if R.contains(items, n)]
    outside = [n for n in range(1, 8) if not R.contains(items, n)]
    if not inside:
        return [], [1, 2, 5]  # a length of 0: the field of a column that always has to be empty
    edge_in = sorted(set([inside[0], inside[-1]] + [n for n in inside if (n - 1) in outside or (n + 1) in outside]))
    edge_out = sorted(set(n for n in outside if (n - 1) in inside or (n + 1) in inside))
    return edge_in, edge_out


def cells_for(type_name, kind, length_text, allowed, rng_unused=None):
    inside, outside = lengths_inside(length_text, kind)
    rule, usable = rule_for(type_name, inside)
    cells = ["", " ", "  ", "   "]
    for n in inside + outside:
        stem = stem_for(type_name, n)
        if stem is None:
            continue
        cells.append(stem)
        if kind == "fixed":
            w = int(length_text)
            if n < w:
                cells.append(stem.ljust(w))
                cells.append(stem.rjust(w))
        bad = DISALLOWED_CHAR[allowed]
        if bad is not None and n in inside:
            for pos in range(n):
                cells.append(stem[:pos] + bad + stem[pos + 1 :])
    if kind == "fixed":
        w = int(length_text)
        cells.append(" " * w)
        cells.append(" " * (w + 1))
        # white space that is no blank: such cells are not empty, and such characters are part of the value
        for other in ("\t", "\xa0", "\u3000", "\x1f"):
            cells.append(other * w)
            cells.append(other + " " * (w - 1))
            stem = stem_for(type_name, max(1, w - 2))
            if stem is not None and len(stem) == w - 2:
                cells.append(other + stem + " ")
                cells.append(stem + other + " ")
    return rule, cells


def declarations():
    for type_name in F.TYPES:
        for empty in (False, True):
            for kind in c02.FORMATS:
                for length_text in FIXED_WIDTHS if kind == "fixed" else LENGTHS:
                    for allowed in ALLOWED:
                        yield type_name, empty, kind, length_text, allowed


def usable(type_name, empty, rule):
    if type_name == "Constant" and empty:
        return False  # a Constant that may be empty is refused at declaration (use Choice)
    return True


def run(ctx):
    from cutplace import errors

    mon = FieldMonitor(ctx, "C03")
    mon.attach()
    ctx.floor("field.validated.judged", 5000)
    fmt_cache = {}
    e2e_every = ctx.pick(7, 1)
    for index, (type_name, empty, kind, length_text, allowed) in enumerate(declarations()):
        if not ctx.mine(index):
            continue
        if length_text == "0" and type_name not in ("Text", "Pattern", "RegEx"):
            continue  # (only types whose rule says nothing about the length of a value)
        if length_text.startswith("0") and type_name == "Integer":
            continue  # (an Integer field derives its range from the length: no digits, no range)
        rule, cells = cells_for(type_name, kind, length_text, allowed)
        if not usable(type_name, empty, rule):
            continue
        if type_name == "Choice" and rule == "":
            continue
        # every second declaration with an allowed range gets the range only after the field exists: the guard is
        # about the data format's range at the time a cell is judged (a D row may follow the F rows)
        late = allowed is not None and (index // len(ALLOWED)) % 2 == 1
        key = (kind, allowed)
        if late:
            fmt = c02.make_format(kind, ".", "", None, complete=False)
        else:
            if key not in fmt_cache:
                fmt_cache[key] = c02.make_format(kind, ".", "", allowed)
            fmt = fmt_cache[key]
        field = c02.construct(ctx, "C03", type_name, empty, length_text, rule, fmt)
        if field is None:
            continue
        if late:
            from cutplace import data

            fmt.set_property(data.KEY_ALLOWED_CHARACTERS, allowed)
            fmt.validate()
            ctx.count("declarations.allowed-range-set-after-the-field")
        ctx.count("declarations")
        for cell in cells:
            try:
                field.validated(cell)
            except errors.FieldValueError:
                pass
            except Exception as error:
                ctx.count("field.validated.internal-error.%s" % type(error).__name__)
        if kind == "delimited" and index % e2e_every == 0:
            end_to_end(ctx, mon, type_name, empty, length_text, rule, allowed, cells, late_row=(index // e2e_every) % 2 == 1)
    cross_format_memory(ctx)
    if ctx.mine(1):
        # the text an Excel date cell is read as ('YYYY-MM-DD 00:00:00', 19 characters) under a date-only rule: whatever
        # the rule makes of the midnight part, the length guard counts the characters of the cell
        excel = c02.make_format("excel", ".", "", None)
        for empty in (False, True):
            for length_text in ("10", "...18", "8...12", "10, 21...", "19", "10...19", ""):
                field = c02.construct(ctx, "C03", "DateTime", empty, length_text, "YYYY-MM-DD", excel)
                if field is None:
                    continue
                ctx.count("declarations.excel-date-cells-under-a-length")
                for cell in ("2024-03-02 00:00:00", "2024-03-02", "2024-03-02 00:00", ""):
                    try:
                        field.validated(cell)
                    except errors.FieldValueError:
                        pass
    if ctx.mine(2):
        # a Decimal cell written with thousands separators: the separators are characters of the cell
        for kind in ("delimited", "fixed"):
            grouped = c02.make_format(kind, ".", ",", None)
            for empty in (False, True):
                for length_text in (("5", "6", "7") if kind == "fixed" else ("...5", "4", "6...", "5...6", "")):
                    field = c02.construct(ctx, "C03", "Decimal", empty, length_text, "", grouped)
                    if field is None:
                        continue
                    ctx.count("declarations.decimal-with-thousands-separator-under-a-length")
                    for cell in ("12,345", "1,234", "1,23", "12345", "1234", "1,234.5", "123"):
                        try:
                            field.validated(cell)
                        except errors.FieldValueError:
                            pass
    ctx.exhaustive = True
    ctx.note("the product types x flags x length declarations x allowed ranges x formats x guard cells is enumerated completely in both tiers; thorough drives every delimited declaration end-to-end as well")


def cross_format_memory(ctx):
    """In one process: a character is accepted under a range that allows it, then offered under every range that does
    not - the guard is about the range of the data format at hand, whatever other data formats have accepted before.
    Runs in every worker (the order of the declarations above differs from worker to worker)."""
    from cutplace import errors

    for type_name in ("Text", "Pattern"):
        for wide in ALLOWED:
            for narrow in ALLOWED:
                bad = DISALLOWED_CHAR[narrow]
                if bad is None or narrow == wide:
                    continue
                if wide is not None and not R.contains(R.parse_int_range(wide), ord(bad)):
                    continue
                rule = "*" if type_name == "Pattern" else ""
                for allowed in (wide, narrow):
                    field = c02.construct(ctx, "C03", type_name, False, "", rule, c02.make_format("delimited", ".", "", allowed))
                    if field is None:
                        continue
                    for cell in (bad, "7" + bad, bad + "7"):
                        try:
                            field.validated(cell)
                        except errors.FieldValueError:
                            pass
                ctx.count("cross-format.character-accepted-elsewhere-first")


def end_to_end(ctx, mon, type_name, empty, length_text, rule, allowed, cells, late_row=False):
    import cutplace
    from cutplace import errors, interface

    rows = [["D", "Format", "Delimited"], ["D", "Encoding", "utf-8"]]
    if allowed and not late_row:
        rows.append(["D", "Allowed characters", allowed])
    rows.append(["F", "head", "", "X", "", "Text", ""])
    rows.append(["F", FIELD, "", "X" if empty else "", length_text, type_name, rule])
    if allowed and late_row:
        rows.append(["D", "Allowed characters", allowed])
        ctx.count("e2e.allowed-range-declared-below-the-fields")
    cid = interface.Cid()
    try:
        cid.read("<c03>", rows)
    except errors.InterfaceError as error:
        case = {"cid_rows": rows}
        ctx.case(case, True)
        ctx.violation("C03:%s:declaration-refused" % type_name, case, "valid field declaration refused by Cid.read", expected="cid", observed=error)
        return
    out = io.StringIO()
    csv.writer(out).writerows([["7", c] for c in cells])
    mon.register_cases = False
    items = []
    try:
        for item in cutplace.rows(cid, io.StringIO(out.getvalue(), newline=""), on_error="yield"):
            items.append(item)
            if isinstance(item, errors.DataError):
                decl, fmt, cell, verdict, outcome = mon.last
                case = {"cid_rows": rows, "cell": cell}
                ctx.case(case, True)
                ctx.count("e2e.rejections")
                text = str(item)
                if verdict[0] == F.REJECT and FIELD not in text:
                    ctx.violation("C03:rejection-does-not-name-field", case, "rejection message does not name the field",
                                  expected="message containing %r" % FIELD, observed=text)
            else:
                ctx.count("e2e.accepted")
    except Exception as error:
        ctx.count("e2e.internal-error.%s" % type(error).__name__)
    finally:
        mon.register_cases = True
    if len(items) == len(cells):
        ctx.count("e2e.complete-runs")


def replay(ctx, case):
    mon = FieldMonitor(ctx, "C03")
    mon.attach()
    if "cid_rows" in case:
        import cutplace
        from cutplace import interface

        cid = interface.Cid()
        cid.read("<c03>", case["cid_rows"])
        if "cell" in case:
            out = io.StringIO()
            csv.writer(out).writerows([["7", case["cell"]]])
            for item in cutplace.rows(cid, io.StringIO(out.getvalue(), newline=""), on_error="yield"):
                if isinstance(item, Exception) and FIELD not in str(item):
                    ctx.violation("C03:rejection-does-not-name-field", case, "rejection message does not name the field", observed=str(item))
        return
    decl = case["decl"]
    f = case.get("format", "delimited")
    if isinstance(f, str):
        f = {"kind": f}
    fmt = c02.make_format(f["kind"], f.get("dec", "."), f.get("ths", ""), case.get("allowed"))
    field = c02.construct(ctx, "C03", decl["type"], decl["empty"], decl["length"], decl["rule"], fmt)
    if field is not None and "cell" in case:
        c02.feed(field, [case["cell"]], mon)
