"""C17 The storage format of CID and data does not change the verdict."""
import os

from cpverif import core, gen, storage
from cpverif.models import rowmodel as RM
from cpverif.props import c09

LEVEL = "exploration"
RULE = (
    "generated CIDs (1-5 fields of all eight types incl. Decimal and DateTime with rules from the C02 grammars, IsUnique and "
    "DistinctCount checks whose descriptions may have blanks around them, examples (free text also with blanks around it), Header and Allowed characters - the properties common to all formats) are stored three ways - CSV "
    "text, ODS (independent encoder), XLSX (xlsxwriter) - for each of the three Format values delimited / ods / excel, and "
    "rectangular tables of accepted and rejected text cells (also with a completely empty row before the last row) are stored in the matching three data containers: 9 "
    "combinations per logical case. Oracle (relational): for a fixed Format the three stored CIDs load into the same "
    "interface (settings, fields in order with class / flag / length / rule / example, checks); across all 9 combinations "
    "every data row gets the same verdict and accepted rows the same values; each also agrees with M-rows. A case is the "
    "logical (CID, table); distinct by digest; non-trivial with a Decimal/DateTime field or a rejected cell."
)
ASSUMPTIONS = [
    "DateTime cells ending in ' 00:00:00' (Excel-only rule) are not generated; the last column is never empty and tables are rectangular (xlsx pads rows to the sheet's extent)",
]
FORMATS = ["delimited", "ods", "excel"]
CID_STORAGES = ["csv", "ods", "xlsx"]


def gen_case(rng):
    nfields = rng.randint(1, 5)
    fields, pools = [], []
    for i in range(nfields):
        types = None
        if i == 0 and rng.random() < 0.5:
            types = ["Decimal", "DateTime"]
        decl, accept, reject = gen.gen_field(rng, "delimited", "f%d" % i, ".", "", types=types)
        if decl["type"] == "DateTime" and rng.random() < 0.3:
            # the layout Excel itself uses for date/time cells, with a value exactly at midnight among the accepted ones
            decl = dict(decl, rule="YYYY-MM-DD hh:mm:ss", length="")
            accept, reject = ["2024-03-02 00:00:00", "1999-12-31 23:59:59", "2000-02-29 12:00:00"], ["2024-03-02", "2023-02-29 00:00:00", "2024-03-02 24:00:00"]
        has_time = decl["type"] == "DateTime" and any(t in decl["rule"] for t in ("hh", "mm", "ss"))
        # the Excel-only rule concerns ' 00:00:00' after a date-only layout; midnight under a layout with a time is judged
        ok = lambda c: storage.ods_encodable(c, ("s",)) and not any(ch in c for ch in "\r\n\t\x00") and (has_time or not c.endswith(" 00:00:00"))
        accept = [c for c in accept if ok(c)]
        reject = [c for c in reject if ok(c)]
        if has_time and decl["rule"] == "YYYY-MM-DD hh:mm:ss" and "2024-03-02 00:00:00" not in accept:
            accept.append("2024-03-02 00:00:00")
        if i == nfields - 1:
            accept = [c for c in accept if c != ""]
            reject = [c for c in reject if c != ""]
            decl["empty"] = decl["empty"] and False
        if not accept:
            decl = {"name": "f%d" % i, "type": "Text", "empty": False, "length": "", "rule": ""}
            accept, reject = ["a", "bb"], []
        if rng.random() < 0.5:
            # the example cell: any accepted value; free text also with blanks around it (the cell is part of the CID's
            # contents like any other)
            example = rng.choice(accept)
            if decl["type"] == "Text" and decl["length"] == "" and example.strip() and rng.random() < 0.5:
                example = rng.choice([" ", "  ", ""]) + example + rng.choice(["", " "])
            decl = dict(decl, example=example)
        fields.append(decl)
        pools.append((accept, reject))
    checks = []
    blanks = lambda text: rng.choice(["", "", " ", "  "]) + text + rng.choice(["", "", " "])
    if rng.random() < 0.5:
        checks.append({"desc": blanks("uniq"), "type": "IsUnique", "fields": [rng.choice(fields)["name"]]})
    if rng.random() < 0.3:
        checks.append({"desc": blanks("dist"), "type": "DistinctCount", "field": rng.choice(fields)["name"], "op": rng.choice(["<", "<=", ">=", "!="]), "n": rng.randint(0, 4)})
    header = rng.choice([0, 0, 1])
    table = []
    for r in range(header):
        table.append(["h%d" % k for k in range(nfields)])
    for r in range(rng.randint(1, 7)):
        row = []
        bad = rng.randrange(nfields) if rng.random() < 0.35 else None
        for i, (accept, reject) in enumerate(pools):
            row.append(rng.choice(reject) if (i == bad and reject) else rng.choice(accept))
        if table[header:] and checks and rng.random() < 0.25:
            row = list(rng.choice(table[header:]))
        table.append(row)
    if len(table) - header >= 2 and rng.random() < 0.2:
        # a row whose cells are all empty, somewhere before the last row: a row like any other (at the end it could
        # not be told from filler in the spreadsheet containers)
        table.insert(rng.randint(header, len(table) - 1), [""] * nfields)
    return fields, checks, header, table


def structure_features(rows):
    """Header rows, outline groups, merged cells, annotations: switched on depending on the shape of the table."""
    n = len(rows) + sum(len(r) for r in rows[:2])
    return tuple(f for k, f in enumerate(storage.STRUCTURE_ODS_FEATURES) if (n >> k) & 1)


def store_cid(ctx, rows, how, tag):
    # (the kind of file is told by its suffix, in whatever letter case the file system shows it)
    suffix = [how, how.upper(), how.capitalize()][(len(rows) + sum(len(r) for r in rows)) % 3]
    path = os.path.join(ctx.tmp, "cid_%s.%s" % (tag, suffix))
    if how == "csv":
        # every third CSV carries the byte order mark that "CSV UTF-8" exports of spreadsheet applications start with
        with open(path, "w", encoding="utf-8-sig" if len(rows) % 3 == 0 else "utf-8", newline="") as f:
            f.write(storage.delimited_text(rows))
    elif how == "ods":
        storage.write_ods(path, [rows], ("s", "colruns") + structure_features(rows))
    else:
        storage.write_xlsx(path, [rows])
    return path


def store_data(ctx, table, fmt):
    if fmt == "delimited":
        path = os.path.join(ctx.tmp, "data.csv")
        # every third file starts with the byte order mark of "CSV UTF-8" exports: part of the storage, not of the first cell
        with open(path, "w", encoding="utf-8-sig" if len(table) % 3 == 0 else "utf-8", newline="") as f:
            f.write(storage.delimited_text(table))
    elif fmt == "ods":
        path = os.path.join(ctx.tmp, "data.ods")
        storage.write_ods(path, [table], ("s", "colruns", "rowruns") + structure_features(table))
    else:
        path = os.path.join(ctx.tmp, "data.xlsx")
        storage.write_xlsx(path, [table])
    return path


def check_case(ctx, fields, checks, header, table):
    import cutplace
    from cutplace import errors

    case = {"fields": fields, "checks": checks, "header": header, "table": table}
    nontrivial = any(f["type"] in ("Decimal", "DateTime") for f in fields)
    outcomes = {}
    signatures = {}
    expected = None
    for fmt in FORMATS:
        model = RM.CidModel(fmt, fields, checks, header)
        if fmt == "delimited":
            # (UTF-8 under any of the names the runtime knows it by)
            model.encoding = ["utf-8", "UTF-8", "utf8", "UTF8", "utf_8", "U8"][(len(table) + len(fields) + header) % 6]
        rows = model.cid_rows()
        for row in rows:
            if row[0] == "F":
                row[2] = next(f.get("example", "") for f in fields if f["name"] == row[1])
        run = RM.expected_run(model, [list(r) for r in table])
        if run is None:
            ctx.unjudged("table containing a cell the field model does not judge")
            return
        want = [("row", list(i[1])) if i[0] == "row" else ("error",) for i in run["items"]]
        if any(w[0] == "error" for w in want):
            nontrivial = True
        if expected is None:
            expected = want
        data_path = store_data(ctx, table, fmt)
        for how in CID_STORAGES:
            cid_path = store_cid(ctx, rows, how, fmt)
            ctx.count("combinations")
            try:
                cid = cutplace.Cid(cid_path)
            except Exception as error:
                ctx.case(case, True)
                mod, fn = core.innermost_cutplace_frame(error)
                ctx.violation("C17:cid-load:%s-in-%s:%s@%s.%s" % (fmt, how, type(error).__name__, mod, fn), dict(case, format=fmt, cid_storage=how),
                              "a CID that loads from rows could not be loaded from its %s storage" % how, observed=error)
                return
            signatures[(fmt, how)] = c09.signature(cid)
            items = []
            try:
                for item in cutplace.rows(cid, data_path, on_error="yield"):
                    items.append(("error",) if isinstance(item, Exception) else ("row", list(item)))
                end = None
            except errors.CheckError as error:
                end = "CheckError"
            except Exception as error:
                ctx.case(case, True)
                mod, fn = core.innermost_cutplace_frame(error)
                ctx.violation("C17:read:%s-in-%s:%s@%s.%s" % (fmt, how, type(error).__name__, mod, fn), dict(case, format=fmt, cid_storage=how),
                              "reading the data failed in one storage combination", observed=error)
                return
            outcomes[(fmt, how)] = (items, end)
            os.remove(cid_path)
        os.remove(data_path)
    ctx.case(case, nontrivial)
    # (a) same Format, three storages of the CID -> same interface
    for fmt in FORMATS:
        ref = signatures[(fmt, "csv")]
        for how in ("ods", "xlsx"):
            ctx.count("interfaces.compared")
            if core.canonical(signatures[(fmt, how)]) != core.canonical(ref):
                diff = [k for k in ref if core.canonical(ref[k]) != core.canonical(signatures[(fmt, how)][k])]
                ctx.violation("C17:interface-differs:%s-vs-csv:%s" % (how, "+".join(diff)), dict(case, format=fmt),
                              "the same CID contents load into different interfaces depending on the storage of the CID", expected=ref, observed=signatures[(fmt, how)])
                return
    # (b) all nine combinations -> same verdicts and values
    ref_key = ("delimited", "csv")
    for key, value in outcomes.items():
        ctx.count("outcomes.compared")
        if value != outcomes[ref_key]:
            ctx.violation("C17:verdict-differs:%s-data-with-%s-cid" % key, dict(case, combination=list(key)),
                          "the same table gets different verdicts / values depending on the storage", expected=outcomes[ref_key], observed=value)
            return
    got = outcomes[ref_key][0]
    if got != expected:
        ctx.violation("C17:disagrees-with-row-model", case, "all storages agree with each other but not with the row model", expected=expected, observed=got)


def run(ctx):
    ctx.floor("outcomes.compared", 500)
    n = ctx.pick(400, 5000)
    for i in range(n):
        if not ctx.mine(i):
            continue
        rng = ctx.rng("case", i)
        check_case(ctx, *gen_case(rng))


def replay(ctx, case):
    check_case(ctx, case["fields"], case["checks"], case["header"], case["table"])
