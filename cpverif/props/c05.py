"""C05 Uniqueness and distinct-count checks are decided over the whole data set."""
import io
import itertools

from cpverif import gen, storage
from cpverif.models import rowmodel as RM

LEVEL = "exploration"
RULE = (
    "row sequences of 0-10 rows over key alphabets of 2-3 values per field (so duplicates occur at every pair of "
    "positions), 1-4 declared fields (in 30% of the cases one of them a Decimal field whose cells spell two numbers in two ways each), IsUnique key sets of 1-3 fields, DistinctCount with each of < <= == != >= > and "
    "thresholds 0-4 (a quarter of them with one or two more comparisons of the field joined by and / or), both declaration orders of the two checks, the three error modes, interleaved rows rejected for a "
    "field error or a wrong item count; thorough additionally enumerates all sequences of up to 5 rows over 5 row kinds. "
    "Every third case creates the readers of its three runs (one per error mode) up front on one CID and reads them one after the other. Observed through cutplace.Reader (rows, close, error.location, see_also_location; every second raise-mode run through cutplace.rows instead; a sixth of the cases judge the second run of a Reader that was read and closed before) and compared with M-checks. A "
    "case is (check configuration, row sequence, mode), distinct by digest, non-trivial when a duplicate key occurs or "
    "the distinct count is within 1 of the threshold."
)
ASSUMPTIONS = [
    "closing a run that raise mode aborted judges the rows that reached the checks up to and including the rejected row",
]
OPS = ["<", "<=", "==", "!=", ">=", ">"]
MODES = ["yield", "continue", "raise"]


def gen_case(rng):
    nfields = rng.randint(1, 4)
    alphabet = rng.choice([["a", "b"], ["a", "b", "c"], ["x", "y"], ["1", "2", "3"]])
    # free text as key: values that hold the item delimiter or a line break, so that ("a,", "b") and ("a", ",b") are two
    # keys and a value is what stands in the cell, not what a joined text of the row looks like
    free_text = rng.random() < 0.25
    if free_text:
        alphabet = rng.choice([["a", "a,", ",b", "b"], ["a", "a\nb", "b"], ["x", "x, y", "y", ", "], ["1", "1\n", "1,", ",1"]])
    fields = []
    may_be_empty = []
    numeric = rng.randrange(nfields) if rng.random() < 0.3 else None
    alphabets = []
    for i in range(nfields):
        if i == numeric:
            # a number field: the values of a key (and the distinct values) are the cells as they stand in the data, so
            # two spellings of one number are two values
            alphabets.append(["1.5", "1.50", "2", "2.0"])
            may_be_empty.append(False)
            fields.append({"name": "k%d" % i, "type": "Decimal", "empty": False, "length": "", "rule": ""})
            continue
        alphabets.append(alphabet)
        rule = ", ".join(alphabet)
        empty = rng.random() < 0.35
        may_be_empty.append(empty)
        if free_text:
            fields.append({"name": "k%d" % i, "type": "Text", "empty": empty, "length": "", "rule": ""})
            continue
        fields.append({"name": "k%d" % i, "type": "Choice", "empty": empty, "length": "", "rule": rule})
    checks = []
    nk = rng.randint(1, min(3, nfields))
    keys = sorted(rng.sample(range(nfields), nk))
    uniq = {"desc": "uniq", "type": "IsUnique", "fields": ["k%d" % i for i in keys]}
    dist = {"desc": "dist", "type": "DistinctCount", "field": "k%d" % rng.randrange(nfields), "op": rng.choice(OPS), "n": rng.randint(0, 4)}
    if rng.random() < 0.25:
        # several comparisons of the field joined by and / or ("k0 >= 1 and k0 <= 3"): each of them compares the count
        dist["more"] = [[rng.choice(["and", "or"]), rng.choice(OPS), rng.randint(0, 4)] for _ in range(rng.randint(1, 2))]
    shape = rng.random()
    if shape < 0.25:
        checks = [uniq]
    elif shape < 0.4:
        checks = [dist]
    elif shape < 0.7:
        checks = [uniq, dist]
    elif shape < 0.9:
        checks = [dist, uniq]
    else:
        k2 = sorted(rng.sample(range(nfields), rng.randint(1, min(2, nfields))))
        checks = [uniq, {"desc": "uniq2", "type": "IsUnique", "fields": ["k%d" % i for i in k2]}, dist]
    model = RM.CidModel("delimited", fields, checks)
    rows = []
    for _ in range(rng.randint(0, 10)):
        # the empty text is one more value of a field that may be empty (and counts as a key / distinct value)
        row = [rng.choice(alphabets[k] + [""]) if may_be_empty[k] else rng.choice(alphabets[k]) for k in range(nfields)]
        r = rng.random()
        if r < 0.12:
            row[rng.randrange(nfields)] = "BAD"
        elif r < 0.18:
            row = row + ["extra"]
        elif r < 0.22 and nfields > 1:
            row = row[:-1]
        rows.append(row)
    return model, rows


class Collector(object):
    """Stands in for ctx while an observation is compared with one of two models."""

    def __init__(self, ctx, forward_counts):
        self.ctx, self.forward, self.violations = ctx, forward_counts, []

    def count(self, name, n=1):
        if self.forward:
            self.ctx.count(name, n)

    def unjudged(self, zone):
        if self.forward:
            self.ctx.unjudged(zone)

    def violation(self, key, case, what, expected=None, observed=None):
        self.violations.append((key, case, what, expected, observed))


def readers_up_front(model, rows):
    """One CID, one Reader per mode, all created before the first of them reads: every data set is decided on its own,
    also when the readers of several data sets exist side by side and are read one after the other."""
    from cutplace import validio

    cid = gen.load_cid(model)
    return cid, {mode: validio.Reader(cid, io.StringIO(storage.delimited_text(rows), newline=""), on_error=mode) for mode in MODES}


def write_with_writer(cid, rows):
    """The rows handed to a validating Writer one by one: what it accepted, what it rejected, the verdict of close()."""
    from cutplace import errors, validio

    obs = gen.Observation()
    writer = validio.Writer(cid, io.StringIO(newline=""))
    try:
        for row in rows:
            try:
                writer.write_row(row)
                obs.items.append(("row", row))
            except errors.DataError as error:
                obs.items.append(("error", error, gen.snapshot(error)))
        obs.completed = True
    finally:
        try:
            writer.close()
        except errors.CutplaceError as error:
            obs.end_error = error
    return obs


def as_written(expected):
    """A Writer numbers the rows of its output: a rejected row is not written and the next row takes its number."""
    if expected is None:
        return None
    mapping, items, written = {}, [], 0
    for old, item in enumerate(expected["items"], 1):
        mapping[old] = written + 1
        if item[0] == "row":
            items.append(item)
            written += 1
        else:
            verdict = item[2]
            if verdict[1] == "check":
                verdict = tuple(verdict[:4]) + ((verdict[4][0], mapping[verdict[4][1]]),)
            items.append(("error", mapping[old], verdict))
    return dict(expected, items=items)


def check_case(ctx, model, rows, mode, up_front=None, through_rows=False, read_twice=False, through_writer=False):
    from cutplace import errors

    through_writer = through_writer and mode == "yield" and up_front is None
    through_rows = through_rows and mode == "raise" and up_front is None
    read_twice = read_twice and not through_rows and up_front is None and not through_writer
    case = {"cid": model.to_json(), "rows": rows, "mode": mode, "readers_created_up_front": up_front is not None, "through_cutplace_rows": through_rows, "read_twice": read_twice,
            "through_writer": through_writer}
    expected = RM.expected_run(model, rows)
    strict = False
    if expected is None:
        # a later row uses a key that was only seen in a row which a later-declared check rejected: by the statement
        # ("an earlier ACCEPTED row") it is no duplicate
        expected = RM.expected_run(model, rows, rollback=True)
        strict = True
        ctx.count("runs.with-key-of-a-rejected-row")
        if expected is None:
            ctx.unjudged("row the field model does not judge")
            return
    if through_writer:
        expected = as_written(expected)
    aborted = RM.expected_run(model, rows, rollback=strict, stop_at_first_rejection=True)
    expected["end_after_abort"] = aborted["state"].end_verdict() if aborted is not None else None
    try:
        cid = up_front[0] if up_front is not None else gen.load_cid(model)
    except errors.InterfaceError as error:
        ctx.case(case, True)
        ctx.violation("C05:cid-refused", case, "generated valid CID refused", observed=error)
        return
    source = io.StringIO(storage.delimited_text(rows), newline="")
    try:
        if up_front is not None:
            ctx.count("runs.reader-created-before-other-runs-on-the-cid")
        if through_writer:
            # the same rows handed to a validating Writer: the same rows are rejected, located at the same rows
            obs = write_with_writer(cid, rows)
            ctx.count("runs.through-a-validating-writer")
        elif through_rows:
            # cutplace.rows() closes its reader itself: the error that ends the iteration is the row's error, or - when
            # no row was rejected - the end-of-data verdict
            obs = gen.read_with_rows(cid, source, mode=mode)
            ctx.count("runs.through-cutplace.rows")
            if not any(e[0] == "error" for e in expected["items"]):
                obs.end_error, obs.raised = obs.raised, None
        elif read_twice:
            # one Reader, read and closed, then read and closed again (plain close(), no with block): the second run is
            # a run of its own and the one that is judged
            from cutplace import validio

            reader = validio.Reader(cid, source, on_error=mode)
            gen.read_with_reader(cid, source, mode=mode, reader=reader)
            source.seek(0)
            obs = gen.read_with_reader(cid, source, mode=mode, reader=reader)
            ctx.count("runs.second-run-of-one-reader")
        else:
            obs = gen.read_with_reader(cid, source, mode=mode, reader=up_front[1][mode] if up_front is not None else None)
    except Exception as error:
        ctx.case(case, True)
        ctx.violation("C05:crash:%s" % type(error).__name__, case, "reader failed with an internal error", observed=error)
        return
    dup = any(e[0] == "error" and e[2][1] == "check" for e in expected["items"])
    near = False
    for i, c in enumerate(model.checks):
        if c["type"] == "DistinctCount" and abs(len(expected["state"].distinct[i]) - c["n"]) <= 1:
            near = True
    ctx.case(case, dup or near)
    ctx.count("runs.%s" % mode)
    for item in obs.items:
        # "the error is located at the later row": also when the caller looks at it after having read on
        if item[0] == "error":
            ctx.count("errors.reinspected-after-the-run")
            now = gen.snapshot(item[1])
            if now != item[2]:
                ctx.violation("C05:error-changed-after-reading-on", case, "a reported error no longer names its row and the row of the first occurrence after the reader moved on",
                              expected=item[2], observed=now)
                return
    skip_end = through_rows and any(e[0] == "error" for e in expected["items"])  # (the verdict at the end is not handed out then)
    first = Collector(ctx, True)
    compare(first, errors, case, model, obs, expected, mode, skip_end)
    if first.violations and strict:
        second = Collector(ctx, False)
        sticky = RM.expected_run(model, rows, sticky=True)
        if through_writer:
            sticky = as_written(sticky)
        sticky_aborted = RM.expected_run(model, rows, sticky=True, stop_at_first_rejection=True)
        sticky["end_after_abort"] = sticky_aborted["state"].end_verdict()
        compare(second, errors, case, model, obs, sticky, mode, skip_end)
        if not second.violations:
            ctx.violation("C05:isunique:duplicate-of-rejected-row", case, "a row was rejected as duplicate of a row that a later-declared check had rejected (its key stays registered)",
                          expected=first.violations[0][3], observed=first.violations[0][4])
            return
    for v in first.violations:
        ctx.violation(v[0], v[1], v[2], expected=v[3], observed=v[4])


def compare(ctx, errors, case, model, obs, expected, mode, skip_end=False):
    exp_items = expected["items"]
    if mode == "continue":
        exp_items = [e for e in exp_items if e[0] == "row"]
    elif mode == "raise":
        first_err = next((k for k, e in enumerate(exp_items) if e[0] == "error"), None)
        if first_err is not None:
            exp_err = exp_items[first_err]
            exp_items = exp_items[:first_err]
        else:
            exp_err = None
    got = obs.items
    if mode == "raise" and exp_err is not None:
        if obs.raised is None:
            ctx.violation("C05:raise-mode-did-not-raise", case, "raise mode did not raise at the first rejected row", expected=list(exp_err[2]), observed=gen.describe_items(got))
            return
        got = got + [("error", obs.raised, gen.snapshot(obs.raised))]
        exp_items = exp_items + [exp_err]
    elif obs.raised is not None:
        ctx.violation("C05:unexpected-raise", case, "reading raised although no row error was expected to surface", expected="no exception", observed=obs.raised)
        return
    if len(got) != len(exp_items):
        ctx.violation("C05:item-count", case, "number of produced items differs", expected=[e[:2] for e in exp_items], observed=gen.describe_items(got))
        return
    for g, e in zip(got, exp_items):
        ctx.count("items.judged")
        if e[0] == "row":
            if g[0] != "row":
                kind = "C05:unique-row-rejected" if isinstance(g[1], errors.CheckError) else "C05:conforming-row-rejected"
                ctx.violation(kind, case, "row without an earlier accepted row of the same key was rejected", expected=e, observed=g[2])
                return
            continue
        rowno, verdict = e[1], e[2]
        if g[0] == "row":
            ctx.violation("C05:%s-accepted" % ("duplicate" if verdict[1] == "check" else "bad-row"), case,
                          "row that must be rejected (%s) was accepted" % verdict[1], expected=[rowno, list(verdict)], observed=g[1])
            return
        snap = g[2]
        if verdict[1] == "check":
            ctx.count("duplicates.judged")
            if not isinstance(g[1], errors.CheckError):
                ctx.violation("C05:duplicate-not-a-check-error", case, "duplicate reported with another error type", observed=snap)
                return
            if snap.get("line", -1) + 1 != rowno:
                ctx.violation("C05:duplicate-location", case, "duplicate is not located at the later row", expected=rowno, observed=snap)
                return
            if snap.get("see_line", -99) + 1 != verdict[4][1]:
                ctx.violation("C05:first-occurrence-location", case, "see-also location is not the row of the first occurrence", expected=verdict[4][1], observed=snap)
                return
        elif isinstance(g[1], errors.CheckError):
            ctx.violation("C05:field-error-as-check-error", case, "row rejected for a cell was reported by a check", observed=snap)
            return
    if skip_end:
        return
    # end-of-data verdict (complete passes only)
    if mode == "raise" and exp_err is not None:
        # a run aborted at its first rejection: closing it judges the rows that reached the checks until then
        ctx.count("end.judged-after-abort")
        expected = dict(expected, end=expected["end_after_abort"])
    ctx.count("end.judged")
    if expected["end"] is not None and obs.end_error is None:
        ctx.violation("C05:distinct-count-not-enforced", case, "close() did not fail although the distinct count violates the comparison",
                      expected="CheckError for check %d" % expected["end"], observed="no error")
    elif expected["end"] is None and obs.end_error is not None:
        ctx.violation("C05:distinct-count-false-failure", case, "close() failed although the distinct count satisfies the comparison",
                      expected="no error", observed=obs.end_error)
    elif obs.end_error is not None and not isinstance(obs.end_error, errors.CheckError):
        ctx.violation("C05:end-error-type", case, "end-of-data failure is not a CheckError", observed=obs.end_error)


def run(ctx):
    ctx.floor("items.judged", 1000)
    ctx.floor("duplicates.judged", 50)
    ctx.floor("end.judged", 300)
    n = ctx.pick(2500, 130000)
    for i in range(n):
        if not ctx.mine(i):
            continue
        rng = ctx.rng("case", i)
        model, rows = gen_case(rng)
        up_front = None
        if i % 3 == 0:
            try:
                up_front = readers_up_front(model, rows)
            except Exception:
                up_front = None  # a refused CID is reported by check_case
        for mode in MODES:
            check_case(ctx, model, rows, mode, up_front, through_rows=(i % 2 == 1), read_twice=(i % 6 == 2), through_writer=(i % 6 == 4))
    if ctx.tier == "thorough":
        kinds = [["a", "a"], ["a", "b"], ["b", "a"], ["b", "b"], ["a", "BAD"]]
        fields = [{"name": "k0", "type": "Choice", "empty": False, "length": "", "rule": "a, b"},
                  {"name": "k1", "type": "Choice", "empty": False, "length": "", "rule": "a, b"}]
        index = 0
        for length in range(0, 6):
            for seq in itertools.product(range(len(kinds)), repeat=length):
                index += 1
                if not ctx.mine(index):
                    continue
                op = OPS[index % 6]
                n_ = (index // 6) % 4
                uniq = {"desc": "uniq", "type": "IsUnique", "fields": ["k0"] if index % 2 else ["k0", "k1"]}
                dist = {"desc": "dist", "type": "DistinctCount", "field": "k1", "op": op, "n": n_}
                checks = [uniq, dist] if (index // 2) % 2 else [dist, uniq]
                model = RM.CidModel("delimited", fields, checks)
                check_case(ctx, model, [kinds[k] for k in seq], MODES[index % 3])
        ctx.exhaustive = True
        ctx.note("exhaustive part: all sequences of up to 5 rows over 5 row kinds (4 key/value combinations + a field-rejected row); check configuration and mode cycle with the sequence index")


def replay(ctx, case):
    model = RM.CidModel.from_json(case["cid"])
    if case.get("readers_created_up_front"):
        up_front = readers_up_front(model, case["rows"])
        for mode in MODES:
            check_case(ctx, model, case["rows"], mode, up_front)
        return
    check_case(ctx, model, case["rows"], case["mode"], through_rows=case.get("through_cutplace_rows", False), read_twice=case.get("read_twice", False), through_writer=case.get("through_writer", False))
