"""C09 CIDs are accepted iff structurally sound; rejections name the offending row."""
import copy

from cpverif import core, gen
from cpverif.models import fieldmodel as F
from cpverif.models import rowmodel as RM

LEVEL = "exploration"
RULE = (
    "base CIDs generated for all four formats with 1-6 fields of all eight types (rules from the C02 grammars, examples "
    "taken from the cells the field model accepts) and 0-3 checks; (a) meaning-preserving rewrites - comment rows and "
    "empty rows anywhere, cells beyond the parsed columns, case changes of row markers / Format value / property names / "
    "the X mark, surrounding blanks in the cells the loader strips, permuted property rows - must stay accepted and parse to "
    "the same interface (format settings, field names in order, per field class / flag / length / rule / example, check "
    "names / classes / rules; examples are kept as typed, blanks included), and the same rows added one by one through the API give the same fields and checks; (b) exactly one defect from a catalogue of ~46 structural defects (among them a blank in front of a listed value as example) applied at every "
    "applicable row must be refused with an InterfaceError whose text names that row (defects only detectable at "
    "completion are exempt from the row clause). A case is the CID text; distinct by digest; every rewrite or defect case "
    "is non-trivial."
)
ASSUMPTIONS = [
    "a field row after a check row, leading blanks in check rules / property names and non-boolean DistinctCount expressions are unjudged",
]
OPS = ["<", "<=", "==", "!=", ">=", ">"]


# ---------------------------------------------------------------------------------- base CIDs
def gen_base(rng):
    kind = rng.choice(["delimited", "delimited", "fixed", "excel", "ods"])
    dec, ths = rng.choice([(".", ""), (".", ","), (",", "."), (",", "")]) if kind in ("delimited", "fixed") else (".", "")
    nfields = rng.randint(1, 6)
    fields = []
    examples = []
    for i in range(nfields):
        decl, accept, reject = gen.gen_field(rng, kind, rng.choice(["f%d", "Field_%d", "x%d_y", "customer%d"]) % i, dec, ths)
        fields.append(decl)
        good = [c for c in accept if c != "" and c == c.strip()]
        examples.append(rng.choice(good) if good and rng.random() < 0.4 else "")
    if kind in ("delimited", "fixed") and rng.random() < 0.3:
        # few, small length texts shared by many CIDs of both text formats: an Integer field declared by its length only
        digits = rng.choice([1, 2, 3])
        decl = {"name": "len_only_%d" % nfields, "type": "Integer", "empty": False, "length": str(digits), "rule": ""}
        pool = [str(10 ** (digits - 1) if digits > 1 else 5), "9" * digits] + (["7", "4" * max(1, digits - 1)] if kind == "fixed" else ["-" + "1" * (digits - 1)] if digits > 1 else [])
        good = [c for c in pool if F.expected(decl, {"kind": kind, "dec": dec, "ths": ths, "allowed": None}, c)[0] == F.ACCEPT]
        fields.append(decl)
        examples.append(rng.choice(good) if good else "")
    checks = []
    names = [f["name"] for f in fields]
    for c in range(rng.choice([0, 1, 1, 2, 3])):
        if rng.random() < 0.6:
            k = rng.sample(names, rng.randint(1, min(3, nfields)))
            checks.append({"desc": "check %d" % c, "type": "IsUnique", "fields": k})
        else:
            checks.append({"desc": "check %d" % c, "type": "DistinctCount", "field": rng.choice(names), "op": rng.choice(OPS), "n": rng.randint(0, 9)})
    model = RM.CidModel(kind, fields, checks, header=rng.choice([0, 0, 1, 3]), dec=dec, ths=ths,
                        allowed_text=rng.choice([None, None, "32...", "32:126, 160...255"]),
                        line_delimiter=rng.choice([None, "lf", "crlf", "any"]) if kind in ("delimited", "fixed") else None,
                        sheet=rng.choice([None, 1, 2]) if kind in ("excel", "ods") else None)
    if rng.random() < 0.3:
        # the format under its other documented name, or in other letter cases
        model.format_spelling = rng.choice({"delimited": ["csv", "CSV", " Csv ", "DELIMITED"], "fixed": ["FIXED", "fixed "], "excel": ["excel", "EXCEL"], "ods": ["ods", "Ods"]}[kind])
    rows = model.cid_rows()
    if model.allowed_text:
        from cpverif.models import rangemodel as R

        fmt = dict(model.fmt, allowed=R.parse_int_range(model.allowed_text))
        model.fmt = fmt
        examples = [e if e and F.expected(f, fmt, e)[0] == F.ACCEPT else "" for e, f in zip(examples, fields)]
    k = 0
    for row in rows:
        if row[0] == "F":
            row[2] = examples[k]
            k += 1
    if kind == "delimited" and rng.random() < 0.5:
        rows.insert(1, ["D", "Item delimiter", rng.choice([";", "tab", "0x7c", '"|"'])])
        if rng.random() < 0.5:
            rows.insert(2, ["D", "Quote character", "'"])
            rows.insert(3, ["D", "Escape character", "\\"])
    return rows, model


def signature(cid):
    fmt = cid.data_format
    settings = {"format": fmt.format}
    for name in ("header", "encoding", "item_delimiter", "quote_character", "escape_character", "quoting", "skip_initial_space",
                 "line_delimiter", "decimal_separator", "thousands_separator", "sheet"):
        try:  # public properties only; a format that does not have the property raises on access
            settings[name] = getattr(fmt, name)
        except Exception:
            pass
    settings["allowed_characters"] = str(fmt.allowed_characters) if fmt.allowed_characters is not None else None
    fields = []
    for name, ff in zip(cid.field_names, cid.field_formats):
        fields.append([name, type(ff).__name__, ff.is_allowed_to_be_empty, str(ff.length), ff.rule, ff.example,
                       str(getattr(ff, "valid_range", None)) if hasattr(ff, "valid_range") else None])
    checks = [[name, type(cid.check_map[name]).__name__, cid.check_map[name].rule.strip()] for name in cid.check_names]
    return {"settings": settings, "fields": fields, "checks": checks}


def sibling(rows, model):
    """The CID with the same fields declared for the other text format (delimited <-> fixed), or None when the
    declarations cannot be carried over (a fixed CID needs one exact length per field)."""
    if model.kind not in ("delimited", "fixed"):
        return None
    other = "fixed" if model.kind == "delimited" else "delimited"
    fmt = dict(model.fmt, kind=other)
    out = []
    fields = iter(model.fields)
    for row in rows:
        row = list(row)
        if row[0] == "D":
            if row[1] == "Format":
                row[2] = other.capitalize()
            elif row[1] in ("Item delimiter", "Quote character", "Escape character") and other == "fixed":
                continue
        elif row[0] == "F":
            decl = dict(next(fields))
            if other == "fixed":
                if not decl["length"].strip().isdigit() or int(decl["length"]) < 1:
                    return None
            elif decl["type"] == "Constant":
                return None  # the width of a fixed Constant may exceed the constant; under delimited it is its exact length
            example = row[2]
            if example and F.expected(decl, fmt, example)[0] != F.ACCEPT:
                row[2] = ""
            if decl["type"] == "Integer" and decl["rule"].strip():
                return None  # rule and length have to be consistent in a format dependent way
        out.append(row)
    return out


def load(rows):
    from cutplace import interface

    cid = interface.Cid()
    cid.read("<c09>", [list(r) for r in rows])
    return cid


def load_through_api(rows):
    """The same rows handed to the Cid object one by one (docs/api.rst): add_data_format_row / add_field_format_row /
    add_check_row with the cells after the row marker."""
    from cutplace import interface

    cid = interface.Cid()
    for row in rows:
        marker = row[0].strip().lower() if row else ""
        if marker == "d":
            cid.add_data_format_row(list(row[1:]))
        elif marker == "f":
            cid.add_field_format_row(list(row[1:]))
        elif marker == "c":
            cid.add_check_row(list(row[1:]))
    return cid


# ---------------------------------------------------------------------------------- rewrites
def rewrite(rng, rows):
    rows = [list(r) for r in rows]
    applied = []
    choice = rng.sample(["comments", "trailing", "case", "blanks", "permute", "late-properties"], rng.randint(1, 3))
    if "late-properties" in choice:
        # reordered properties: every data format row but the Format row itself moves below the fields (above the checks)
        first = next(i for i, r in enumerate(rows) if r[0] == "D")
        moved = [r for i, r in enumerate(rows) if r[0] == "D" and i != first]
        kept = [r for i, r in enumerate(rows) if not (r[0] == "D" and i != first)]
        last_field = max(i for i, r in enumerate(kept) if r[0] == "F")
        rows = kept[: last_field + 1] + moved + kept[last_field + 1 :]
        applied.append("late-properties")
    if "permute" in choice:
        d_index = [i for i, r in enumerate(rows) if r[0] == "D"][1:]
        if len(d_index) >= 2:
            values = [rows[i] for i in d_index]
            rng.shuffle(values)
            for i, v in zip(d_index, values):
                rows[i] = v
            applied.append("permute")
    if "case" in choice:
        for r in rows:
            r[0] = rng.choice([r[0].lower(), r[0].upper()])
            if r[0].lower() == "d":
                r[1] = rng.choice([r[1].lower(), r[1].upper(), r[1].title(), r[1].replace(" ", "_")])
                if r[1].lower() == "format":
                    r[2] = rng.choice([r[2].lower(), r[2].upper(), r[2].title()])
            if r[0].lower() == "f" and r[3]:
                r[3] = rng.choice(["x", "X"])
        applied.append("case")
    if "blanks" in choice:
        for r in rows:
            pad = lambda s: " " * rng.randint(0, 2) + s + " " * rng.randint(0, 2)
            r[0] = pad(r[0])
            if r[0].strip().lower() == "f":
                r[1] = pad(r[1])
                r[3] = pad(r[3])
                r[5] = pad(r[5])
                r[6] = pad(r[6])
            if r[0].strip().lower() == "c":
                r[2] = pad(r[2])
                r[3] = pad(r[3])
            if r[0].strip().lower() == "d":
                r[1] = pad(r[1])
                r[2] = pad(r[2])
        applied.append("blanks")
    if "trailing" in choice:
        for r in rows:
            marker = r[0].strip().lower()
            width = {"d": 3, "f": 7, "c": 4}[marker]
            while len(r) < width:
                r.append("")
            if rng.random() < 0.6:
                r.extend(rng.choice([["note"], ["", "see above"], ["x", "y", "z"], ["1...5"], ["Integer", "X"]]))
        applied.append("trailing")
    if "comments" in choice:
        out = []
        for r in rows:
            while rng.random() < 0.3:
                out.append(rng.choice([[], [""], ["", "comment", "F", "x"], ["  ", "indented marker cell"], ["", "", "", "", "", "", "", "", "wide"]]))
            out.append(r)
        if rng.random() < 0.5:
            out.append(["", "trailing comment"])
        rows = out
        applied.append("comments")
    return rows, applied


# ---------------------------------------------------------------------------------- defects
def defects(rng, rows, model):
    """Yields (name, rows, defective_row_number | None, unjudged_reason | None)."""
    rows = [list(r) for r in rows]
    f_index = [i for i, r in enumerate(rows) if r[0] == "F"]
    c_index = [i for i, r in enumerate(rows) if r[0] == "C"]
    d_index = [i for i, r in enumerate(rows) if r[0] == "D"]
    kind = model.kind

    def variant(i, mutate):
        new = [list(r) for r in rows]
        mutate(new[i])
        return new

    def setcell(col, value):
        def m(r):
            r[col] = value
        return m

    # --- data format rows
    yield "no-format-row", [r for r in rows if r[0] != "D"], (f_index[0] + 1 - len(d_index)) if f_index else None, None
    yield "duplicate-format", rows[:1] + [list(rows[0])] + rows[1:], 2, None
    yield "duplicate-format-later", rows[: d_index[-1] + 1] + [["D", "Format", "Delimited"]] + rows[d_index[-1] + 1 :], d_index[-1] + 2, None
    for bad in ("", "xml", "delimitedx", "csv2"):
        yield "unknown-format:%s" % bad, variant(0, setcell(2, bad)), 1, None
    yield "property-before-format", [["D", "Header", "1"]] + rows, 1, None
    yield "field-before-format", [list(rows[f_index[0]])] + rows, 1, None
    yield "empty-property-name", rows[:1] + [["D", "", "1"]] + rows[1:], 2, None
    yield "unknown-property", rows[:1] + [["D", "No such property", "1"]] + rows[1:], 2, None
    inapplicable = {"delimited": ("Sheet", "1"), "fixed": ("Item delimiter", ";"), "excel": ("Line delimiter", "lf"), "ods": ("Quote character", "'")}[kind]
    yield "inapplicable-property", rows[:1] + [["D", inapplicable[0], inapplicable[1]]] + rows[1:], 2, None
    yield "broken-property-value", rows[:1] + [["D", "Header", "minus one"]] + rows[1:], 2, None
    yield "negative-header", rows[:1] + [["D", "Header", "-1"]] + rows[1:], 2, None
    if kind == "delimited":
        for prop, bad in (("Skip initial space", "maybe"), ("Quoting", "some"), ("Quote character", "ab"), ("Escape character", "x"), ("Item delimiter", "ab"), ("Item delimiter", "(,")):
            yield "broken-property-value:%s" % prop, rows[:1] + [["D", prop, bad]] + [r for r in rows[1:] if not (r[0] == "D" and r[1].lower() == prop.lower())], 2, None
    if kind in ("delimited", "fixed"):
        for prop, bad in (("Line delimiter", "newline"), ("Decimal separator", ";"), ("Thousands separator", "'"), ("Encoding", "no-such-encoding"), ("Allowed characters", "(32")):
            yield "broken-property-value:%s" % prop, rows[:1] + [["D", prop, bad]] + [r for r in rows[1:] if not (r[0] == "D" and r[1].lower() == prop.lower())], 2, None
    if kind in ("delimited", "fixed"):
        base = [r for r in rows if not (r[0] == "D" and r[1] in ("Decimal separator", "Thousands separator"))]
        # (two rows that contradict each other: the rejection names one of the two)
        yield "contradicting-separators", base[:1] + [["D", "Decimal separator", ","], ["D", "Thousands separator", ","]] + base[1:], (2, 3), None
        # (one row that contradicts a default)
        yield "contradicting-separators:default", base[:1] + [["D", "Thousands separator", "."]] + base[1:], 2, None
    if kind == "delimited":
        base = [r for r in rows if not (r[0] == "D" and r[1] in ("Item delimiter", "Quote character", "Escape character"))]
        yield "delimiter-equals-quote", base[:1] + [["D", "Item delimiter", "'"], ["D", "Quote character", "'"]] + base[1:], (2, 3), None
    # --- field rows (at every field row)
    for n, i in enumerate(f_index):
        for name, bad in (("empty", ""), ("blank", "  "), ("digit-first", "1abc"), ("underscore-first", "_abc"), ("non-ascii", "größe"), ("non-ascii-first", "ärger"), ("non-ascii-first-greek", "Ωmega"), ("non-ascii-only", "ß"), ("non-ascii-last", "cafe\u0301"), ("fullwidth-digit", "a１"),
                          ("with-blank", "first name"), ("with-hyphen", "first-name"), ("keyword", "class"), ("keyword2", "None"), ("with-dot", "a.b")):
            yield "field-name:%s" % name, variant(i, setcell(1, bad)), i + 1, None
        if n > 0:
            yield "duplicate-field-name", variant(i, setcell(1, rows[f_index[rng.randrange(n)]][1])), i + 1, None
        for bad in ("Y", "XX", "yes", "0"):
            yield "bad-empty-mark:%s" % bad, variant(i, setcell(3, bad)), i + 1, None
        for bad in ("NoSuchType", "integer field", "Int", "1nteger", "Text."):
            yield "unknown-type:%s" % bad, variant(i, setcell(5, bad)), i + 1, None
        for bad in ("(Text", "Text)", "'Text", "Text\"", "Te[xt"):
            yield "untokenizable-type", variant(i, setcell(5, bad)), i + 1, None
        ftype = rows[i][5]
        if kind != "fixed":
            for bad in ("abc", "1...x", "1 2", "...", ",", "1,,5", ",1", "1,", "1...5...", "1::5", "...1...", "1......5", "5...6, 1...10", "3, ...5", "3, 1...", "2...4, 0..."):
                yield "malformed-length", variant(i, setcell(4, bad)), i + 1, None
            for bad in ("2.5", "0.5...1.5", "1e1", "1...2.0"):
                # a length is a number of characters: fractions are malformed for every type
                yield "fractional-length:%s" % ftype, variant(i, setcell(4, bad)), i + 1, None
            for bad in ("-1", "-3...5", "...-1", "-3, ...5", "...-1, 5", "-3...-1, ...5", "7..., -2"):
                if ftype == "Constant":
                    continue  # the constant's own length check answers first, still at this row
                yield "negative-length:%s" % ftype, variant(i, setcell(4, bad)), i + 1, None
        else:
            yield "fixed-without-length", variant(i, setcell(4, "")), i + 1, None
            for bad in ("1...3", "2...", "...4", "1, 3", "...4, 5...", "...2, 3", "2, 3..."):
                yield "fixed-length-range:%s" % ftype, variant(i, setcell(4, bad)), i + 1, None
            for bad in ("0", "-2"):
                yield "fixed-length-below-one:%s" % ftype, variant(i, setcell(4, bad)), i + 1, None
            for bad in ("2.5", "1.5", "1e1"):
                yield "fractional-length:%s" % ftype, variant(i, setcell(4, bad)), i + 1, None
        bad_rules = {"Integer": ["abc", "1...x", "5...1", "1.5...2", "1,,5", "1...5...", "1::5", ",1", "5...6, 1...10", "3, ...5"], "Decimal": ["x", "1...y", "'a'", "1,,5", "1...5...", "1.5::2.5", "1_000...2_000", "1.0_1", "5.5...6, 1...10.5"], "Choice": ["a,,b", "a,", ",a", "a b"],
                     "Constant": ["a b", "a, b"]}.get(ftype, [])
        for bad in bad_rules:
            def m(r, bad=bad):
                r[6] = bad
                r[2] = ""
                if ftype == "Constant":
                    r[3] = ""
            yield "malformed-rule:%s" % ftype, variant(i, m), i + 1, None
        if ftype == "Integer" and kind != "fixed":
            def m(r):
                r[4], r[6], r[2] = "1", "10...99", ""
            yield "inconsistent-length-and-rule", variant(i, m), i + 1, None
        if ftype == "Constant":
            yield "constant-allowed-to-be-empty", variant(i, setcell(3, "X")), i + 1, None
        if ftype in ("Integer", "Decimal", "Choice", "Constant", "DateTime"):
            example = {"Integer": "12x", "Decimal": "1.2.3", "Choice": "\x00nope", "Constant": "\x00nope", "DateTime": "no date"}[ftype]
            decl = dict(model.fields[n])
            verdict = F.expected(decl, model.fmt, example)
            if verdict[0] == F.REJECT:
                yield "example-rejected-by-own-field:%s" % ftype, variant(i, setcell(2, example)), i + 1, None
        if ftype in ("Choice", "Constant") and kind != "fixed" and rows[i][2]:
            # an example is the cell as typed: a blank in front of a listed value is no listed value
            example = " " + rows[i][2]
            if F.expected(dict(model.fields[n]), model.fmt, example)[0] == F.REJECT:
                yield "example-rejected-by-own-field:blank-before-listed-value", variant(i, setcell(2, example)), i + 1, None
    # an example has to be accepted by its own field as the complete CID declares it: here the data format row that makes
    # the field refuse the example stands below the field
    if not any(r[0] == "D" and r[1].lower() == "allowed characters" for r in rows):
        for n, i in enumerate(f_index):
            if rows[i][5] == "Text" and rows[i][4] == "" and kind != "fixed":
                late = [list(r) for r in rows]
                for j in f_index:
                    late[j][2] = ""  # (only this field's example is at odds with the complete format)
                late[i][2] = "caf\u00e9"
                last_field = f_index[-1]
                late = late[: last_field + 1] + [["D", "Allowed characters", "32...126"]] + late[last_field + 1 :]
                yield "example-rejected-under-the-complete-format", late, i + 1, None
                break
    yield "no-fields-at-all", [r for r in rows if r[0] == "D"], None, None
    # --- check rows
    first_f = f_index[0]
    yield "check-before-any-field", rows[:first_f] + [["C", "early", "IsUnique", rows[first_f][1]]] + rows[first_f:], first_f + 1, None
    tail = len(rows)
    names = [rows[i][1] for i in f_index]
    extra = lambda row: (rows + [row], tail + 1, None)
    other_case_name = next((n.swapcase() for n in names if n.swapcase() != n and n.swapcase() not in names), "no_such_field")
    for name, row in (("empty-check-description", ["C", "", "IsUnique", names[0]]),
                      ("unknown-check-type", ["C", "new", "NoSuchCheck", names[0]]),
                      ("unknown-check-type-lowercase", ["C", "new", "isunique", names[0]]),
                      ("check-without-type", ["C", "new", "", names[0]]),
                      ("undeclared-field-in-isunique", ["C", "new", "IsUnique", "no_such_field"]),
                      ("undeclared-field-in-isunique-list", ["C", "new", "IsUnique", names[0] + ", no_such_field"]),
                      # (field names are case sensitive: the declared name in another letter case is another, undeclared name)
                      ("undeclared-field-in-isunique-other-case", ["C", "new", "IsUnique", other_case_name]),
                      ("undeclared-field-in-distinctcount-other-case", ["C", "new", "DistinctCount", other_case_name + " < 3"]),
                      ("undeclared-field-in-distinctcount", ["C", "new", "DistinctCount", "no_such_field < 3"]),
                      ("undeclared-field-in-distinctcount-after-or", ["C", "new", "DistinctCount", names[0] + " < 1 or no_such_field"]),
                      ("undeclared-field-in-distinctcount-after-and", ["C", "new", "DistinctCount", names[0] + " < 0 and no_such_field > 1"]),
                      ("undeclared-field-in-distinctcount-conditional", ["C", "new", "DistinctCount", names[0] + " < 9 if True else no_such_field"]),
                      ("undeclared-field-in-distinctcount-dunder", ["C", "new", "DistinctCount", names[0] + " == 0 or __dict__ == 1"]),
                      ("undeclared-field-in-distinctcount-dunder", ["C", "new", "DistinctCount", names[0] + " == 0 or __init__"]),
                      ("isunique-empty-rule", ["C", "new", "IsUnique", ""]),
                      ("isunique-untokenizable-rule", ["C", "new", "IsUnique", "(" + names[0]]),
                      ("isunique-untokenizable-rule", ["C", "new", "IsUnique", names[0] + ", '" + names[-1]]),
                      ("distinctcount-untokenizable-rule", ["C", "new", "DistinctCount", names[0] + " < (3"]),
                      ("distinctcount-untokenizable-rule", ["C", "new", "DistinctCount", names[0] + " < 0x"]),
                      ("distinctcount-untokenizable-rule", ["C", "new", "DistinctCount", names[0] + " < '3"]),
                      ("isunique-double-comma", ["C", "new", "IsUnique", names[0] + ",," + names[-1]]),
                      ("isunique-missing-comma", ["C", "new", "IsUnique", names[0] + " " + names[-1]]),
                      ("isunique-duplicate-field", ["C", "new", "IsUnique", names[0] + ", " + names[0]]),
                      ("distinctcount-empty-rule", ["C", "new", "DistinctCount", ""]),
                      ("distinctcount-broken-expression", ["C", "new", "DistinctCount", names[0] + " >"]),
                      ("distinctcount-number-first", ["C", "new", "DistinctCount", "3 < " + names[0]])):
        r, line, why = extra(row)
        yield name, r, line, why
    if c_index:
        # every check follows the fields: no field may be declared once a check has been
        late = ["F", "late_field", "", "", "3" if kind == "fixed" else "", "Text", ""]
        yield "field-after-check", rows + [late], len(rows) + 1, None
    if len(f_index) >= 2:
        k = f_index[1]
        yield "check-between-fields", rows[:k] + [["C", "between", "IsUnique", names[0]]] + rows[k:], None, None
    if c_index:
        yield "duplicate-check-description", rows + [["C", rows[c_index[0]][1], "IsUnique", names[0]]], tail + 1, None
    for bad in ("X", "field", "FF", "1", "#"):
        pos = rng.randrange(1, len(rows) + 1)
        yield "unknown-row-marker:%s" % bad, rows[:pos] + [[bad, "whatever", "x"]] + rows[pos:], pos + 1, None


# ---------------------------------------------------------------------------------- checks
def check_accept(ctx, rows, what, base_signature=None, base_rows=None):
    from cutplace import errors

    case = {"cid_rows": rows, "expect": "accepted", "what": what}
    ctx.case(case, what != "base")
    ctx.count("accept.judged")
    try:
        cid = load(rows)
    except errors.InterfaceError as error:
        ctx.violation("C09:sound-cid-refused:%s" % what.split(":")[0], case, "structurally sound CID (%s) was refused" % what, expected="accepted", observed=error)
        return None
    except Exception as error:
        mod, fn = core.innermost_cutplace_frame(error)
        ctx.violation("C09:sound-cid-crash:%s@%s.%s" % (type(error).__name__, mod, fn), case, "structurally sound CID ended in an internal error", observed=error)
        return None
    sig = signature(cid)
    if base_signature is not None and core.canonical(sig) != core.canonical(base_signature):
        diff = [k for k in sig if core.canonical(sig[k]) != core.canonical(base_signature[k])]
        ctx.violation("C09:rewrite-changes-interface:%s:%s" % (what, "+".join(diff)), dict(case, base_rows=base_rows),
                      "meaning-preserving rewrite parsed to a different interface", expected=base_signature, observed=sig)
    return sig


def check_reject(ctx, name, rows, line):
    from cutplace import errors

    case = {"cid_rows": rows, "expect": "refused at row %s" % (line,), "defect": name}
    ctx.case(case, True)
    ctx.count("reject.judged")
    family = name.split(":")[0]
    try:
        load(rows)
    except errors.InterfaceError as error:
        text = str(error)
        if line is not None:
            ctx.count("reject.row-judged")
            lines = line if isinstance(line, tuple) else (line,)
            if not any("R%dC" % one in text or "(R%d" % one in text for one in lines):
                ctx.violation("C09:rejection-does-not-name-row:%s" % name, case, "rejection text does not name the offending row",
                              expected=" or ".join("R%d" % one for one in lines), observed=text)
        return
    except errors.CutplaceError as error:
        ctx.violation("C09:rejected-with-non-interface-error:%s:%s" % (name, type(error).__name__), case,
                      "defective CID was rejected with another error than an interface error", expected="InterfaceError naming row %s" % (line,), observed=error)
        return
    except Exception as error:
        mod, fn = core.innermost_cutplace_frame(error)
        ctx.violation("C09:defect-crash:%s:%s@%s.%s" % (family, type(error).__name__, mod, fn), case, "defective CID ended in an internal error", expected="InterfaceError", observed=error)
        return
    ctx.violation("C09:defective-cid-accepted:%s" % name, case, "CID with a structural defect (%s) was accepted" % name, expected="InterfaceError", observed="accepted")


def run(ctx):
    ctx.floor("accept.judged", 300)
    ctx.floor("reject.row-judged", 1000)
    n = ctx.pick(160, 5000)
    for i in range(n):
        if not ctx.mine(i):
            continue
        rng = ctx.rng("cid", i)
        rows, model = gen_base(rng)
        base_sig = check_accept(ctx, rows, "base")
        if base_sig is None:
            continue
        # the base interface itself: fields and checks as declared, in declaration order
        declared = [[f["name"], f["type"] + "FieldFormat", bool(f["empty"])] for f in model.fields]
        observed = [f[:3] for f in base_sig["fields"]]
        declared_checks = [[c["desc"], c["type"] + "Check"] for c in model.checks]
        observed_checks = [c[:2] for c in base_sig["checks"]]
        ctx.count("base-interface.judged")
        if declared != observed or declared_checks != observed_checks or base_sig["settings"].get("header") != model.header:
            ctx.violation("C09:parsed-interface-differs-from-declaration", {"cid_rows": rows, "expect": "accepted", "what": "base"},
                          "fields / checks / header of the loaded CID differ from what the rows declare (order preserved?)",
                          expected=[declared, declared_checks, model.header], observed=[observed, observed_checks, base_sig["settings"].get("header")])
            continue
        # the same rows handed over through the API: the same fields (with their examples) and checks
        ctx.count("api-built-cids")
        try:
            api_sig = signature(load_through_api(rows))
        except Exception as error:
            ctx.violation("C09:sound-cid-refused:through-the-api", {"cid_rows": rows, "expect": "accepted", "what": "through-the-api"}, "rows that Cid.read accepts were refused when added one by one", expected="accepted", observed=error)
            continue
        if core.canonical(api_sig["fields"]) != core.canonical(base_sig["fields"]) or core.canonical(api_sig["checks"]) != core.canonical(base_sig["checks"]):
            ctx.violation("C09:api-built-cid-differs", {"cid_rows": rows, "expect": "accepted", "what": "through-the-api"}, "the same rows added one by one give other fields / examples / checks than Cid.read",
                          expected=[base_sig["fields"], base_sig["checks"]], observed=[api_sig["fields"], api_sig["checks"]])
            continue
        # the same field declarations under the other text format, loaded in the same process: what a declaration means
        # must not depend on declarations seen earlier under another format
        sib = sibling(rows, model)
        if sib is not None:
            ctx.count("sibling-format-cids")
            check_accept(ctx, sib, "sibling-format")
        # a DistinctCount rule is a Python expression over the counted field ("any comparison operator or mathematical
        # expression"): rules naming only that field stay sound however often they name it
        counted = model.fields[rng.randrange(len(model.fields))]["name"]
        for rule in ("%s >= 0 and %s <= 99" % (counted, counted), "%s < 5 or %s > 7 or %s == 6" % (counted, counted, counted), "%s - 3 < 99 and abs(%s) >= 0" % (counted, counted),
                     "%s in [n * n for n in range(12)]" % counted, "%s <= sum(1 for step in range(50))" % counted, "%s < (lambda limit: limit * 2)(40)" % counted):
            if not model.checks or rng.random() < 0.5:
                check_accept(ctx, rows + [["C", "expression over the count", "DistinctCount", rule]], "distinctcount-expression")
        # the always-empty filler column of the documentation (Constant, may be empty, no rule), in every format
        last_field = max(i for i, r in enumerate(rows) if r[0] == "F")
        filler = ["F", "filler_column", "", "X", "3" if model.kind == "fixed" else "", "Constant", ""]
        check_accept(ctx, rows[: last_field + 1] + [filler] + rows[last_field + 1 :], "always-empty-constant")
        # two fields whose names differ in their letter case only: two names
        first_name = rows[min(i for i, r in enumerate(rows) if r[0] == "F")][1]
        other_case = first_name.swapcase()
        if other_case != first_name and other_case.lower() not in [r[1] for r in rows if r[0] == "F"] and other_case not in [r[1] for r in rows if r[0] == "F"]:
            twin = ["F", other_case, "", "X", "3" if model.kind == "fixed" else "", "Text", ""]
            check_accept(ctx, rows[: last_field + 1] + [twin] + rows[last_field + 1 :], "field-names-that-differ-in-case-only")
        # a free-text example with blanks around it: accepted, and kept as typed
        if model.kind != "fixed" and not any(r[0] == "D" and r[1].lower() == "allowed characters" for r in rows):
            spaced = rows[: last_field + 1] + [["F", "free_text_column", " x ", "", "3", "Text", ""]] + rows[last_field + 1 :]
            spaced_sig = check_accept(ctx, spaced, "example-with-blanks-around-it")
            if spaced_sig is not None:
                kept = [f[5] for f in spaced_sig["fields"] if f[0] == "free_text_column"]
                if kept != [" x "]:
                    ctx.violation("C09:example-not-kept-as-typed", {"cid_rows": spaced, "expect": "accepted", "what": "example-with-blanks-around-it"},
                                  "the example of a field differs from the cell of the CID", expected=[" x "], observed=kept)
        for _ in range(4):
            rewritten, applied = rewrite(rng, rows)
            check_accept(ctx, rewritten, "rewrite:" + "+".join(sorted(applied)), base_sig, rows)
        for name, bad_rows, line, why in defects(rng, rows, model):
            if why:
                ctx.unjudged(why)
                continue
            if line is not None and rng.random() < 0.5:
                # comment and empty rows in front of the defective row count as rows
                pos = rng.randrange(0, min(line) if isinstance(line, tuple) else line)
                filler = rng.choice([[[]], [["", "comment"]], [[], ["", "comment"]], [[""], [], []]])
                bad_rows = bad_rows[:pos] + filler + bad_rows[pos:]
                line = tuple(one + len(filler) for one in line) if isinstance(line, tuple) else line + len(filler)
            check_reject(ctx, name, bad_rows, line)
            if name.startswith("example-rejected-by-own-field") or name == "field-after-check":
                # ... and when the rows are added one by one through the API, where the example is judged at once
                ctx.count("reject.through-the-api")
                from cutplace import errors

                try:
                    load_through_api(bad_rows)
                    ctx.violation("C09:defective-cid-accepted:%s:through-the-api" % name, {"cid_rows": bad_rows, "expect": "refused at row %s" % (line,), "defect": name + ":through-the-api"},
                                  "a defect that Cid.read refuses (%s) was taken when the rows were added one by one" % name, expected="InterfaceError", observed="accepted")
                except errors.InterfaceError:
                    pass
                except Exception as error:
                    mod, fn = core.innermost_cutplace_frame(error)
                    ctx.violation("C09:crash:%s@%s.%s" % (type(error).__name__, mod, fn), {"cid_rows": bad_rows, "expect": "refused at row %s" % (line,), "defect": name + ":through-the-api"},
                                  "adding the rows one by one ended in an internal error", observed=error)


def replay(ctx, case):
    if case["expect"] == "accepted":
        base = None
        if case.get("base_rows"):
            base = signature(load(case["base_rows"]))
        check_accept(ctx, case["cid_rows"], case.get("what", "replay"), base, case.get("base_rows"))
    else:
        line = case["expect"].split()[-1]
        check_reject(ctx, case["defect"], case["cid_rows"], None if line == "None" else int(line))
