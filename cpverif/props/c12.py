"""C12 Delimited data round-trips through write and read for every accepted format."""
import io
import itertools
import random

LEVEL = "exploration"
RULE = (
    "every combination of 18 item delimiters (, ; tab | blank : ' \" \\ a 1 # ~ ae CR LF FF euro) x the 20 permitted quote characters x "
    "2 escape characters x 2 quoting modes x 4 line delimiters is offered to Cid.read (its property rows in an order of their own per format, the escape character left undeclared for half of the formats that ask for the default); for each accepted format tables "
    "of 0-5 rows x 1-4 columns over an alphabet made of that format's delimiter, quote, escape, blank, LF, CR, CRLF, the "
    "empty string and two letters (plus, for every 97th format, cells of 131073-200001 characters) are written with DelimitedRowWriter and read back with delimited_rows (through streams and, for a third of the formats, through real files), and (every 4th "
    "table) written with cutplace.Writer and read with cutplace.rows under an all-Text CID. The oracle is the round trip "
    "itself (identical table). A case is (format tuple, table), distinct by digest, non-trivial when the table contains a "
    "configured special character. Formats refused by the loader are counted, not judged (C11 owns them)."
)
ASSUMPTIONS = ["skip initial space is left off, as the property states"]

DELIMITERS = [",", ";", "\t", "|", " ", ":", "'", '"', "\\", "a", "1", "#", "~", "ä", "\r", "\n", "\x0c", "€"]
QUOTES = sorted("!\"#$%&'*+-/:;=?\\^_`~")
ESCAPES = ['"', "\\"]
QUOTINGS = ["minimal", "all"]
LINE_DELIMITERS = ["lf", "cr", "crlf", "any"]


class OddlyNamedStream(io.StringIO):
    def __init__(self, text, name):
        super().__init__(text, newline="")
        self.name = name


def spell_delimiter(d):
    if d == "\t":
        return "tab"
    if d in "\r\n\x0c":
        return {"\r": "cr", "\n": "lf", "\x0c": "ff"}[d]
    if d == " ":
        return '" "'
    if d.isdigit():
        return str(ord(d))
    return d


def cid_rows(fmt, ncols):
    d, q, e, quoting, ld = fmt
    properties = [["D", "Encoding", "utf-8"], ["D", "Item delimiter", spell_delimiter(d)], ["D", "Quote character", q], ["D", "Escape character", e],
                  ["D", "Quoting", quoting], ["D", "Line delimiter", ld]]
    # the property rows in an order of their own for every format (what a format means does not depend on it), and the
    # escape character left to its default where the default is what the format asks for
    order = random.Random(repr(fmt))
    if e == '"' and order.random() < 0.5:
        properties = [p for p in properties if p[1] != "Escape character"]
    order.shuffle(properties)
    rows = [["D", "Format", "Delimited"]] + properties
    for i in range(ncols):
        rows.append(["F", "c%d" % i, "", "X", "", "Text", ""])
    return rows


def gen_table(rng, fmt):
    d, q, e = fmt[0], fmt[1], fmt[2]
    alphabet = [d, q, e, " ", "\n", "\r", "\r\n", "", "x", "y"]
    ncols = rng.randint(1, 4)
    table = []
    for _ in range(rng.randint(0, 5)):
        row = []
        for _ in range(ncols):
            row.append("".join(rng.choice(alphabet) for _ in range(rng.choice([0, 1, 1, 2, 3, 5]))))
        table.append(row)
    return ncols, table


def check(ctx, fmt, ncols, table, via_validating_api, via_file=False, label=None):
    import cutplace
    from cutplace import errors, interface, rowio

    case = {"format": list(fmt), "ncols": ncols, "table": table if label is None else label, "api": "Writer/rows" if via_validating_api else ("rowio-file" if via_file else "rowio")}
    cid = interface.Cid()
    try:
        cid.read("<c12>", cid_rows(fmt, ncols))
    except errors.InterfaceError:
        ctx.count("formats.refused-by-loader")
        return False
    specials = set(fmt[:3]) | {"\n", "\r", " "}
    ctx.case(case, any(ch in specials for row in table for cell in row for ch in cell))
    ctx.count("roundtrips")
    data_format = cid.data_format
    try:
        if via_validating_api:
            out = io.StringIO(newline="")
            with cutplace.Writer(cid, out) as writer:
                writer.write_rows(table)
                text = out.getvalue()
            cid2 = interface.Cid()
            cid2.read("<c12>", cid_rows(fmt, ncols))
            back = list(cutplace.rows(cid2, io.StringIO(text, newline="")))
        elif via_file:
            import os

            path = os.path.join(ctx.tmp, "roundtrip.csv")
            writer = rowio.DelimitedRowWriter(path, data_format)
            writer.write_rows(table)
            writer.close()
            with open(path, encoding="utf-8", newline="") as f:
                text = f.read()
            back = list(rowio.delimited_rows(path, data_format))
            ctx.count("roundtrips.via-file")
        else:
            # (every other time through streams that carry an odd 'name', like spooled temporary files or open(fd) do)
            odd = len(table) % 2 == 1
            out = OddlyNamedStream("", [None, "", 0, 3][len(table) % 4]) if odd else io.StringIO(newline="")
            writer = rowio.DelimitedRowWriter(out, data_format)
            writer.write_rows(table)
            text = out.getvalue()
            back = list(rowio.delimited_rows(OddlyNamedStream(text, None) if odd else io.StringIO(text, newline=""), data_format))
            if odd:
                ctx.count("roundtrips.via-oddly-named-streams")
    except Exception as error:
        key = "C12:roundtrip-error:%s" % type(error).__name__
        if label:
            key += ":" + label
        if fmt[0] == fmt[2]:
            key = "C12:delimiter-equals-escape"
        ctx.violation(key, case, "writing and reading back failed", expected=table if label is None else label, observed=error)
        return True
    if back != table:
        key = "C12:roundtrip-differs"
        if fmt[0] == fmt[2]:
            key = "C12:delimiter-equals-escape"
        ctx.violation(key, case, "table read back differs from the table written", expected=table if label is None else label,
                      observed={"text": text, "back": back} if label is None else {"cell lengths": [[len(c) for c in r] for r in back]})
    return True


def run(ctx):
    # first thing in every worker process, before any file has been read: a very long cell through streams (what the csv
    # module may read is a setting of the whole process)
    check(ctx, (",", '"', '"', "minimal", "any"), 2, [["x" * 131073, "y"], ["z", "w" * 140000]], via_validating_api=False, via_file=False, label="very-long-cells-first-thing")
    check(ctx, (";", "'", "\\", "all", "lf"), 2, [["x" * 131073, "y"]], via_validating_api=True, label="very-long-cells-first-thing")
    ctx.floor("roundtrips", 1000)
    per_format = ctx.pick(2, 60)
    formats = list(itertools.product(DELIMITERS, QUOTES, ESCAPES, QUOTINGS, LINE_DELIMITERS))
    for index, fmt in enumerate(formats):
        if not ctx.mine(index):
            continue
        rng = ctx.rng("fmt", index)
        ctx.count("formats.offered")
        if index % 97 == 0:
            # a few very long cells (beyond the 131072 characters Python's csv module reads by default)
            big = [["x" * 131073, "y"], [fmt[1] * 70000, "z" * 200000 + "\n"]]
            ctx.count("tables.with-very-long-cells")
            if not check(ctx, fmt, 2, big, via_validating_api=False, via_file=(index % 2 == 0), label="very-long-cells"):
                continue
        for t in range(per_format):
            ncols, table = gen_table(rng, fmt)
            if not check(ctx, fmt, ncols, table, via_validating_api=(t % 4 == 1), via_file=(t % 4 == 0 and index % 3 == 0)):
                break
        else:
            ctx.count("formats.accepted")


def replay(ctx, case):
    if case["table"] == "very-long-cells-first-thing":
        check(ctx, tuple(case["format"]), 2, [["x" * 131073, "y"], ["z", "w" * 140000]], case["api"] == "Writer/rows", False, label="very-long-cells-first-thing")
        return
    if case["table"] == "very-long-cells":
        fmt = tuple(case["format"])
        check(ctx, fmt, 2, [["x" * 131073, "y"], [fmt[1] * 70000, "z" * 200000 + "\n"]], False, case["api"] == "rowio-file", label="very-long-cells")
        return
    check(ctx, tuple(case["format"]), case["ncols"], case["table"], case["api"] == "Writer/rows", case["api"] == "rowio-file")
