"""C13 Fixed-width reading is lossless and aligned (rowio.fixed_rows)."""
import io
import itertools
import os

LEVEL = "fault_enumeration"
REACH = True
RULE = (
    "exhaustive: every string up to length L over {a, b, CR, LF} (L = 6 quick, 9 thorough) x all 39 width lists with 1-3 "
    "fields of width 1-3 x the five line-delimiter settings (LF, CR, CRLF, any, none), read with "
    "fixed_rows(io.StringIO(text, newline='')). Oracle per case: soundness - no exception other than DataFormatError, every "
    "item has its declared width, and the input can be rebuilt from the rows by inserting delimiters the setting permits "
    "(final one optional); completeness - inputs that are records of non-delimiter characters joined by permitted "
    "delimiters are accepted and cut exactly by the widths. The same strings up to length 5 (thorough: 6) are read through cutplace.Reader (its three error modes in turn) from a character stream under a CID that declares the widths and the line delimiter. Plus histories: a read abandoned after 1-2 rows (generator closed, dropped or kept) followed by a complete read of another well-formed input. Plus the same texts from streams whose name attribute is None, empty, a number or bytes (spooled temporary files, open(fd)), through fixed_rows and cutplace.rows. Plus random well-formed files of 5-40 records with one "
    "character deleted / inserted / replaced at every offset, read from streams and from real files (utf-8, cp1252). "
    "Cases are distinct by construction (enumeration); all non-empty inputs count as non-trivial."
)
ASSUMPTIONS = ["acceptance of inputs whose records themselves contain CR/LF is not judged (soundness still is)"]

ALPHABET = "ab\r\n"
SETTINGS = ["\n", "\r", "\r\n", "any", None]


def width_lists():
    out = []
    for n in (1, 2, 3):
        out.extend(itertools.product((1, 2, 3), repeat=n))
    return out


def permitted(setting):
    if setting is None:
        return ()
    if setting == "any":
        return ("\r\n", "\r", "\n")
    return (setting,)


def rebuilds(text, rows, widths, setting):
    """Can text be rebuilt from rows by inserting permitted delimiters (last one optional)?"""
    records = []
    for row in rows:
        if len(row) != len(widths):
            return False
        for item, w in zip(row, widths):
            if not isinstance(item, str) or len(item) != w:
                return False
        records.append("".join(row))
    delims = permitted(setting)

    def walk(index, pos):
        if index == len(records):
            return pos == len(text)
        rec = records[index]
        if not text.startswith(rec, pos):
            return False
        pos += len(rec)
        last = index == len(records) - 1
        if setting is None:
            return walk(index + 1, pos)
        if last and pos == len(text):
            return True
        for d in delims:
            if text.startswith(d, pos) and walk(index + 1, pos + len(d)):
                return True
        return False

    return walk(0, 0)


def wellformed_records(text, total, setting):
    """Records (strings of length `total` without CR/LF) when text is well-formed in the unambiguous sense, else None."""
    records = []
    pos = 0
    n = len(text)
    if n == 0:
        return records
    delims = permitted(setting)
    while True:
        rec = text[pos : pos + total]
        if len(rec) != total or "\r" in rec or "\n" in rec:
            return None
        records.append(rec)
        pos += total
        if pos == n:
            return records
        if setting is None:
            continue
        for d in delims:
            if text.startswith(d, pos):
                pos += len(d)
                break
        else:
            return None
        if pos == n:
            return records


def judge(ctx, fixed_rows, errors, text, widths, setting, fields, source=None, tag="sweep", suffix=""):
    try:
        rows = list(fixed_rows(source if source is not None else io.StringIO(text, newline=""), "utf-8", fields, setting if setting is not None else None))
        error = None
    except errors.DataError as e:
        if not isinstance(e, errors.DataFormatError):
            case = {"text": text, "widths": list(widths), "setting": setting}
            ctx.violation("C13:row-rejected" + suffix, case, "a row of free text of the declared widths was rejected", expected="rows or DataFormatError", observed=e)
            return
        rows, error = None, e
        try:
            str(e)
        except Exception as e2:  # noqa
            case = {"text": text, "widths": list(widths), "setting": setting, "source": repr(getattr(source, "name", None))}
            ctx.violation("C13:error-not-printable:%s%s" % (type(e2).__name__, suffix), case, "the data-format error cannot be turned into text", observed=e2)
            return
    except Exception as e:  # noqa
        case = {"text": text, "widths": list(widths), "setting": setting}
        ctx.violation("C13:escape:%s%s" % (type(e).__name__, suffix), case, "fixed_rows failed with something else than a data-format error", expected="rows or DataFormatError", observed=e)
        return
    total = sum(widths)
    records = wellformed_records(text, total, setting)
    if error is None and any(isinstance(row, Exception) for row in rows):
        # (through the validating Reader: its fields are free text, so no row is ever rejected)
        case = {"text": text, "widths": list(widths), "setting": setting}
        ctx.violation("C13:row-rejected" + suffix, case, "a row of free text of the declared widths was rejected", expected="rows or DataFormatError",
                      observed=[r for r in rows if isinstance(r, Exception)][0])
        return
    if error is None:
        if not rebuilds(text, rows, widths, setting):
            case = {"text": text, "widths": list(widths), "setting": setting}
            ctx.violation("C13:not-lossless" + suffix, case, "returned rows do not reproduce the input with permitted delimiters (or an item has the wrong width)",
                          expected="rows rebuilding the input", observed=rows)
            return
        if records is not None:
            want = []
            for rec in records:
                row, p = [], 0
                for w in widths:
                    row.append(rec[p : p + w])
                    p += w
                want.append(row)
            if rows != want:
                case = {"text": text, "widths": list(widths), "setting": setting}
                ctx.violation("C13:misaligned" + suffix, case, "well-formed input was cut differently from the declared widths", expected=want, observed=rows)
    elif records is not None:
        case = {"text": text, "widths": list(widths), "setting": setting}
        ctx.violation("C13:wellformed-refused" + suffix, case, "well-formed input was refused", expected="rows", observed=error)


READER_CIDS = {}


def through_reader(source, encoding, fields, setting):
    """Same signature as rowio.fixed_rows, but the stream is read by cutplace.Reader under a CID that declares these
    widths and this line delimiter (free text that must not be empty - the sweep's alphabet has no blank, and an item of line breaks only is no empty item): what is stated about
    fixed-width input holds for the validating API as well."""
    import cutplace
    from cutplace import interface

    key = (tuple(fields), setting)
    cid = READER_CIDS.get(key)
    if cid is None:
        cid = interface.Cid()
        name = {"\n": "LF", "\r": "CR", "\r\n": "CRLF", "any": "Any", None: "None"}[setting]
        if len(fields) >= 2 and len(READER_CIDS) % 2 == 1:
            # a CID that grows through the API while it is in use: declared with its first field, read with, and then
            # given the other fields one by one - the widths that count are the ones declared when the data are read
            cid.read("<c13>", [["D", "Format", "Fixed"], ["D", "Line delimiter", name], ["F", fields[0][0], "", "", str(fields[0][1]), "Text", ""]])
            for n, w in fields[1:]:
                try:
                    list(cutplace.Reader(cid, io.StringIO("a" * sum(x[1] for x in fields), newline=""), on_error="continue").rows())
                except Exception:
                    pass
                cid.add_field_format_row(["F", n, "", "", str(w), "Text", ""][1:])
            GROWN[0] += 1
        else:
            cid.read("<c13>", [["D", "Format", "Fixed"], ["D", "Line delimiter", name]] + [["F", n, "", "", str(w), "Text", ""] for n, w in fields])
        READER_CIDS[key] = cid
    # (in any of the three error modes: no row of free text is ever rejected, so they have to agree - and a malformed
    # container ends the pass in every mode)
    READER_CALLS[0] += 1
    if READER_CALLS[0] % 5 == 0 and isinstance(source, io.StringIO):
        # a stream the caller has already read something else from (a preamble): the reader takes it from where it stands
        text = source.getvalue()
        source = io.StringIO("\r\nzz" + text, newline="")
        source.read(4)
    return cutplace.Reader(cid, source, on_error=("raise", "continue", "yield")[READER_CALLS[0] % 3]).rows()


READER_CALLS = [0]
GROWN = [0]


def run(ctx):
    from cutplace import errors, rowio

    from cpverif import reach

    L = ctx.pick(6, 9)
    wl = width_lists()
    combos = [(w, s) for w in wl for s in SETTINGS]
    strings = [""]
    for length in range(1, L + 1):
        strings.extend("".join(p) for p in itertools.product(ALPHABET, repeat=length))
    fixed_rows = rowio.fixed_rows
    for index, (widths, setting) in enumerate(combos):
        if not ctx.mine(index):
            continue
        fields = [("f%d" % i, w) for i, w in enumerate(widths)]
        if index >= 16 * 2:
            reach.pause()  # the first combinations of every shard are enough for reach evidence
        before = ctx.violation_count
        for text in strings:
            judge(ctx, fixed_rows, errors, text, widths, setting, fields)
            if ctx.violation_count - before > 20:
                break
        ctx.bulk(len(strings), len(strings) - 1, sample={"widths": list(widths), "setting": setting, "texts": "all strings up to length %d over {a,b,CR,LF}" % L} if index < 3 else None)
        ctx.count("sweep.combinations")
        ctx.count("sweep.cases", len(strings))
        # the same through cutplace.Reader on a character stream (all strings up to length 5 / 6)
        shorter = [t for t in strings if len(t) <= ctx.pick(5, 6)]
        for text in shorter:
            judge(ctx, through_reader, errors, text, widths, setting, fields, suffix=":reader")
            if ctx.violation_count - before > 20:
                break
        ctx.bulk(len(shorter), len(shorter) - 1, sample={"widths": list(widths), "setting": setting, "texts": "the same strings up to length %d through cutplace.Reader" % ctx.pick(5, 6)} if index < 3 else None)
        ctx.count("sweep.cases-through-reader", len(shorter))
        # a character stream whose first character is U+FEFF: in a stream of characters it is a character like any other
        marked = ["\ufeff" + t for t in strings if len(t) <= ctx.pick(3, 5)]
        for text in marked:
            judge(ctx, fixed_rows, errors, text, widths, setting, fields)
            judge(ctx, through_reader, errors, text, widths, setting, fields, suffix=":reader")
            if ctx.violation_count - before > 20:
                break
        ctx.bulk(2 * len(marked), 2 * len(marked) - 1, sample=None)
        ctx.count("sweep.cases-beginning-with-u+feff", 2 * len(marked))
    reach.resume()
    ctx.count("reader.cids-grown-through-the-api-while-in-use", GROWN[0])
    ctx.exhaustive = True
    ctx.note("exhaustive part: %d strings x %d width lists x %d settings" % (len(strings), len(wl), len(SETTINGS)))
    ctx.floor("sweep.cases", len(strings))
    # ---- history part: reads that are abandoned half way, then complete reads
    for i in range(ctx.pick(600, 20000)):
        if ctx.mine(i):
            abandoned_then_fresh(ctx, rowio, errors, ctx.rng("abandon", i))
    for i in range(ctx.pick(100, 3000)):
        if ctx.mine(i):
            judge_named(ctx, rowio, errors, ctx.rng("named", i))
    # ---- fault part: mutations of longer well-formed files
    n = ctx.pick(60, 1500)
    for i in range(n):
        if not ctx.mine(i):
            continue
        rng = ctx.rng("mut", i)
        widths = tuple(rng.randint(1, 5) for _ in range(rng.randint(1, 4)))
        setting = rng.choice(SETTINGS)
        fields = [("f%d" % k, w) for k, w in enumerate(widths)]
        total = sum(widths)
        delims = permitted(setting)
        parts = []
        for r in range(rng.randint(5, 40)):
            parts.append("".join(rng.choice("abcxyz 09äß") for _ in range(total)))
            if setting is not None:
                parts.append(rng.choice(delims))
        if setting is not None and rng.random() < 0.5:
            parts.pop()
        text = "".join(parts)
        judge_mutant(ctx, rowio, errors, text, widths, setting, fields, None)
        for offset in range(len(text) + 1):
            for kind in ("delete", "insert", "replace"):
                if kind != "insert" and offset >= len(text):
                    continue
                ch = rng.choice("ab\r\n ")
                mutated = text[:offset] + ("" if kind == "delete" else ch) + (text[offset:] if kind == "insert" else text[offset + 1 :])
                use_file = (offset % 7 == 0)
                judge_mutant(ctx, rowio, errors, mutated, widths, setting, fields, rng.choice(["utf-8", "cp1252"]) if use_file else None)


def abandoned_then_fresh(ctx, rowio, errors, rng):
    """A read that is abandoned after k rows must not influence the next read (of any source, with any setting)."""
    widths = tuple(rng.randint(1, 3) for _ in range(rng.randint(1, 3)))
    fields = [("f%d" % k, w) for k, w in enumerate(widths)]
    total = sum(widths)
    first_setting = rng.choice(["any", "any", "\r", "\n", "\r\n"])
    delim = rng.choice(permitted(first_setting))
    first = "".join("".join(rng.choice("abxy") for _ in range(total)) + delim for _ in range(rng.randint(2, 5)))
    generator = rowio.fixed_rows(io.StringIO(first, newline=""), "utf-8", fields, first_setting)
    try:
        for _ in range(rng.randint(1, 2)):
            next(generator)
    except (StopIteration, errors.DataFormatError):
        pass
    how = rng.choice(["close", "drop", "keep"])
    if how == "close":
        generator.close()
    elif how == "drop":
        del generator
    second_setting = rng.choice(SETTINGS)
    delims = permitted(second_setting)
    parts = []
    for _ in range(rng.randint(1, 4)):
        parts.append("".join(rng.choice("abxy") for _ in range(total)))
        if second_setting is not None:
            parts.append(rng.choice(delims))
    second = "".join(parts)
    case = {"text": second, "widths": list(widths), "setting": second_setting, "after_abandoned_read_of": first, "first_setting": first_setting, "abandoned": how}
    ctx.case(case, True)
    ctx.count("after-abandoned-read.judged")
    judge(ctx, rowio.fixed_rows, errors, second, widths, second_setting, fields)


class OddlyNamedStream(io.StringIO):
    """A character stream like the ones tempfile.SpooledTemporaryFile (name None), open(fd) (name is the descriptor) or
    sockets' makefile() hand out: what it is called says nothing about the characters it delivers."""

    def __init__(self, text, name):
        super().__init__(text, newline="")
        self.name = name


def judge_named(ctx, rowio, errors, rng):
    """The same text read from an anonymous stream and from streams with odd names: same rows or same kind of refusal."""
    import cutplace
    from cutplace import interface

    widths = tuple(rng.randint(1, 3) for _ in range(rng.randint(1, 3)))
    fields = [("f%d" % k, w) for k, w in enumerate(widths)]
    total = sum(widths)
    records = ["".join(rng.choice("abxy") for _ in range(total)) for _ in range(rng.randint(1, 4))]
    text = "\n".join(records) + "\n"
    if rng.random() < 0.5:
        text = text[:-2] + rng.choice(["", "X", "\n\n"])  # short record / wrong delimiter / extra line
    for name in (None, "", 0, 7, b"bytes.txt"):
        case = {"text": text, "widths": list(widths), "setting": "\n", "stream_name": repr(name)}
        ctx.case(case, True)
        ctx.count("oddly-named-streams.judged")
        judge(ctx, rowio.fixed_rows, errors, text, widths, "\n", fields, source=OddlyNamedStream(text, name), tag="named")
        # ... and through the validating reader
        cid = interface.Cid()
        cid.read("<c13>", [["D", "Format", "Fixed"], ["D", "Line delimiter", "LF"]] + [["F", n, "", "", str(w), "Text", ""] for n, w in fields])
        try:
            rows = list(cutplace.rows(cid, OddlyNamedStream(text, name)))
            str(rows)
        except errors.DataError as error:
            str(error)  # the error has to be printable whatever the stream is called
        except Exception as error:
            ctx.violation("C13:escape:reader:%s" % type(error).__name__, case, "reading a character stream with an odd name failed with something else than a data error", observed=error)


def judge_mutant(ctx, rowio, errors, text, widths, setting, fields, file_encoding):
    case = {"text": text, "widths": list(widths), "setting": setting, "file_encoding": file_encoding}
    ctx.case(case, True)
    ctx.count("mutants.judged")
    if file_encoding is None:
        judge(ctx, rowio.fixed_rows, errors, text, widths, setting, fields)
        return
    path = os.path.join(ctx.tmp, "fixed.txt")
    declared = file_encoding
    if file_encoding == "utf-8" and len(text) % 2:
        # a UTF-8 file that starts with a byte order mark, its encoding declared under any of the names the runtime knows
        # UTF-8 by: the mark is no part of the first record
        declared = ["utf-8", "UTF-8", "utf8", "UTF8", "utf_8", "U8"][len(text) % 6]
        case["declared_encoding"], case["byte_order_mark"] = declared, True
        with open(path, "w", encoding="utf-8-sig", newline="") as f:
            f.write(text)
        ctx.count("mutants.from-file-with-byte-order-mark")
    else:
        with open(path, "w", encoding=file_encoding, newline="") as f:
            f.write(text)
    try:
        rows = list(rowio.fixed_rows(path, declared, fields, setting))
        error = None
    except errors.DataFormatError as e:
        rows, error = None, e
    except Exception as e:  # noqa
        ctx.violation("C13:escape:%s" % type(e).__name__, case, "fixed_rows failed with something else than a data-format error", observed=e)
        return
    finally:
        os.remove(path)
    ctx.count("mutants.from-file")
    if error is None and not rebuilds(text, rows, widths, setting):
        ctx.violation("C13:not-lossless:file", case, "rows read from a file do not reproduce its contents", observed=rows)
    records = wellformed_records(text, sum(widths), setting)
    if error is not None and records is not None:
        ctx.violation("C13:wellformed-refused:file", case, "well-formed file was refused", observed=error)


def replay(ctx, case):
    from cutplace import errors, rowio

    if "after_abandoned_read_of" in case:
        fields = [("f%d" % i, w) for i, w in enumerate(case["widths"])]
        generator = rowio.fixed_rows(io.StringIO(case["after_abandoned_read_of"], newline=""), "utf-8", fields, case["first_setting"])
        try:
            next(generator)
        except Exception:
            pass
        if case.get("abandoned") == "close":
            generator.close()
        ctx.case(case, True)
        judge(ctx, rowio.fixed_rows, errors, case["text"], tuple(case["widths"]), case["setting"], fields)
        return

    fields = [("f%d" % i, w) for i, w in enumerate(case["widths"])]
    judge_mutant(ctx, rowio, errors, case["text"], tuple(case["widths"]), case["setting"], fields, case.get("file_encoding"))
