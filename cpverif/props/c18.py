"""C18 The command line's exit code reflects the validation outcome."""
import errno
import io
import itertools
import os
import subprocess
import sys

from cpverif import storage
from cpverif.models import rowmodel as RM

LEVEL = "exploration"
RULE = (
    "enumerated argv shapes: CID in {valid, rejected by its contents, rejected because its container cannot be parsed (junk after a quote, unterminated quote, not UTF-8, text files named .ods/.xls/.xlsx), missing as .csv/.ods/.xls/.xlsx} x every ordered list of 0-3 data "
    "files over {accepted, rejected by a field, rejected by IsUnique, two files sharing keys with each other, failing the "
    "distinct count, missing, directory} x --until in {absent, -1, 0, 1, 2, -2, x} for delimited CIDs, a reduced set for "
    "fixed / ODS / XLSX data, and an injected read error (EIO) in the middle of a file; run in-process through "
    "applications.main and, for a sample, as 'python -m cutplace.applications' subprocesses. Expected code from the table "
    "of the statement with the per-file verdicts taken from cutplace.validate on a freshly loaded CID (relational to the "
    "API). A case is the argv shape, distinct by digest; non-trivial with at least one data file."
)
ASSUMPTIONS = ["an invocation with both a rejected and an unreadable file may answer 1 or 3 (unjudged)"]

FIELDS = [{"name": "key", "type": "Integer", "empty": False, "length": "", "rule": "0...99"},
          {"name": "val", "type": "Text", "empty": False, "length": "", "rule": ""}]
CHECKS = [{"desc": "u", "type": "IsUnique", "fields": ["key"]},
          {"desc": "d", "type": "DistinctCount", "field": "val", "op": "<=", "n": 2}]
FILES = {
    "accepted": [["1", "a"], ["2", "b"]],
    "field-rejected": [["1", "a"], ["x", "b"], ["3", "a"]],
    "unique-rejected": [["1", "a"], ["2", "b"], ["1", "b"]],
    "shares-keys-1": [["7", "a"], ["8", "b"]],
    "shares-keys-2": [["8", "a"], ["9", "c"]],
    "distinct-fails": [["4", "a"], ["5", "b"], ["6", "c"]],
    "late-reject": [["1", "a"], ["2", "b"], ["3", "a"], ["y", "a"]],
}
KINDS = sorted(FILES) + ["missing", "directory"]


class Setup(object):
    def __init__(self, ctx, kind="delimited", header=0):
        self.kind = kind
        self.dir = os.path.join(ctx.tmp, "c18_%s_h%d" % (kind, header))
        os.makedirs(self.dir, exist_ok=True)
        self.model = RM.CidModel(kind, [dict(f) for f in FIELDS], CHECKS, header=header)
        if kind == "fixed":
            self.model.fields[0]["length"] = "2"
            self.model.fields[1]["length"] = "1"
        self.cids = {}
        self.cids["valid"] = self._write_cid("cid_valid.csv", self.model.cid_rows())
        # the same CID as spreadsheets export it ("CSV UTF-8"): with a byte order mark in front
        with open(self.cids["valid"], "rb") as f:
            valid_bytes = f.read()
        with open(os.path.join(self.dir, "cid_valid_bom.csv"), "wb") as f:
            f.write(b"\xef\xbb\xbf" + valid_bytes)
        self.cids["valid-with-byte-order-mark"] = os.path.join(self.dir, "cid_valid_bom.csv")
        broken = self.model.cid_rows()
        broken[-3][5] = "NoSuchType"
        self.cids["rejected"] = self._write_cid("cid_rejected.csv", broken)
        # CIDs that are rejected before any row is interpreted: the container itself cannot be parsed
        def raw(name, data):
            path = os.path.join(self.dir, name)
            with open(path, "wb") as f:
                f.write(data)
            return path

        text = storage.delimited_text(self.model.cid_rows()).encode("utf-8")
        self.cids["rejected-junk-after-quote"] = raw("cid_junk.csv", b'D,Format,"Delimited"x\r\n' + text)
        self.cids["rejected-unterminated-quote"] = raw("cid_quote.csv", text + b'F,"last')
        self.cids["rejected-not-utf8"] = raw("cid_latin.csv", text + b"F,n\xe4me,,,,Text\r\n")
        self.cids["rejected-fake-ods"] = raw("cid_fake.ods", text)
        self.cids["rejected-fake-xlsx"] = raw("cid_fake.xlsx", text)
        self.cids["rejected-fake-xls"] = raw("cid_fake.xls", text)
        for suffix in ("csv", "ods", "xls", "xlsx"):
            self.cids["missing-" + suffix] = os.path.join(self.dir, "no_such_cid." + suffix)
        self.files = {}
        ext = {"delimited": "csv", "fixed": "txt", "ods": "ods", "excel": "xlsx"}[kind]
        for number, (name, table) in enumerate(FILES.items()):
            # (file names are free: every second one carries characters that mean something to shells and glob patterns)
            path = os.path.join(self.dir, ("%s [%d].%s" if number % 2 else "%s.%s") % ((name, number, ext) if number % 2 else (name, ext)))
            if kind == "delimited":
                with open(path, "w", encoding="utf-8", newline="") as f:
                    f.write(storage.delimited_text(table))
            elif kind == "fixed":
                with open(path, "w", encoding="utf-8", newline="") as f:
                    f.write(storage.fixed_text(table, self.model.widths(), "\n"))
            elif kind == "ods":
                storage.write_ods(path, [table])
            else:
                storage.write_xlsx(path, [table])
            self.files[name] = path
        self.files["missing"] = os.path.join(self.dir, "no_such_file[1]." + ext)
        self.files["directory"] = os.path.join(self.dir, "a_directory." + ext)
        os.makedirs(self.files["directory"], exist_ok=True)
        self._verdicts = {}

    def _write_cid(self, name, rows):
        path = os.path.join(self.dir, name)
        with open(path, "w", encoding="utf-8", newline="") as f:
            f.write(storage.delimited_text(rows))
        return path

    def api_verdict(self, name, limit):
        """'accepted' / 'rejected' / 'unreadable' according to cutplace.validate on a fresh CID."""
        key = (name, limit)
        if name in ("missing", "directory"):
            return "unreadable"  # by construction, whatever the limit lets the API skip
        if key not in self._verdicts:
            import cutplace
            from cutplace import errors

            try:
                cutplace.validate(cutplace.Cid(self.cids["valid"]), self.files[name], validate_until=limit)
                verdict = "accepted"
            except errors.DataError:
                verdict = "rejected"
            except OSError:
                verdict = "unreadable"
            self._verdicts[key] = verdict
        return self._verdicts[key]


UNTIL = [None, "-1", "0", "1", "2", "3", "-2", "x"]


def expected_code(setup, cid, files, until):
    if until in ("-2", "x"):
        return "SystemExit(2)"
    if cid.startswith("missing"):
        return 3
    if cid.startswith("rejected"):
        return 1
    limit = None if until in (None, "-1") else int(until)
    verdicts = [setup.api_verdict(name, limit) for name in files]
    if "unreadable" in verdicts and "rejected" in verdicts:
        # the loop stops at the first unreadable file: files before it have been judged
        return None
    if "unreadable" in verdicts:
        return 3
    return 1 if "rejected" in verdicts else 0


def invoke(argv):
    from cutplace import applications

    try:
        return applications.main(argv)
    except SystemExit as exit_:
        return "SystemExit(%s)" % exit_.code


def invoke_quietly(argv):
    devnull = open(os.devnull, "w")
    old_err = sys.stderr
    sys.stderr = devnull
    try:
        return invoke(argv)
    finally:
        sys.stderr = old_err
        devnull.close()


def check(ctx, setup, cid, files, until, subprocess_too=False):
    case = {"format": setup.kind, "header": setup.model.header, "cid": cid, "files": list(files), "until": until}
    want = expected_code(setup, cid, files, until)
    if want is None:
        # 1 or 3 are both defensible - but every file is judged independently of the others and of their order, so all
        # orders of the same files must give the same answer
        ctx.unjudged("both a rejected and an unreadable file in one invocation: 1 or 3")
        codes = {}
        for order in itertools.permutations(files):
            argv = ["cutplace", "--log", "critical"] + (["--until", until] if until is not None else []) + [setup.cids[cid]] + [setup.files[n] for n in order]
            codes[" ".join(order)] = invoke_quietly(argv)
        ctx.case(dict(case, orders=sorted(codes)), True)
        ctx.count("order-independence.judged")
        if len(set(codes.values())) != 1 or not set(codes.values()) <= {1, 3}:
            ctx.violation("C18:exit-code-depends-on-file-order", case, "the same data files in another order give another exit code", expected="one of 1, 3 for every order", observed=codes)
        return
    ctx.case(case, len(files) >= 1)
    argv = ["cutplace", "--log", "critical"]
    if until is not None:
        argv += ["--until", until]
    argv.append(setup.cids[cid])
    argv += [setup.files[name] for name in files]
    got = invoke_quietly(argv)
    ctx.count("invocations.in-process")
    if got != want:
        key = "C18:exit-code:%s-instead-of-%s" % (got, want)
        if got == 1 and want == 3:
            unreadable = [n for n in files if n in ("missing", "directory")]
            what = "cid" if cid.startswith("missing") else "data"
            suffix = cid.split("-")[-1] if what == "cid" else setup.kind
            key = "C18:unreadable-%s-%s-exit-1" % (suffix, what)
        ctx.violation(key, case, "exit code differs from the documented table", expected=want, observed=got)
        return
    if subprocess_too:
        try:
            proc = subprocess.run([sys.executable, "-m", "cutplace.applications"] + argv[1:], capture_output=True, text=True, timeout=120)
        except subprocess.TimeoutExpired:
            ctx.inconclusive_because("command line subprocess hit its watchdog")
            return
        ctx.count("invocations.subprocess")
        want_rc = 2 if want == "SystemExit(2)" else want
        if proc.returncode != want_rc:
            ctx.violation("C18:subprocess-exit-code:%s-instead-of-%s" % (proc.returncode, want_rc), case, "exit status of the real command differs", expected=want_rc, observed={"rc": proc.returncode, "stderr": proc.stderr[-500:]})


class FailingStream(object):
    """Text stream that raises EIO after `limit` characters (failpoint at the existing read calls)."""

    def __init__(self, inner, limit):
        self.inner = inner
        self.left = limit

    def _take(self, text):
        if len(text) > self.left:
            raise OSError(errno.EIO, "injected input/output error")
        self.left -= len(text)
        return text

    def read(self, *args):
        return self._take(self.inner.read(*args))

    def readline(self, *args):
        return self._take(self.inner.readline(*args))

    def __iter__(self):
        return self

    def __next__(self):
        return self._take(next(self.inner))

    def close(self):
        self.inner.close()

    def __enter__(self):
        return self

    def __exit__(self, *args):
        self.close()


def eio_cases(ctx, setup):
    """I/O fault while a data file is being read: the command must answer 3."""
    from cutplace import rowio

    real_io = rowio.io

    class IoProxy(object):
        def __getattr__(self, name):
            return getattr(real_io, name)

    for after in (0, 3, 5):
        for target in ("accepted", "late-reject"):
            proxy = IoProxy()

            def failing_open(path, *args, _after=after, _target=setup.files[target], **kwargs):
                stream = real_io.open(path, *args, **kwargs)
                if path == _target:
                    return FailingStream(stream, _after)
                return stream

            proxy.open = failing_open
            rowio.io = proxy
            try:
                case = {"format": setup.kind, "cid": "valid", "files": [target], "eio_after_characters": after}
                ctx.case(case, True)
                got = invoke(["cutplace", "--log", "critical", setup.cids["valid"], setup.files[target]])
                ctx.count("invocations.eio")
                if got != 3:
                    ctx.violation("C18:io-error-exit-code:%s" % got, case, "an I/O error while reading a data file must answer 3", expected=3, observed=got)
            finally:
                rowio.io = real_io


def run(ctx):
    ctx.floor("invocations.in-process", 500)
    setup = Setup(ctx, "delimited")
    index = 0
    sub_every = ctx.pick(97, 5)
    for cid in sorted(setup.cids):
        for n in range(0, 4):
            for files in itertools.permutations(KINDS, n):
                if "shares-keys-2" in files and "shares-keys-1" not in files and n > 1:
                    continue
                untils = UNTIL if (n <= 1 or cid != "valid") else [None, "-1", "0", "2", "3"]
                if n == 3 and ctx.quick:
                    untils = [None, "2"]
                if cid != "valid" and n >= 2:
                    continue
                for until in untils:
                    index += 1
                    if not ctx.mine(index):
                        continue
                    check(ctx, setup, cid, files, until, subprocess_too=(index % sub_every == 0))
    if ctx.mine(0):
        eio_cases(ctx, setup)
    # ---- CIDs with header rows: the limit counts them, on the command line exactly as in the API
    for header in (1, 2):
        with_header = Setup(ctx, "delimited", header=header)
        for n in range(0, 3):
            for files in itertools.permutations(["accepted", "field-rejected", "unique-rejected", "late-reject", "distinct-fails", "missing"], n):
                for until in (None, "-1", "0", "1", "2", "3", "4"):
                    index += 1
                    if ctx.mine(index):
                        check(ctx, with_header, "valid", files, until, subprocess_too=(index % (sub_every * 3) == 0))
    for kind in ("fixed", "ods", "excel"):
        other = Setup(ctx, kind)
        for n in range(0, 3):
            for files in itertools.permutations(["accepted", "field-rejected", "unique-rejected", "distinct-fails", "missing", "directory", "late-reject"], n):
                for until in (None, "0", "2", "3"):
                    index += 1
                    if ctx.mine(index):
                        check(ctx, other, "valid", files, until, subprocess_too=(index % (sub_every * 3) == 0))
        if ctx.mine(1) and kind == "fixed":
            eio_cases(ctx, other)
    ctx.exhaustive = True
    ctx.floor("invocations.eio", 6)


def replay(ctx, case):
    setup = Setup(ctx, case.get("format", "delimited"), header=case.get("header", 0))
    if "eio_after_characters" in case:
        eio_cases(ctx, setup)
    else:
        check(ctx, setup, case["cid"], tuple(case["files"]), case["until"], subprocess_too=True)
