"""C19 Generated SQL DDL mirrors the CID."""
import itertools
import keyword
import re

from cpverif import core
from cpverif.models import rangemodel as R

LEVEL = "exploration"
RULE = (
    "CIDs x the four dialects (ANSI, DB2, Transact-SQL, PL/SQL): (1) exhaustive over the boundary set - Integer ranges whose "
    "lower and upper limits are taken from {0}, +-(2^k + d), k in {7, 8, 15, 16, 31, 32, 63}, and +-(10^k + d), k in {1, 2, 3, 9, 10, 11, 18, 19, 20, 30, 31, 38}, d in {-1, 0, 1} (all "
    "ordered pairs lower <= upper, ~6500 ranges), in CIDs of 6 columns; (2) generated CIDs with field names drawn from each "
    "dialect's keyword list in three casings and near-misses, Decimal rules with 0-6 fraction digits, length declarations on "
    "text-like fields, empty flags, Integer fields with rule (one part, or three parts in any order) / with length only / with neither, lengths of several parts in any order; for a quarter of them the CID grows through the API after a first statement and the same factory is asked again; for a quarter of them also sql.write_create() (the command "
    "line's --create) on the CID stored as CSV, ODS and Excel. The CREATE TABLE text is "
    "parsed back into columns and compared with M-ddl: one column per field in order; quoted iff the name is a keyword of "
    "the dialect (plus an anchor list that must stay quoted everywhere and the reserved words of each dialect written down from the vendors' lists - cpverif/props/c19_reserved.py - every one of which is used as a column name); NOT NULL iff not allowed to be empty; Integer column "
    "type's interval contains both limits; Decimal (total, fraction) digits; text length = upper length limit. A case is "
    "(dialect, field declaration); distinct by digest; non-trivial when a limit is within 1 of a type boundary, the name is "
    "a keyword, or a Decimal rule / length is present."
)
ASSUMPTIONS = [
    "ANSI 'int' is judged as 32 bit only when both limits fit 32 bit (the standard leaves its precision open) and as too small for limits beyond 64 bit; open-ended Integer ranges are unjudged",
    "a column type of the dialect: integer types without length, decimal precision at most 38 (PL/SQL, Transact-SQL) / 31 (DB2)",
    "PL/SQL 'int' is NUMBER(38); decimal(p)/number(p, 0) hold +-(10^p - 1)",
]

# words that are in all four keyword tables of the pinned tree (fixed when the check was built): they must stay quoted
# even if a table is edited; words missing from a table today (e.g. "order" for PL/SQL) are deliberately not listed
ANCHOR_KEYWORDS = ["select", "table", "where", "group", "insert", "update", "delete", "create", "union", "values"]
# reserved words of single dialects, taken from the vendors' lists (not from cutplace's tables)
DIALECT_ANCHOR_KEYWORDS = {
    # (Oracle Database SQL Language Reference, "Oracle SQL Reserved Words": the words a column cannot be called)
    "PL/SQL": ["order", "overlaps", "access", "audit", "column", "file", "increment", "initial", "integer", "maxextents", "mlslabel", "noaudit", "number",
               "offline", "online", "pctfree", "rowid", "rownum", "rows", "session", "smallint", "successful", "sysdate", "trigger", "uid", "user",
               "validate", "varchar", "varchar2", "whenever", "level", "index", "date", "comment", "size", "mode"],
    "DB2": ["first", "last", "next", "old", "period", "prior", "organization", "currval", "sysdate", "systimestamp", "order"],
    "Transact-SQL": ["order"],
    "ANSI": ["order"],
}
from cpverif.props import c19_reserved  # noqa: E402

for _dialect, _words in c19_reserved.RESERVED.items():
    DIALECT_ANCHOR_KEYWORDS[_dialect] = sorted(set(DIALECT_ANCHOR_KEYWORDS[_dialect]) | set(_words))
# the largest precision a decimal column type can have
MAX_PRECISION = {"PL/SQL": 38, "Transact-SQL": 38, "DB2": 31}
INTERVALS = {
    "tinyint": (0, 255),
    "smallint": (-(2**15), 2**15 - 1),
    "int": (-(2**31), 2**31 - 1),
    "integer": (-(2**31), 2**31 - 1),
    "bigint": (-(2**63), 2**63 - 1),
}
COLUMN_RE = re.compile(r'^\s*(?P<name>"[^"]+"|[A-Za-z_][A-Za-z0-9_]*)\s+(?P<type>[A-Za-z0-9]+)\s*(?:\(\s*(?P<a>\d+)\s*(?:,\s*(?P<b>\d+)\s*)?\))?'
                       r'(?P<notnull>\s+not\s+null)?(?P<default>\s+default\s+.*?)?\s*,?\s*$', re.IGNORECASE)


def parse_ddl(text):
    """Columns of a 'create table <name> ( <one column per line> );' statement; tolerant about case and white space."""
    lines = [line for line in text.strip().split("\n") if line.strip()]
    if not lines or not re.match(r"^\s*create\s+table\s+\S+\s*\($", lines[0], re.IGNORECASE):
        return None
    if not re.match(r"^\s*\)\s*;?\s*$", lines[-1]):
        return None
    columns = []
    for line in lines[1:-1]:
        m = COLUMN_RE.match(line)
        if not m:
            return None
        name = m.group("name")
        columns.append({"name": name.strip('"'), "quoted": name.startswith('"'), "type": m.group("type").lower(),
                        "a": int(m.group("a")) if m.group("a") else None, "b": int(m.group("b")) if m.group("b") else None,
                        "notnull": m.group("notnull") is not None})
    return columns


def integer_interval(dialect_name, column):
    t = column["type"]
    if dialect_name == "PL/SQL" and t == "int":
        return (-(10**38) + 1, 10**38 - 1)
    if t in INTERVALS:
        return INTERVALS[t]
    if t in ("decimal", "number", "numeric"):
        p = column["a"]
        if p is None:
            return None
        if column["b"]:
            return None
        p = min(p, 400)  # precisions beyond any limit we generate: do not build astronomically large powers
        return (-(10**p) + 1, 10**p - 1)
    return None


def boundary_values():
    out = {0}
    for k in (7, 8, 15, 16, 31, 32, 63):
        for d in (-1, 0, 1):
            out.add(2**k + d)
            out.add(-(2**k + d))
    # types given as a number of decimal digits (number(p, 0), decimal(p)) have their boundaries at the powers of ten
    for k in (1, 2, 3, 9, 10, 11, 18, 19, 20, 30, 31, 38):
        for d in (-1, 0, 1):
            out.add(10**k + d)
            out.add(-(10**k + d))
    return sorted(out)


def decimal_digits(rule):
    items = R.parse_dec_range(rule)
    if items is R.OUTSIDE:
        return None
    before = after = 0
    for m in re.finditer(r"(\d+)(?:\.(\d+))?", rule):
        whole = m.group(1).lstrip("0") or ("0" if False else "")
        before = max(before, len(m.group(1).lstrip("0")))
        after = max(after, len(m.group(2) or ""))
    return before + after, after


def check_cid(ctx, fields, dialect_names=None):
    """fields: list of dicts(name, type, empty, length, rule, expect) - loads the CID and judges the DDL of every dialect."""
    from cutplace import errors, interface, sql

    rows = [["D", "Format", "Delimited"]]
    for f in fields:
        rows.append(["F", f["name"], "", "X" if f["empty"] else "", f["length"], f["type"], f["rule"]])
    cid = interface.Cid()
    try:
        cid.read("<c19>", rows)
    except errors.InterfaceError as error:
        ctx.count("cid.refused(generator)")
        ctx.note("generator produced a CID the loader refuses: %s" % str(error)[:120])
        return
    for dialect_name, dialect in sorted(sql.SQL_NAME_TO_DIALECT_MAP.items()):
        if dialect_names and dialect_name not in dialect_names:
            continue
        ctx.count("statements")
        try:
            factory = sql.SqlFactory(cid, "some_table", dialect)
            text = factory.create_table_statement()
            # the same factory asked again (statement, fields, statement) must give the same answer
            again = factory.create_table_statement()
            field_rows = list(factory.sql_fields())
            third = factory.create_table_statement()
            ctx.count("factories.reused")
            if again != text or third != text or len(field_rows) != len(fields):
                case = {"dialect": dialect_name, "fields": fields}
                ctx.case(case, True)
                ctx.violation("C19:statement-changes-on-reuse", case, "asking the same SqlFactory again gives another statement / another number of fields",
                              expected=text, observed={"second": again, "fields": len(field_rows), "third": third})
                continue
        except Exception as error:
            mod, fn = core.innermost_cutplace_frame(error)
            case = {"dialect": dialect_name, "fields": fields}
            ctx.case(case, True)
            ctx.violation("C19:crash:%s@%s.%s" % (type(error).__name__, mod, fn), case, "generating the statement failed", observed=error)
            continue
        columns = parse_ddl(text)
        if columns is None or len(columns) != len(fields) or [c["name"] for c in columns] != [f["name"] for f in fields]:
            case = {"dialect": dialect_name, "fields": fields}
            ctx.case(case, True)
            ctx.violation("C19:columns", case, "the statement does not have exactly one column per field in CID order", expected=[f["name"] for f in fields], observed=text)
            continue
        for f, col in zip(fields, columns):
            case = {"dialect": dialect_name, "field": f}
            is_kw = f["name"].lower() in dialect.keywords
            nontrivial = is_kw or f["type"] == "Decimal" or bool(f["length"]) or f.get("near_boundary", False)
            ctx.case(case, nontrivial)
            ctx.count("columns.judged")
            must_quote = is_kw or f["name"].lower() in ANCHOR_KEYWORDS or f["name"].lower() in DIALECT_ANCHOR_KEYWORDS[dialect_name]
            if col["quoted"] != must_quote:
                ctx.violation("C19:keyword-quoting", case, "column name %s although it %s a keyword of the dialect" % ("quoted" if col["quoted"] else "not quoted", "is" if must_quote else "is not"),
                              expected=must_quote, observed=text)
                continue
            if col["notnull"] != (not f["empty"]):
                ctx.violation("C19:not-null", case, "NOT NULL does not mirror the empty mark", expected=not f["empty"], observed=text)
                continue
            if f["type"] == "Integer":
                limits = f.get("limits")
                if limits is None:
                    ctx.unjudged("Integer field without bounded limits")
                    continue
                lo, hi = limits
                interval = integer_interval(dialect_name, col)
                if dialect_name == "ANSI" and col["type"] == "int" and (lo < -(2**31) or hi > 2**31 - 1) and lo >= -(2**63) and hi <= 2**63 - 1:
                    ctx.unjudged("ANSI int for limits beyond 32 bit")
                    continue
                if dialect_name == "ANSI" and col["type"] == "int" and (lo < -(2**63) or hi > 2**63 - 1):
                    # the standard leaves the precision of int to the implementation, but no implementation's int goes
                    # beyond 64 bit (and the field describes such ranges as decimal with the digits they need)
                    ctx.violation("C19:integer-type-too-small:ANSI:int", case, "int for a range beyond 64 bit", expected="decimal(%d, 0) or the like" % max(len(str(abs(lo))), len(str(abs(hi)))), observed=text)
                    continue
                if col["type"] in INTERVALS and col["a"] is not None:
                    ctx.violation("C19:integer-type-with-length:%s:%s" % (dialect_name, col["type"]), case,
                                  "%s(%d) is no column type of the dialect: its integer types take no length" % (col["type"], col["a"]), expected=col["type"], observed=text)
                    continue
                if col["type"] in ("decimal", "number", "numeric") and dialect_name in MAX_PRECISION and col["a"] is not None and col["a"] > MAX_PRECISION[dialect_name]:
                    needed = max(len(str(abs(lo))), len(str(abs(hi))))
                    if needed > MAX_PRECISION[dialect_name]:
                        ctx.unjudged("Integer limits with more digits than the dialect's decimal type can have")
                        continue
                    ctx.violation("C19:integer-type-precision-beyond-dialect:%s" % dialect_name, case,
                                  "%s(%d, ...) is no column type of the dialect: the precision is limited to %d digits" % (col["type"], col["a"], MAX_PRECISION[dialect_name]),
                                  expected="%s(%d, 0) or the like" % (col["type"], needed), observed=text)
                    continue
                if interval is None:
                    ctx.violation("C19:integer-type-unknown", case, "Integer field got a column type whose range is unknown", observed=text)
                    continue
                ctx.count("integer-columns.judged")
                if not (interval[0] <= lo and hi <= interval[1]):
                    key = "C19:integer-type-too-small:%s:%s" % (dialect_name, col["type"])
                    if dialect_name == "Transact-SQL" and col["type"] == "tinyint" and lo < 0 and -256 <= lo and hi <= 255:
                        key = "C19:transact:tinyint-for-negative-lower-limit"
                    ctx.violation(key, case, "column type %s cannot store the range limit(s) %d...%d" % (col["type"], lo, hi),
                                  expected="a type holding %d...%d" % (lo, hi), observed=text)
            elif f["type"] == "Decimal":
                want = decimal_digits(f["rule"]) if f["rule"] else (31, 12)
                if want is None:
                    ctx.unjudged("Decimal rule outside the range grammar")
                    continue
                if (col["a"], col["b"]) != want or col["type"] not in ("decimal", "number", "numeric"):
                    ctx.violation("C19:decimal-digits", case, "Decimal column does not carry the total and fraction digits of the rule", expected=list(want), observed=text)
            elif f["type"] == "DateTime":
                pass
            else:
                want = f.get("upper_length")
                if col["a"] != want or col["b"] is not None:
                    ctx.violation("C19:text-length", case, "text column length is not the upper length limit", expected=want, observed=text)


def check_write_create(ctx, fields, index):
    """sql.write_create(path, Cid()) - what 'cutplace --create' calls - for the CID stored as CSV, ODS or Excel: the
    statement written next to the CID has to be the one SqlFactory gives for the same CID loaded from rows."""
    import os

    from cutplace import errors, interface, sql

    from cpverif import storage

    rows = [["D", "Format", "Delimited"]]
    for f in fields:
        rows.append(["F", f["name"], "", "X" if f["empty"] else "", f["length"], f["type"], f["rule"]])
    reference = interface.Cid()
    try:
        reference.read("<c19>", rows)
    except errors.InterfaceError:
        return
    how = ["csv", "ods", "xlsx"][index % 3]
    path = os.path.join(ctx.tmp, "some_table.%s" % how)
    if how == "csv":
        with open(path, "w", encoding="utf-8", newline="") as f:
            f.write(storage.delimited_text(rows))
    elif how == "ods":
        storage.write_ods(path, [rows], ("s", "colruns"))
    else:
        storage.write_xlsx(path, [rows])
    case = {"fields": fields, "cid_stored_as": how, "api": "sql.write_create"}
    ctx.case(case, True)
    ctx.count("write_create.%s" % how)
    created = os.path.join(ctx.tmp, "some_table_create.sql")
    try:
        sql.write_create(path, interface.Cid())
        with open(created, encoding="utf-8") as f:
            text = f.read()
    except Exception as error:
        mod, fn = core.innermost_cutplace_frame(error)
        ctx.violation("C19:write-create-failed:%s:%s@%s.%s" % (how, type(error).__name__, mod, fn), case, "no CREATE TABLE statement for a CID stored as %s" % how, observed=error)
        return
    finally:
        for p in (path, created):
            if os.path.exists(p):
                os.remove(p)
    want = sql.SqlFactory(reference, "some_table").create_table_statement()
    if text != want:
        ctx.violation("C19:write-create-differs:%s" % how, case, "the statement written for the stored CID differs from the one for the same CID loaded from rows", expected=want, observed=text)


def check_grown_cid(ctx, fields):
    """A CID built through the API that grows after its statement was generated once: the next statement of the same
    SqlFactory mirrors the CID as it is then (one column per field)."""
    from cutplace import errors, interface, sql

    if len(fields) < 2:
        return
    rows = [["D", "Format", "Delimited"]] + [["F", f["name"], "", "X" if f["empty"] else "", f["length"], f["type"], f["rule"]] for f in fields]
    cut = 1 + len(fields) // 2
    for dialect_name, dialect in sorted(sql.SQL_NAME_TO_DIALECT_MAP.items()):
        case = {"dialect": dialect_name, "fields": fields, "fields_added_after_the_first_statement": len(rows) - 1 - cut + 1}
        ctx.case(case, True)
        try:
            whole = interface.Cid()
            whole.read("<c19>", [list(r) for r in rows])
            want = sql.SqlFactory(whole, "some_table", dialect).create_table_statement()
            cid = interface.Cid()
            cid.read("<c19>", [list(r) for r in rows[: cut + 1]])
            factory = sql.SqlFactory(cid, "some_table", dialect)
            factory.create_table_statement()
            for row in rows[cut + 1 :]:
                cid.add_field_format_row(list(row[1:]))
            got = factory.create_table_statement()
        except errors.InterfaceError:
            ctx.count("cid.refused(generator)")
            return
        except Exception as error:
            mod, fn = core.innermost_cutplace_frame(error)
            ctx.violation("C19:crash:%s@%s.%s" % (type(error).__name__, mod, fn), case, "generating the statement of a grown CID failed", observed=error)
            return
        ctx.count("grown-cids.judged")
        if got != want:
            ctx.violation("C19:statement-of-a-grown-cid", case, "after fields were added to the CID the factory's statement is not the statement of the CID as it is now", expected=want, observed=got)
            return


def usable_name(name):
    return re.match(r"^[A-Za-z][A-Za-z0-9_]*$", name) is not None and not keyword.iskeyword(name)


def run(ctx):
    from cutplace import sql

    ctx.floor("columns.judged", 1000)
    ctx.floor("integer-columns.judged", 500)
    values = boundary_values()
    pairs = [(lo, hi) for lo in values for hi in values if lo <= hi]
    # ---- (1) exhaustive boundary set, 6 columns per CID
    for index in range(0, len(pairs), 6):
        if not ctx.mine(index // 6):
            continue
        fields = []
        for k, (lo, hi) in enumerate(pairs[index : index + 6]):
            fields.append({"name": "i%d" % k, "type": "Integer", "empty": (index + k) % 3 == 0, "length": "", "rule": "%d...%d" % (lo, hi),
                           "limits": [lo, hi], "near_boundary": True})
        check_cid(ctx, fields)
    ctx.exhaustive = True
    ctx.note("exhaustive part: all %d Integer ranges over the boundary set x 4 dialects; names, Decimal rules and lengths are sampled" % len(pairs))
    # ---- (1b) every reserved word of every dialect as a column name, in one of three casings
    for dialect_name in sorted(DIALECT_ANCHOR_KEYWORDS):
        words = [w for w in DIALECT_ANCHOR_KEYWORDS[dialect_name] if usable_name(w)]
        for start in range(0, len(words), 6):
            if not ctx.mine(start // 6):
                continue
            fields = []
            for k, word in enumerate(words[start : start + 6]):
                name = [word, word.upper(), word.capitalize()][(start + k) % 3]
                fields.append({"name": name, "type": "Text", "empty": k % 2 == 0, "length": "", "rule": "", "upper_length": None})
            check_cid(ctx, fields, [dialect_name])
            ctx.count("reserved-word-columns", len(fields))
    # ---- (2) generated CIDs
    all_keywords = {}
    for name, dialect in sql.SQL_NAME_TO_DIALECT_MAP.items():
        all_keywords[name] = sorted(k for k in dialect.keywords if usable_name(k))
    n = ctx.pick(300, 10000)
    for i in range(n):
        if not ctx.mine(i):
            continue
        rng = ctx.rng("cid", i)
        fields = []
        used = set()
        for k in range(rng.randint(1, 6)):
            source = rng.random()
            if source < 0.45:
                kw = rng.choice(all_keywords[rng.choice(sorted(all_keywords))])
                name = rng.choice([kw, kw.upper(), kw.capitalize()])
            elif source < 0.6:
                kw = rng.choice(all_keywords[rng.choice(sorted(all_keywords))])
                name = rng.choice([kw + "x", kw + "_", "x" + kw, kw + "1"])
            elif source < 0.68:
                kw = rng.choice([w for words in DIALECT_ANCHOR_KEYWORDS.values() for w in words])
                name = rng.choice([kw, kw.upper(), kw.capitalize()])
            else:
                name = rng.choice(["customer_id", "amount", "f%d" % k, "Value%d" % k, "x"])
            if not usable_name(name) or name.lower() in used:
                name = "col%d" % k
            used.add(name.lower())
            t = rng.choice(["Integer", "Integer", "Decimal", "Text", "Choice", "Pattern", "RegEx", "DateTime", "Constant"])
            f = {"name": name, "type": t, "empty": rng.random() < 0.4, "length": "", "rule": ""}
            if t == "Integer":
                form = rng.random()
                if form < 0.6:
                    lo = rng.choice(values + [rng.randint(-(10**6), 10**6)])
                    hi = rng.choice([v for v in values if v >= lo] + [lo + rng.randint(0, 10**6)])
                    f["rule"] = "%d%s%d" % (lo, rng.choice(["...", ":", "…"]), hi)
                    f["limits"] = [lo, hi]
                    f["near_boundary"] = True
                elif form < 0.7:
                    # several parts, in any order: the column has to hold the smallest and the largest limit of all parts
                    points = sorted(rng.sample(values + [rng.randint(-(10**6), 10**6) for _ in range(6)], 6))
                    parts = [(points[0], points[1]), (points[2], points[3]), (points[4], points[5])]
                    rng.shuffle(parts)
                    f["rule"] = ", ".join("%d%s%d" % (a, rng.choice(["...", ":"]), b) for a, b in parts)
                    f["limits"] = [points[0], points[5]]
                    f["near_boundary"] = True
                    ctx.count("integer-fields.several-parts")
                elif form < 0.8:
                    digits = rng.randint(1, 12)
                    f["length"] = str(digits)
                    f["limits"] = [-(10 ** (digits - 1)) + 1 if digits > 1 else 0, 10**digits - 1]
                    f["upper_length"] = digits
                elif form < 0.9:
                    f["limits"] = [-(2**31), 2**31 - 1]
                else:
                    # open on one side (like the documented "weight: Integer 0..."): still one column per field, type unjudged
                    f["rule"] = rng.choice(["0...", "...20", "1...5, 100...", "-5..."])
                    ctx.count("integer-fields.half-open")
            elif t == "Decimal":
                if rng.random() < 0.8:
                    frac = rng.randint(0, 6)
                    whole = rng.randint(1, 12)
                    hi = "9" * whole + ("." + "9" * frac if frac else "")
                    lo = rng.choice(["0", "-" + hi, "0." + "0" * frac if frac else "0"])
                    f["rule"] = "%s...%s" % (lo, hi)
                    if whole >= 4 and rng.random() < 0.4:
                        # several parts of different width, in any order: the column takes the digits of the widest
                        # whole part and of the longest fraction
                        wide = "1" + "0" * (whole - 1) + "..." + "9" * whole
                        narrow = "0.25...99.75" if frac <= 2 else "0." + "0" * (frac - 1) + "1...99." + "9" * frac
                        parts = [wide, narrow] + (["-5...-1"] if rng.random() < 0.5 else [])
                        rng.shuffle(parts)
                        f["rule"] = ", ".join(parts)
                        ctx.count("decimal-fields.several-parts")
            elif t == "DateTime":
                f["rule"] = rng.choice(["DD.MM.YYYY", "YYYY-MM-DD hh:mm:ss", "hh:mm"])
            else:
                form = rng.random()
                if t == "Constant":
                    f["rule"] = "abc"
                    f["empty"] = False
                    if form < 0.5:
                        f["length"], f["upper_length"] = "3", 3
                elif form < 0.25:
                    u = rng.randint(1, 300)
                    f["length"], f["upper_length"] = "...%d" % u, u
                elif form < 0.5:
                    lo = rng.randint(0, 20)
                    u = lo + rng.randint(0, 200)
                    f["length"], f["upper_length"] = "%d...%d" % (lo, u), u
                elif form < 0.6:
                    f["length"], f["upper_length"] = "%d..." % rng.randint(0, 9), None
                elif form < 0.7:
                    a = rng.randint(1, 5)
                    f["length"], f["upper_length"] = rng.choice(["%d, %d...%d", "%d, %d...%d", "%d...%d, %d", "%d...%d, %d...%d, %d"]), a + 7
                    f["length"] = {"%d, %d...%d": "%d, %d...%d" % (a, a + 2, a + 7), "%d...%d, %d": "%d...%d, %d" % (a + 2, a + 7, a),
                                   "%d...%d, %d...%d, %d": "%d...%d, %d...%d, %d" % (a, a + 1, a + 5, a + 7, a + 3)}[f["length"]]
                else:
                    f["upper_length"] = None
                if t == "Choice":
                    f["rule"] = "abc, abcd"
                elif t == "Pattern":
                    f["rule"] = "a*"
                elif t == "RegEx":
                    f["rule"] = "a.*"
            fields.append(f)
        check_cid(ctx, fields)
        if i % 4 == 0:
            check_write_create(ctx, fields, i // 4)
        if i % 4 == 1:
            check_grown_cid(ctx, fields)


def replay(ctx, case):
    if "field" in case:
        check_cid(ctx, [case["field"]], [case["dialect"]])
    else:
        check_cid(ctx, case["fields"], [case["dialect"]])
