"""
Finding 1 (C18, also the last sentence of C10): "--create" answers a CID that loads fine with exit code 4
when the name of the CID file cannot be encoded as UTF-8 (a file name with bytes that are no valid UTF-8,
or any non ASCII name when the locale encoding is ASCII). The same CID validates data with exit code 0.

Run:  cd /tmp/wt_01 && PYTHONPATH=/tmp/wt_01 /venv/bin/python -W ignore /tmp/hunt3_01/finding_1.py
Exits 1 if the violation occurs, 0 otherwise.
"""
import logging
import os
import shutil
import sys
import tempfile

from cutplace import applications, interface

logging.basicConfig(level=logging.CRITICAL)  # keep the stack trace of exit code 4 off the console

CID_TEXT = "d,format,delimited\nf,id,,,,Integer,1...100\nf,name\n"

work = tempfile.mkdtemp(prefix="finding_1_", dir="/tmp/hunt3_01")
try:
    # A file name as it arrives in sys.argv for a file whose name is Latin-1 encoded ("cid_<u umlaut>.csv")
    # on a system with UTF-8 as file system encoding: the undecodable byte becomes a lone surrogate.
    cid_path = os.fsdecode(os.path.join(os.fsencode(work), b"cid_\xfc.csv"))
    data_path = os.path.join(work, "data.csv")
    with open(cid_path, "w", encoding="utf-8") as cid_file:
        cid_file.write(CID_TEXT)
    with open(data_path, "w", encoding="utf-8") as data_file:
        data_file.write("1,a\n2,b\n")

    interface.Cid(cid_path)  # the programmatic API loads the CID without complaint
    validate_exit_code = applications.main(["cutplace", "--log", "critical", cid_path, data_path])
    create_exit_code = applications.main(["cutplace", "--log", "critical", "--create", cid_path])
    sql_path = os.path.splitext(cid_path)[0] + "_create.sql"
    sql_size = os.path.getsize(sql_path) if os.path.exists(sql_path) else None
    print("cutplace CID DATA      -> exit code %d (expected 0)" % validate_exit_code)
    print("cutplace --create CID  -> exit code %d (expected 0, never 4)" % create_exit_code)
    print("size of the SQL file left behind: %r" % sql_size)
    is_violated = (validate_exit_code == 0) and (create_exit_code == 4)
finally:
    shutil.rmtree(work, ignore_errors=True)
print("violation" if is_violated else "no violation")
sys.exit(1 if is_violated else 0)
