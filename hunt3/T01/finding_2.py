"""
Finding 2 (C18): with "--create" the data files named on the command line are neither validated nor even
opened, so the command exits 0 although a file is rejected by the API (statement: 1) or cannot be read
(statement: 3).

Run:  cd /tmp/wt_01 && PYTHONPATH=/tmp/wt_01 /venv/bin/python -W ignore /tmp/hunt3_01/finding_2.py
Exits 1 if the violation occurs, 0 otherwise.
"""
import logging
import os
import shutil
import sys
import tempfile

from cutplace import applications, errors, validio

logging.basicConfig(level=logging.CRITICAL)

work = tempfile.mkdtemp(prefix="finding_2_", dir="/tmp/hunt3_01")
try:
    cid_path = os.path.join(work, "cid.csv")
    bad_path = os.path.join(work, "bad.csv")
    missing_path = os.path.join(work, "missing.csv")
    with open(cid_path, "w", encoding="utf-8") as cid_file:
        cid_file.write("d,format,delimited\nf,id,,,,Integer,1...100\nf,name\n")
    with open(bad_path, "w", encoding="utf-8") as bad_file:
        bad_file.write("1,a\nx,b\n")
    try:
        validio.validate(cid_path, bad_path)
        api_rejects_bad = False
    except errors.DataError as error:
        api_rejects_bad = True
        print("API rejects bad.csv: %s" % error)
    plain_bad = applications.main(["cutplace", "--log", "critical", cid_path, bad_path])
    plain_missing = applications.main(["cutplace", "--log", "critical", cid_path, missing_path])
    create_bad = applications.main(["cutplace", "--log", "critical", "--create", cid_path, bad_path])
    create_missing = applications.main(["cutplace", "--log", "critical", "--create", cid_path, missing_path])
    print("cutplace CID bad.csv               -> %d (expected 1)" % plain_bad)
    print("cutplace CID missing.csv           -> %d (expected 3)" % plain_missing)
    print("cutplace --create CID bad.csv      -> %d (expected 1)" % create_bad)
    print("cutplace --create CID missing.csv  -> %d (expected 3)" % create_missing)
    is_violated = api_rejects_bad and ((create_bad == 0) or (create_missing == 0))
finally:
    shutil.rmtree(work, ignore_errors=True)
print("violation" if is_violated else "no violation")
sys.exit(1 if is_violated else 0)
