"""
C09 (with C20): "a rejection is an interface error whose text names the offending row".
A check row whose rule is refused by the constructor of a user-defined check with an InterfaceError that has
no location (for example because the check builds a cutplace.ranges.Range from its rule, like the check
FullNameLengthIsInRange shipped in examples/plugins.py and docs/api.rst) is reported without file, row or
cell. Field rows get the location added by Cid.add_field_format_row(); Cid.add_check_row() does not do that.
"""
import os
import sys

import cutplace
from cutplace import checks, errors, interface, ranges


class TotalLengthIsInRangeCheck(checks.AbstractCheck):
    """Same pattern as FullNameLengthIsInRangeCheck in examples/plugins.py."""

    def __init__(self, description, rule, available_field_names, location=None):
        super().__init__(description, rule, available_field_names, location)
        self._range = ranges.Range(rule)

    def check_row(self, field_name_to_value_map, location):
        total_length = sum(len(value) for value in field_name_to_value_map.values())
        self._range.validate("total length", total_length, location)


check_types = ["TotalLengthIsInRange"]
shipped_plugins_folder = os.path.join(os.path.dirname(os.path.dirname(os.path.abspath(cutplace.__file__))), "examples")
if os.path.exists(os.path.join(shipped_plugins_folder, "plugins.py")):
    interface.import_plugins(shipped_plugins_folder)
    check_types.append("FullNameLengthIsInRange")

CID_TEXT = "d,format,delimited\nf,first_name\nf,last_name\n,the next row (row 5) holds the broken rule\nc,length,%s,%s\n"
violations = 0
for check_type in check_types:
    for rule in ("abc", "5...1", '"1, 1"', "1.5"):
        try:
            interface.create_cid_from_string(CID_TEXT % (check_type, rule))
            print("%s %s: accepted (unexpected)" % (check_type, rule))
        except errors.InterfaceError as error:
            names_row = "R5" in str(error)
            print("%s, rule %s: location=%r, text=%r" % (check_type, rule, error.location, str(error)))
            if not names_row:
                violations += 1
if violations:
    print("VIOLATION: %d rejections of a check row do not name the offending row" % violations)
# For comparison: the same broken range in a field row is located.
try:
    interface.create_cid_from_string("d,format,delimited\nf,first_name,,,abc\n")
except errors.InterfaceError as error:
    print("for comparison, broken length of a field:", error)
sys.exit(1 if violations else 0)
