"""
C14 / C12 (repair 5430ea8 is incomplete): writing to a text stream whose ``name`` is None or empty fails with
AssertionError before anything is written. 5430ea8 taught errors.Location to cope with such streams, but
rowio.AbstractRowWriter.__init__() still reads ``target.name`` itself (only AttributeError is expected) and
hands None / '' to Location() as if it were a path. Reading from the very same stream works.
"""
import io
import sys
import tempfile

import cutplace
from cutplace import interface, rowio


class NamelessStringIO(io.StringIO):
    name = ""


cid = interface.create_cid_from_string("d,format,delimited\nd,line delimiter,lf\nf,a\nf,b\n")
fixed_cid = interface.create_cid_from_string("d,format,fixed\nd,line delimiter,lf\nf,a,,,2\nf,b,,,3\n")
table = [["1", "x"], ["2", "y"]]
violations = 0


def spooled():
    # tempfile.SpooledTemporaryFile.name is None as long as the data are kept in memory.
    return tempfile.SpooledTemporaryFile(mode="w+", newline="", encoding="utf-8")


for stream_label, create_stream in (("SpooledTemporaryFile (name=None)", spooled), ("StringIO with name=''", NamelessStringIO)):
    for writer_label, create_writer in (
        ("cutplace.Writer, delimited", lambda target: cutplace.Writer(cid, target)),
        ("cutplace.Writer, fixed", lambda target: cutplace.Writer(fixed_cid, target)),
        ("rowio.DelimitedRowWriter", lambda target: rowio.DelimitedRowWriter(target, cid.data_format)),
    ):
        stream = create_stream()
        try:
            writer = create_writer(stream)
            writer.write_rows(table)
            writer.close()
            print("%s on %s: written %r" % (writer_label, stream_label, stream.getvalue() if hasattr(stream, "getvalue") else "..."))
        except AssertionError as error:
            print("%s on %s: AssertionError %s" % (writer_label, stream_label, error))
            violations += 1
    # Reading from such a stream works (since 5430ea8).
    stream = create_stream()
    stream.write("1,x\n2,y\n")
    stream.seek(0)
    print("reading from %s: %r" % (stream_label, list(cutplace.rows(cid, stream))))
if violations:
    print("VIOLATION: %d writers refuse a stream that readers accept" % violations)
sys.exit(1 if violations else 0)
