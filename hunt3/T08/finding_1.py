"""
C09: the example of a field is judged against the data format as it is at the field's row, not against the
data format the field works with. A D row below the field changes what the field accepts (decimal separator,
thousands separator, allowed characters) but not the verdict on the example.
"""
import io
import sys

import cutplace
from cutplace import errors, interface


def load(cid_text):
    try:
        return interface.create_cid_from_string(cid_text), None
    except errors.InterfaceError as error:
        return None, error


def verdict_on_data(cid, data_text):
    """None if the only row of ``data_text`` is accepted, otherwise the error."""
    for item in cutplace.rows(cid, io.StringIO(data_text), on_error="yield"):
        if isinstance(item, Exception):
            return item
    return None


violations = 0

# (a) "if" direction: all conditions of C09 hold (the field accepts "1,5"), yet the CID is refused.
d_below = 'd,format,delimited\nd,item delimiter,;\nf,amount,"1,5",,,Decimal\nd,decimal separator,","\n'
d_above = 'd,format,delimited\nd,item delimiter,;\nd,decimal separator,","\nf,amount,"1,5",,,Decimal\n'
cid_below, error_below = load(d_below)
cid_above, error_above = load(d_above)
print("(a) decimal separator declared above the field: ", "accepted" if cid_above else "refused: %s" % error_above)
print("(a) decimal separator declared below the field: ", "accepted" if cid_below else "refused: %s" % error_below)
if cid_above is not None:
    print("    the field of the accepted twin judges '1,5':", verdict_on_data(cid_above, "1,5\n") or "accepted")
if cid_above is not None and cid_below is None:
    print("    VIOLATION: same declarations, example accepted by its own field, CID refused")
    violations += 1

# (b) "only if" direction: the CID is accepted although its own field refuses the example.
cid_b, error_b = load('d,format,delimited\nd,item delimiter,;\nf,amount,1.5,,,Decimal\nd,decimal separator,","\n')
print("(b) example 1.5, decimal separator ',' below the field:", "accepted" if cid_b else "refused: %s" % error_b)
if cid_b is not None:
    data_error = verdict_on_data(cid_b, "1.5\n")
    print("    the field judges its own example '1.5':", data_error or "accepted")
    if data_error is not None:
        print("    VIOLATION: CID accepted with an example its own field refuses")
        violations += 1

# (c) same with allowed characters (does not depend on the Decimal repair).
cid_c, error_c = load('d,format,delimited\nf,name,abc\nd,allowed characters,48...57\n')
print("(c) example abc, allowed characters 48...57 below the field:", "accepted" if cid_c else "refused: %s" % error_c)
if cid_c is not None:
    data_error = verdict_on_data(cid_c, "abc\n")
    print("    the field judges its own example 'abc':", data_error or "accepted")
    if data_error is not None:
        print("    VIOLATION: CID accepted with an example its own field refuses")
        violations += 1
_, error_c2 = load('d,format,delimited\nd,allowed characters,48...57\nf,name,abc\n')
print("(c) same rows, D row above the field:", "accepted" if error_c2 is None else "refused: %s" % error_c2)

sys.exit(1 if violations else 0)
