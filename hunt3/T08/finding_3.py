"""
C09 / C10 (and C04 for part b): a field format or check that passes on the RangeValueError of a
cutplace.ranges.Range - which validio.BaseValidator.validate_row() explicitly provides for ("Field formats
building on ranges might pass on a RangeValueError", repair e539861) - is handled in only some of the places.

(a) Cid.add_field_format_row() expects only FieldValueError from the example: a CID whose example is out of
    range is refused with a RangeValueError, i.e. a *data* error without location, instead of an InterfaceError
    naming the row (C09 last sentence; C10 "raises an interface error (problem in the CID)").
(b) validate_row() adds the missing location only to a CheckError (repair 0fec6bd): a row refused by a check
    with a RangeValueError is reported as data error without input, row and column (C04, second sentence).
"""
import io
import sys

import cutplace
from cutplace import checks, errors, fields, interface, ranges


class PercentFieldFormat(fields.AbstractFieldFormat):
    def __init__(self, field_name, is_allowed_to_be_empty, length, rule, data_format):
        super().__init__(field_name, is_allowed_to_be_empty, length, rule, data_format, empty_value=None)
        self._range = ranges.Range("0...100")

    def validated_value(self, value):
        try:
            result = int(value)
        except ValueError:
            raise errors.FieldValueError("value must be an integer number: %r" % value)
        self._range.validate("percentage", result)
        return result


class SumIsInRangeCheck(checks.AbstractCheck):
    def __init__(self, description, rule, available_field_names, location=None):
        super().__init__(description, rule, available_field_names, location)
        self._range = ranges.Range(rule)

    def check_row(self, field_name_to_value_map, location):
        self._range.validate("sum", sum(int(value) for value in field_name_to_value_map.values()))


violations = 0

print("(a) CID with an example the field refuses with RangeValueError")
try:
    interface.create_cid_from_string("d,format,delimited\nf,done,200,,,Percent\n")
    print("    accepted (unexpected)")
except errors.InterfaceError as error:
    print("    InterfaceError: %s" % error)
except errors.DataError as error:
    print("    %s (a data error), location=%r: %s" % (type(error).__name__, error.location, error))
    print("    VIOLATION: rejection of a CID is no interface error and does not name the row")
    violations += 1
# for comparison: an example refused with FieldValueError
try:
    interface.create_cid_from_string("d,format,delimited\nf,done,abc,,,Percent\n")
except errors.InterfaceError as error:
    print("    for comparison, example 'abc': InterfaceError: %s" % error)

print("(b) row refused by a check with RangeValueError")
cid = interface.create_cid_from_string(
    "d,format,delimited\nf,done,,,,Percent\nf,pending,,,,Percent\nc,at most 100 in total,SumIsInRange,0...100\n"
)
for item in cutplace.rows(cid, io.StringIO("10,20\n60,70\n50,200\n"), on_error="yield"):
    if isinstance(item, Exception):
        print("    %s, location=%r: %s" % (type(item).__name__, item.location, item))
        if item.location is None:
            print("    VIOLATION: rejected row reported without input, row and column")
            violations += 1
    else:
        print("    accepted: %s" % item)
sys.exit(1 if violations else 0)
