"""
Finding 4 (C09 / C10, incomplete repair e539861): a field format that passes on a RangeValueError (which
BaseValidator.validate_row() explicitly supports since e539861) makes Cid loading fail with that
RangeValueError - a data error without location - when the example in the CID is the value that is refused.

Run: cd /tmp/wt_05 && PYTHONPATH=/tmp/wt_05 /venv/bin/python -W ignore /tmp/hunt3_05/finding_4.py
"""
import io
import sys

from cutplace import errors, fields, interface, ranges, validio


class SizedFieldFormat(fields.AbstractFieldFormat):
    """Text with a number of characters within the range given as rule."""

    def __init__(self, field_name, is_allowed_to_be_empty, length, rule, data_format):
        super().__init__(field_name, is_allowed_to_be_empty, length, rule, data_format, empty_value="")
        self._size_range = ranges.Range(rule)

    def validated_value(self, value):
        self._size_range.validate("size of " + self.field_name, len(value))
        return value


CID_TEXT = "d,format,delimited\nf,name,%s,,,Sized,2...4\n"

# The same value in the data is reported properly (this is what e539861 repaired).
cid = interface.create_cid_from_string(CID_TEXT % "abc")
for row_or_error in validio.rows(cid, io.StringIO("abcdef\n"), on_error="yield"):
    print("in the data:      %s: %s" % (type(row_or_error).__name__, row_or_error))

# As example in the CID it escapes as data error.
try:
    interface.create_cid_from_string(CID_TEXT % "abcdef")
    print("as example in CID: accepted")
    sys.exit(0)
except errors.InterfaceError as error:
    print("as example in CID: InterfaceError: %s" % error)
    sys.exit(0 if "R2" in str(error) else 1)
except errors.DataError as error:
    print("as example in CID: %s (a DataError, location=%s): %s" % (type(error).__name__, error.location, error))
    print("VIOLATION: loading a CID must fail with an InterfaceError naming the row")
    sys.exit(1)
