"""
Finding 3 (C09): a check whose constructor refuses its rule with an InterfaceError that has no location (for
example because it builds on cutplace.ranges.Range the way the documented example check does) makes the CID
fail with an error that does not name the offending row. For field formats Cid.add_field_format_row() supplies
the missing location; Cid.add_check_row() does not.

Run: cd /tmp/wt_05 && PYTHONPATH=/tmp/wt_05 /venv/bin/python -W ignore /tmp/hunt3_05/finding_3.py
"""
import sys

from cutplace import checks, errors, fields, interface, ranges


# The check from docs/api.rst ("Adding your own checks") and examples/plugins.py, verbatim.
class FullNameLengthIsInRangeCheck(checks.AbstractCheck):
    def __init__(self, description, rule, available_field_names, location=None):
        super().__init__(description, rule, available_field_names, location)
        self._full_name_range = ranges.Range(rule)
        self.reset()

    def check_row(self, field_name_to_value_map, location):
        full_name = field_name_to_value_map["last_name"] + ", " + field_name_to_value_map["first_name"]
        self._full_name_range.validate("length of full name", len(full_name), location)


# The same idea as a field format, to show the difference.
class SizedFieldFormat(fields.AbstractFieldFormat):
    def __init__(self, field_name, is_allowed_to_be_empty, length, rule, data_format):
        super().__init__(field_name, is_allowed_to_be_empty, length, rule, data_format, empty_value="")
        self._size_range = ranges.Range(rule)

    def validated_value(self, value):
        return value


def rejection(cid_text):
    try:
        interface.create_cid_from_string(cid_text)
    except errors.InterfaceError as error:
        return error
    return None


violations = 0
base = "d,format,delimited\nf,first_name\nf,last_name\n"
for broken_rule in ("100...1", "abc", '"1...5, 3...8"'):
    field_error = rejection(base + "f,nickname,,,,Sized,%s\n" % broken_rule)
    check_error = rejection(base + "c,full name must fit,FullNameLengthIsInRange,%s\n" % broken_rule)
    print("rule %s" % broken_rule)
    print("  as rule of a field (row 4): %s" % field_error)
    print("  as rule of a check (row 4): %s   [location=%s]" % (check_error, check_error.location))
    assert field_error is not None and check_error is not None
    if "R4" not in str(check_error):
        violations += 1
print("rejections of a check row that do not name the row: %d" % violations)
sys.exit(1 if violations else 0)
