"""
Finding 1 (C20, also C18/C08): field formats and checks imported with import_plugins() vanish after a
garbage collection, because nothing keeps the plugin modules (and hence their classes) alive.

Run: cd /tmp/wt_05 && PYTHONPATH=/tmp/wt_05 /venv/bin/python -W ignore /tmp/hunt3_05/finding_1.py
"""
import gc
import io
import os
import sys
import tempfile
import textwrap

from cutplace import errors, interface, validio

PLUGIN = textwrap.dedent(
    '''
    from cutplace import checks, errors, fields

    class ColorFieldFormat(fields.AbstractFieldFormat):
        def __init__(self, field_name, is_allowed_to_be_empty, length, rule, data_format):
            super().__init__(field_name, is_allowed_to_be_empty, length, rule, data_format, empty_value="")

        def validated_value(self, value):
            if value not in ("red", "green", "blue"):
                raise errors.FieldValueError("color is %r but must be red, green or blue" % value)
            return value

    class ShortRowCheck(checks.AbstractCheck):
        def check_row(self, field_name_to_value_map, location):
            if sum(len(value) for value in field_name_to_value_map.values()) > int(self.rule):
                raise errors.CheckError("row too long", location)
    '''
)
CID_TEXT = "d,format,delimited\nf,item\nf,color,,,,Color\nc,short rows,ShortRow,30\n"
DATA_TEXT = "flower,red\ntree,green\n"


def attempt(label):
    """Validate DATA_TEXT with a CID loaded from scratch, the way validio.validate(cid_path, ...) would do it."""
    try:
        cid = interface.create_cid_from_string(CID_TEXT)
        validio.validate(cid, io.StringIO(DATA_TEXT))
        print("%-58s accepted" % label)
        return True
    except errors.CutplaceError as error:
        print("%-58s %s: %s" % (label, type(error).__name__, str(error)[:110]))
        return False


with tempfile.TemporaryDirectory() as plugin_folder:
    with open(os.path.join(plugin_folder, "myplugins.py"), "w") as plugin_file:
        plugin_file.write(PLUGIN)
    interface.import_plugins(plugin_folder)

    results = []
    results.append(attempt("1. right after import_plugins():"))
    # Ordinary work of an application between two validations: collect a table of rows in memory. This makes
    # the interpreter run its cyclic garbage collector on its own.
    table = [["item%d" % number, "red"] for number in range(200000)]
    results.append(attempt("2. after building a list of 200000 rows (no gc call):"))
    del table
    gc.collect()
    results.append(attempt("3. after an explicit gc.collect():"))

if all(results):
    print("plugin classes stay available: no violation")
    sys.exit(0)
print("VIOLATION: the same CID and data are accepted or refused depending on whether a garbage collection ran")
sys.exit(1)
