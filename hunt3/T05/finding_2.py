"""
Finding 2 (C05): IsUnique and DistinctCount compare the texts of the cells, not the values of the fields.

Run: cd /tmp/wt_05 && PYTHONPATH=/tmp/wt_05 /venv/bin/python -W ignore /tmp/hunt3_05/finding_2.py
"""
import io
import sys

from cutplace import errors, interface, validio

violations = 0


def run(title, cid_text, data_text):
    global violations
    print(title)
    cid = interface.create_cid_from_string(cid_text)
    key_field = cid.field_formats[0]
    reader = validio.Reader(cid, io.StringIO(data_text), on_error="yield")
    values = []
    rejected = 0
    for row_number, row_or_error in enumerate(reader.rows(), 1):
        if isinstance(row_or_error, errors.DataError):
            rejected += 1
            print("  row %d rejected: %s" % (row_number, row_or_error))
        else:
            value = key_field.validated(row_or_error[0])
            values.append(value)
            print("  row %d accepted: cell %r, value of the key field %r" % (row_number, row_or_error[0], value))
    try:
        reader.close()
        end_failed = False
        print("  end of data: DistinctCount '== 1' passed")
    except errors.CheckError as error:
        end_failed = True
        print("  end of data: %s" % error)
    distinct_values = len(set(values))
    if len(values) > distinct_values:
        print("  -> IsUnique accepted %d rows holding only %d distinct key value(s)" % (len(values), distinct_values))
        violations += 1
    if end_failed and (distinct_values == 1) and (rejected == 0):
        print("  -> DistinctCount failed although the field has exactly 1 distinct value")
        violations += 1


run(
    "fixed-width Integer key, the same number left- and right-aligned",
    "d,format,fixed\nd,line delimiter,lf\nf,id,,,3,Integer\nf,name,,,1\n"
    "c,id must be unique,IsUnique,id\nc,one id only,DistinctCount,id == 1\n",
    "  7a\n7  b\n 7 c\n",
)
run(
    "fixed-width Text key (blanks are padding, C03/C14)",
    "d,format,fixed\nd,line delimiter,lf\nf,code,,,3\nf,name,,,1\n"
    "c,code must be unique,IsUnique,code\nc,one code only,DistinctCount,code == 1\n",
    " aba\nab b\n",
)
run(
    "delimited Decimal key with thousands separator",
    'd,format,delimited\nd,thousands separator,","\nf,amount,,,,Decimal\nf,name\n'
    "c,amount must be unique,IsUnique,amount\nc,one amount only,DistinctCount,amount == 1\n",
    '"1,000",a\n1000,b\n1000.0,c\n',
)
print("violations: %d" % violations)
sys.exit(1 if violations else 0)
