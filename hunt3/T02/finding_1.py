"""
C14: a row refused by the writer at the encoding stage as the very first row of a UTF-16 / UTF-32 output
makes the byte order mark disappear; everything written afterwards cannot be read back under the same CID.
"""
import os
import sys
import tempfile

from cutplace import errors, interface, validio

violated = False
folder = tempfile.mkdtemp(prefix="hunt3_02_f1_")
for data_format_name, length in (("delimited", ""), ("fixed", "3")):
    for encoding in ("utf-16", "utf-32"):
        cid = interface.Cid()
        cid.read(
            "inline",
            [["d", "format", data_format_name], ["d", "encoding", encoding], ["f", "name", "", "", length]],
        )
        target_path = os.path.join(folder, "out_%s_%s.txt" % (data_format_name, encoding))
        accepted_rows = []
        with validio.Writer(cid, target_path) as writer:
            for row in (["\ud800"], ["abc"], ["xyz"]):  # the first row holds a lone surrogate: cannot be encoded
                try:
                    writer.write_row(row)
                    accepted_rows.append(row)
                except errors.DataError as error:
                    print("%s/%s: refused %r: %s" % (data_format_name, encoding, row, type(error).__name__))
        with open(target_path, "rb") as target_file:
            print("%s/%s: bytes written: %r" % (data_format_name, encoding, target_file.read()))
        try:
            rows_read = list(validio.rows(cid, target_path))
            print("%s/%s: accepted %r, read back %r" % (data_format_name, encoding, accepted_rows, rows_read))
            if rows_read != accepted_rows:
                violated = True
        except errors.CutplaceError as error:
            print("%s/%s: accepted %r but reading back fails: %s" % (data_format_name, encoding, accepted_rows, error))
            violated = True
print("VIOLATION" if violated else "ok")
sys.exit(1 if violated else 0)
