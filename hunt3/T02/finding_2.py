"""
C14: after the writer refused a row at the encoding stage, the encoder of the target file keeps the shift state
the refused row left behind. With ISO-2022-JP (also ISO-2022-KR, HZ) the next accepted row is emitted without
its escape sequence and reads back as different text (silently) or not at all.
"""
import os
import sys
import tempfile

from cutplace import errors, interface, validio

violated = False
folder = tempfile.mkdtemp(prefix="hunt3_02_f2_")
for encoding in ("iso2022_jp", "iso2022_kr", "hz"):
    cid = interface.Cid()
    cid.read("inline", [["d", "format", "delimited"], ["d", "encoding", encoding], ["f", "name"]])
    target_path = os.path.join(folder, "out_%s.csv" % encoding)
    accepted_rows = []
    with validio.Writer(cid, target_path) as writer:
        # The emoji in the second row is no part of these encodings.
        for row in (["abc"], ["あ\U0001F600"], ["あ"], ["abc"], ["あい"]):
            try:
                writer.write_row(row)
                accepted_rows.append(row)
            except errors.DataError as error:
                print("%s: refused %r: %s" % (encoding, row, type(error).__name__))
    with open(target_path, "rb") as target_file:
        print("%s: bytes written: %r" % (encoding, target_file.read()))
    try:
        rows_read = list(validio.rows(cid, target_path))
        print("%s: accepted  %r" % (encoding, accepted_rows))
        print("%s: read back %r" % (encoding, rows_read))
        if rows_read != accepted_rows:
            violated = True
    except errors.CutplaceError as error:
        print("%s: accepted %r but reading back fails: %s" % (encoding, accepted_rows, error))
        violated = True
    # Control: without the refused row the same rows round trip, so the encoding as such is not the problem.
    control_rows = [["abc"], ["あ"], ["abc"], ["あい"]]
    with validio.Writer(cid, target_path) as writer:
        writer.write_rows(control_rows)
    assert list(validio.rows(cid, target_path)) == control_rows, "control must round trip"
print("VIOLATION" if violated else "ok")
sys.exit(1 if violated else 0)
