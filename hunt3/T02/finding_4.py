"""
C16 (last sentence) / focus "what is refused, close()": XlsxRowWriter.write_row() accepts an item it can never
store (a lone surrogate); close() then fails with a plain UnicodeEncodeError and none of the rows written before
or after it can be read back. The delimited and fixed writers refuse such a row with a DataFormatError.
"""
import os
import sys
import tempfile

from cutplace import errors, rowio

violated = False
target_path = os.path.join(tempfile.mkdtemp(prefix="hunt3_02_f4_"), "out.xlsx")
writer = rowio.XlsxRowWriter(target_path)
writer.write_row(["a", "b"])
try:
    writer.write_row(["c", "\ud800"])
    print("write_row() accepted the row with the lone surrogate")
    accepted_rows = [["a", "b"], ["c", "\ud800"], ["e", "f"]]
except errors.CutplaceError as error:
    print("write_row() refused the row: %s" % error)
    accepted_rows = [["a", "b"], ["e", "f"]]
writer.write_row(["e", "f"])
try:
    writer.close()
    rows_read = list(rowio.excel_rows(target_path))
    print("read back: %r" % rows_read)
    if rows_read != accepted_rows:
        violated = True
except errors.CutplaceError as error:
    print("close() failed with cutplace error: %s" % error)
except Exception as error:
    print("close() failed with %s: %s" % (type(error).__name__, error))
    violated = True
    try:
        print("read back: %r" % list(rowio.excel_rows(target_path)))
    except Exception as read_error:
        print("the workbook cannot be read: %s: %s" % (type(read_error).__name__, str(read_error)[:100]))
print("VIOLATION" if violated else "ok")
sys.exit(1 if violated else 0)
