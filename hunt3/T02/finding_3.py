"""
C14 / C12 (incomplete repair 5430ea8): writers cannot be created for a text stream whose ``name`` is None or
empty, for example tempfile.SpooledTemporaryFile(mode="w+"): AssertionError instead of writing the rows.
Readers accept the same streams since 5430ea8.
"""
import io
import sys
import tempfile

from cutplace import data, interface, rowio, validio


class NamelessStringIO(io.StringIO):
    name = ""


violated = False
delimited_cid = interface.Cid()
delimited_cid.read("inline", [["d", "format", "delimited"], ["d", "encoding", "utf-8"], ["f", "name"]])
fixed_cid = interface.Cid()
fixed_cid.read("inline", [["d", "format", "fixed"], ["d", "encoding", "utf-8"], ["f", "name", "", "", "3"]])
xlsx_free_format = data.DataFormat(data.FORMAT_DELIMITED)
xlsx_free_format.validate()

candidates = [
    ("Writer/delimited", lambda stream: validio.Writer(delimited_cid, stream)),
    ("Writer/fixed", lambda stream: validio.Writer(fixed_cid, stream)),
    ("DelimitedRowWriter", lambda stream: rowio.DelimitedRowWriter(stream, xlsx_free_format)),
]
for description, create_writer in candidates:
    for stream_description, create_stream in (
        ("SpooledTemporaryFile with name=None", lambda: tempfile.SpooledTemporaryFile(mode="w+", newline="")),
        ("StringIO subclass with name=''", NamelessStringIO),
    ):
        stream = create_stream()
        try:
            writer = create_writer(stream)
            writer.write_row(["abc"])
            writer.close()
            stream.seek(0)
            print("%s, %s: wrote %r" % (description, stream_description, stream.read()))
            # Reading the same kind of stream works.
        except AssertionError as error:
            print("%s, %s: AssertionError %s" % (description, stream_description, error))
            violated = True

# For comparison: the reader copes with such a stream.
source = tempfile.SpooledTemporaryFile(mode="w+", newline="")
source.write("abc\r\n")
source.seek(0)
print("reading from a stream with name=None:", list(validio.rows(delimited_cid, source)))
print("VIOLATION" if violated else "ok")
sys.exit(1 if violated else 0)
