"""
C09: the example of a field is judged against the data format as it is when the F row is read,
not against the field of the loaded CID.  Data-format rows that follow the field (allowed characters,
decimal / thousands separator) change what the field accepts afterwards (the field asks its data format
when it validates), but the verdict on the example is never revised.

Run:  cd /tmp/wt_03 && PYTHONPATH=/tmp/wt_03 /venv/bin/python -W ignore /tmp/hunt3_03/finding_1.py
"""
import io
import sys

from cutplace import errors, interface, validio


def load(cid_text):
    try:
        return interface.create_cid_from_string(cid_text)
    except errors.InterfaceError as error:
        return error


def field_accepts(cid, value):
    """True if the loaded CID accepts a data set consisting of the single cell ``value``."""
    out = io.StringIO(newline="")
    import csv

    df = cid.data_format
    csv.writer(out, delimiter=df.item_delimiter, quotechar=df.quote_character, lineterminator="\n").writerow([value])
    try:
        validio.validate(cid, io.StringIO(out.getvalue(), newline=""))
        return True
    except errors.DataError as error:
        print("      data error: %s" % error)
        return False


violations = 0

print("(a) CID accepted although its own field rejects the example")
cid_a = "D,Format,Delimited\nF,name,ä\nD,Allowed characters,32...126\n"
cid_a_reordered = "D,Format,Delimited\nD,Allowed characters,32...126\nF,name,ä\n"
result = load(cid_a)
print("    D-row after the field : %s" % result)
print("    D-row before the field: %s" % load(cid_a_reordered))
if isinstance(result, interface.Cid):
    example = result.field_formats[0].example
    accepted = field_accepts(result, example)
    print("    loaded CID accepts a data cell equal to the example %r: %s" % (example, accepted))
    if not accepted:
        violations += 1

print("(b) the same with the decimal separator")
cid_b = 'D,Format,Delimited\nD,Item delimiter,;\nF,amount,1.5,,,Decimal\nD,Decimal separator,","\n'
result = load(cid_b)
print("    %s" % result)
if isinstance(result, interface.Cid):
    accepted = field_accepts(result, "1.5")
    print("    loaded CID accepts a data cell equal to the example '1.5': %s" % accepted)
    if not accepted:
        violations += 1

print("(c) CID rejected although the field it declares accepts the example")
cid_c = 'D,Format,Delimited\nD,Item delimiter,;\nF,amount,"1,5",,,Decimal\nD,Decimal separator,","\n'
cid_c_no_example = 'D,Format,Delimited\nD,Item delimiter,;\nF,amount,,,,Decimal\nD,Decimal separator,","\n'
result = load(cid_c)
print("    with example '1,5'   : %s" % result)
without_example = load(cid_c_no_example)
print("    without the example  : %s" % without_example)
if isinstance(result, errors.InterfaceError) and isinstance(without_example, interface.Cid):
    accepted = field_accepts(without_example, "1,5")
    print("    the field as declared accepts '1,5': %s" % accepted)
    if accepted:
        violations += 1

print("violations: %d" % violations)
sys.exit(1 if violations else 0)
