"""
C09: a CID stored as Excel is refused (with a DataFormatError, not an InterfaceError) because of a cell
that C09 says is ignored: a cell in a row with an empty first cell (comment row) or beyond the parsed
columns.  It is enough that the cell is a date / time / duration cell xlrd cannot convert, for example
a date before 1900-03-01, a duration of 36:00:00 or the time 23:59:59.9.

Run:  cd /tmp/wt_03 && PYTHONPATH=/tmp/wt_03 /venv/bin/python -W ignore /tmp/hunt3_03/finding_2.py
"""
import os
import sys
import tempfile

import xlsxwriter

from cutplace import errors, interface

CID_ROWS = [
    ["D", "Format", "Delimited"],
    ["", "Interface: customers, as of"],  # comment row: empty first cell
    ["F", "customer_id", "", "", "", "Integer", "0...99999"],
    ["F", "surname"],
]


def write_cid(path, extra_cell=None):
    workbook = xlsxwriter.Workbook(path)
    worksheet = workbook.add_worksheet()
    for y, row in enumerate(CID_ROWS):
        for x, cell in enumerate(row):
            if cell != "":
                worksheet.write_string(y, x, cell)
    if extra_cell is not None:
        y, x, number, number_format = extra_cell
        worksheet.write_number(y, x, number, workbook.add_format({"num_format": number_format}))
    workbook.close()


def load(path):
    try:
        cid = interface.Cid(path)
        return "accepted, fields=%s" % cid.field_names
    except errors.InterfaceError as error:
        return "InterfaceError: %s" % error
    except errors.CutplaceError as error:
        return "%s: %s" % (type(error).__name__, error)


folder = tempfile.mkdtemp(prefix="hunt3_03_")
cases = [
    ("no extra cell", None),
    ("comment row, ordinary date 2020-06-18", (1, 2, 44000, "yyyy-mm-dd")),
    ("comment row, date 1900-02-15 (serial 46)", (1, 2, 46, "yyyy-mm-dd")),
    ("column 10 of an F row (beyond the parsed columns), duration 36:00:00", (2, 9, 1.5, "[h]:mm:ss")),
    ("column 10 of an F row (beyond the parsed columns), time 23:59:59.9", (2, 9, 0.9999988, "hh:mm:ss")),
]
violations = 0
for index, (title, extra_cell) in enumerate(cases):
    path = os.path.join(folder, "cid_%d.xlsx" % index)
    write_cid(path, extra_cell)
    outcome = load(path)
    print("%-75s -> %s" % (title, outcome))
    if not outcome.startswith("accepted"):
        violations += 1
print("violations: %d" % violations)
sys.exit(1 if violations else 0)
