"""
C09 / C01: lengths and rules that are no range description in the sense of C01 are accepted.
"""
import sys

from cutplace import errors, interface, ranges


def load(rows):
    cid = interface.Cid()
    cid.read("inline", rows)
    return cid


violations = 0
ill_formed_lengths = ["1...5...", "...1...", "1......5", "1::5", "1...:5", ",", "1,,5", ",1,", "'...'"]
for length in ill_formed_lengths:
    try:
        cid = load([["d", "format", "delimited"], ["f", "x", "", "", length, "Text", ""]])
        field = cid.field_formats[0]
        verdicts = []
        for value in ("a", "abcde", "abcdefg"):
            try:
                field.validated(value)
                verdicts.append("%r ok" % value)
            except errors.FieldValueError:
                verdicts.append("%r rejected" % value)
        print("ACCEPTED length %-10r items=%r: %s" % (length, field.length.items, ", ".join(verdicts)))
        violations += 1
    except errors.InterfaceError as error:
        print("refused length %r: %s" % (length, error))

# Same for rules of Integer and Decimal fields; "1_000" shows that repair e9ae8d7 did not reach DecimalRange.
for field_type, rule in (("Integer", "1...5..."), ("Integer", ","), ("Decimal", "1......2"), ("Decimal", "1_000...2_000")):
    try:
        cid = load([["d", "format", "delimited"], ["f", "x", "", "", "", field_type, rule]])
        print("ACCEPTED %s rule %r items=%r" % (field_type, rule, cid.field_formats[0].valid_range.items))
        violations += 1
    except errors.InterfaceError as error:
        print("refused %s rule %r: %s" % (field_type, rule, error))

# And for the allowed characters.
try:
    cid = load([["d", "format", "delimited"], ["d", "allowed characters", "32......:126..."], ["f", "x"]])
    print("ACCEPTED allowed characters '32......:126...' items=%r" % cid.data_format.allowed_characters.items)
    violations += 1
except errors.InterfaceError as error:
    print("refused allowed characters: %s" % error)

sys.exit(1 if violations else 0)
