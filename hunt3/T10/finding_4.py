"""
C19: the decimal column for a Decimal field with a rule that is open on one side cannot store
values the field accepts; digits are derived from the one limit that is there.
"""
import re
import sys

from cutplace import errors, interface, sql


def load(rows):
    cid = interface.Cid()
    cid.read("inline", rows)
    return cid


violations = 0
for rule, accepted_value in (("0...", "12345.678"), ("...100", "-1000000"), ("0.5...", "99"), ("...-0.01", "-5")):
    cid = load([["d", "format", "delimited"], ["f", "amount", "", "", "", "Decimal", rule]])
    field = cid.field_formats[0]
    value = field.validated(accepted_value)  # raises if not accepted
    for dialect in (sql.ANSI_SQL_DIALECT, sql.DB2_SQL_DIALECT, sql.TRANSACT_SQL_DIALECT, sql.PL_SQL_DIALECT):
        column = sql.SqlFactory(cid, "t", dialect).create_table_statement().split("\n")[1].strip()
        match = re.search(r"\((\d+), (\d+)\)", column)
        total, fraction = int(match.group(1)), int(match.group(2))
        _, digits, exponent = value.as_tuple()
        integer_digits = max(len(digits) + exponent, 0)
        fits = integer_digits <= total - fraction
        print("rule %-10r %-13s %-35s accepted value %s %s" % (rule, dialect, column, value, "fits" if fits else "DOES NOT FIT"))
        if not fits:
            violations += 1
# For comparison: without any rule the documented default is used, an open Integer rule gives a plain int.
cid = load([["d", "format", "delimited"], ["f", "amount", "", "", "", "Decimal", ""], ["f", "n", "", "", "", "Integer", "0..."]])
print(sql.SqlFactory(cid, "t", sql.DB2_SQL_DIALECT).create_table_statement())
sys.exit(1 if violations else 0)
