"""
C09: a structurally sound fixed-width CID with a Constant field whose constant is shorter than
the field width (or that is always empty) is refused.
"""
import sys

from cutplace import errors, interface


def load(rows):
    cid = interface.Cid()
    cid.read("inline", rows)
    return cid


violations = 0
candidates = [
    ("constant shorter than the width", [["d", "format", "fixed"], ["f", "kind", "", "", "5", "Constant", '"ab"']]),
    ("same with a valid example", [["d", "format", "fixed"], ["f", "kind", "ab", "", "5", "Constant", '"ab"']]),
    ("always empty constant", [["d", "format", "fixed"], ["f", "filler", "", "X", "5", "Constant", ""]]),
]
for title, rows in candidates:
    try:
        cid = load(rows)
        field = cid.field_formats[0]
        print("accepted: %s; 'ab   ' -> %r" % (title, field.validated("ab   " if rows[1][3] == "" else "     ")))
    except errors.InterfaceError as error:
        violations += 1
        print("REFUSED (%s): %s" % (title, error))

# For comparison: the same field as Choice is accepted and takes the padded value.
cid = load([["d", "format", "fixed"], ["f", "kind", "", "", "5", "Choice", '"ab"']])
print("comparison: Choice \"ab\" with width 5 accepted, 'ab   ' -> %r" % cid.field_formats[0].validated("ab   "))
# The only spelling the loader takes for width 5 can never match any data.
cid = load([["d", "format", "fixed"], ["f", "kind", "", "", "5", "Constant", '"ab   "']])
try:
    cid.field_formats[0].validated("ab   ")
    print("padded constant matches")
except errors.FieldValueError as error:
    print("comparison: Constant \"ab   \" with width 5 is accepted by the loader but rejects 'ab   ': %s" % error)

sys.exit(1 if violations else 0)
