"""
C09 / C01: whether overlapping items are refused depends on their order.
"""
import sys

from cutplace import errors, interface


def verdict(field_type, length, rule):
    try:
        cid = interface.Cid()
        cid.read("inline", [["d", "format", "delimited"], ["f", "x", "", "", length, field_type, rule]])
        return "accepted"
    except errors.InterfaceError as error:
        return "refused"


violations = 0
pairs = [
    ("1...10, 5...6", "5...6, 1...10"),
    ("...10, 3...5", "3...5, ...10"),
    ("...7, ...5", "...5, ...7"),
    ("1..., 3...", "3..., 1..."),
    ("1...9, 5", "5, 1...9"),
]
for first, second in pairs:
    for field_type, as_length in (("Text", True), ("Integer", False), ("Decimal", False)):
        verdict_first = verdict(field_type, first if as_length else "", "" if as_length else first)
        verdict_second = verdict(field_type, second if as_length else "", "" if as_length else second)
        kind = "length" if as_length else field_type + " rule"
        print("%-13s %-16r %-8s | %-16r %s" % (kind, first, verdict_first, second, verdict_second))
        if verdict_first != verdict_second:
            violations += 1
print("%d description(s) with the same items get a different verdict when the items are swapped" % violations)
sys.exit(1 if violations else 0)
