"""
C02: separator text of a DateTime rule is compared ignoring case, so values that are not in the layout of the
rule are accepted.

Run:  cd /tmp/wt_06 && PYTHONPATH=/tmp/wt_06 /venv/bin/python -W ignore /tmp/hunt3_06/finding_2.py
"""
import io
import sys

from cutplace import errors, interface, validio

cid = interface.Cid()
cid.read(
    "cid_in_memory",
    [
        ["d", "format", "delimited"],
        ["d", "item delimiter", ";"],
        ["f", "created", "2020-01-02T03:04:05", "", "", "DateTime", "YYYY-MM-DDThh:mm:ss"],
        ["f", "arrival", "17:23 Uhr", "", "", "DateTime", "hh:mm Uhr"],
    ],
)
data = (
    "2020-01-02T03:04:05;17:23 Uhr\n"  # exactly the layout: must be accepted
    "2020-01-02t03:04:05;17:23 Uhr\n"  # 't' instead of 'T'
    "2020-01-02T03:04:05;17:23 UHR\n"  # 'UHR' instead of 'Uhr'
    "2020-01-02X03:04:05;17:23 Uhr\n"  # control: another letter is rejected
)
verdicts = []
with validio.Reader(cid, io.StringIO(data, newline=""), on_error="yield") as reader:
    for row_or_error in reader.rows():
        is_accepted = not isinstance(row_or_error, errors.DataError)
        verdicts.append(is_accepted)
        print("accepted" if is_accepted else "rejected", row_or_error)
print("verdicts:", verdicts, "- required by the statement: [True, False, False, False]")
if verdicts[1] or verdicts[2]:
    print("VIOLATION: values whose separator text differs from the rule (in case) are accepted")
    sys.exit(1)
sys.exit(0)
