"""
C09: under Format=fixed a Constant field is refused unless its width equals the number of characters of the
constant; the documented "always empty" Constant cannot be declared at all.

Run:  cd /tmp/wt_06 && PYTHONPATH=/tmp/wt_06 /venv/bin/python -W ignore /tmp/hunt3_06/finding_1.py
"""
import io
import sys

from cutplace import errors, interface, validio


def load(field_rows):
    rows = [["d", "format", "fixed"]] + [["f"] + list(field_row) for field_row in field_rows]
    cid = interface.Cid()
    cid.read("cid_in_memory", rows)
    return cid


def attempt(title, field_rows):
    try:
        cid = load(field_rows)
    except errors.InterfaceError as error:
        print("%s\n    REFUSED: %s" % (title, error))
        return None
    print("%s\n    accepted" % title)
    return cid


violated = False

# name, example, empty, length, type, rule
print("--- control: the same layout with Choice instead of Constant works")
control = attempt(
    "kind: width 5, Choice abc; filler: width 3, Text, may be empty",
    [("kind", "", "", "5", "Choice", "abc"), ("filler", "", "X", "3", "Text", "")],
)
assert control is not None
with validio.Reader(control, io.StringIO("abc     \n", newline=""), on_error="yield") as reader:
    print("    data 'abc     ' ->", list(reader.rows()))

print("--- 1. constant shorter than the column")
if attempt("kind: width 5, Constant abc", [("kind", "", "", "5", "Constant", "abc")]) is None:
    violated = True

print("--- 2. always empty constant (documented use of Constant: empty mark X, no rule)")
if attempt("filler: width 3, Constant, X, no rule", [("filler", "", "X", "3", "Constant", "")]) is None:
    violated = True

print("--- 3. the same two rows under Format=delimited without a length are fine (so type, mark and rule are sound)")
cid = interface.Cid()
cid.read(
    "cid_in_memory",
    [["d", "format", "delimited"], ["f", "kind", "", "", "", "Constant", "abc"], ["f", "filler", "", "X", "", "Constant", ""]],
)
print("    accepted:", cid.field_names)

print("--- 4. there is no other spelling: padding the constant in the rule gives a field that accepts nothing")
padded = attempt('kind: width 5, Constant "abc  "', [("kind", "", "", "5", "Constant", '"abc  "')])
if padded is not None:
    with validio.Reader(padded, io.StringIO("abc  \n", newline=""), on_error="yield") as reader:
        print("    data 'abc  ' ->", list(reader.rows()))

if violated:
    print("VIOLATION: well-formed fixed-width Constant fields (known type, X / no mark, one exact length >= 1, "
          "well-formed rule) are refused")
    sys.exit(1)
print("no violation")
sys.exit(0)
