"""
C10 / C14: with "Header 1" a fixed-width validio.Writer answers a header cell that is
longer than its field (or a header row with another number of cells) with an
AssertionError instead of a cutplace error. Run with "python -O" the row is written
misaligned instead and the output cannot be read back under the same CID.
"""
import io
import sys

from cutplace import errors, interface, validio

cid = interface.create_cid_from_string(
    "d,format,fixed\nd,line delimiter,lf\nd,header,1\nf,a,,,3\nf,b,,X,2,Integer\n"
)
violations = 0
for header_row in (["name", "no"], ["a+b"], ["a", "b", "c"]):
    target = io.StringIO(newline="")
    writer = validio.Writer(cid, target)
    try:
        writer.write_row(header_row)
        outcome = "written"
    except errors.CutplaceError as error:
        outcome = "cutplace error: %s" % error
    except Exception as error:
        outcome = "%s: %s" % (type(error).__name__, error)
        violations += 1
    print("header row %r -> %s" % (header_row, outcome))
    if outcome == "written":
        writer.write_row(["abc", "12"])
        writer.close()
        print("  output: %r" % target.getvalue())
        try:
            rows = list(validio.Reader(cid, io.StringIO(target.getvalue(), newline="")).rows())
            print("  read back: %r" % rows)
            if rows != [["abc", "12"]]:
                violations += 1
        except errors.DataError as error:
            print("  cannot read back own output: %s" % error)
            violations += 1
sys.exit(1 if violations else 0)
