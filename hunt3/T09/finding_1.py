"""
C09 / C02 / C03: a Constant field in a fixed-width CID is refused unless the constant
fills the declared width exactly; the documented "always empty" Constant cannot be
declared for fixed data at all.
"""
import io
import sys

from cutplace import errors, interface

violations = 0


def load(cid_text):
    try:
        return interface.create_cid_from_string(cid_text), None
    except errors.InterfaceError as error:
        return None, error


# 1. constant shorter than the field width (the data would hold "a  ")
cid_text = "d,format,fixed\nf,kind,,,3,Constant,a\n"
cid, error = load(cid_text)
print("Constant 'a' in a fixed field of width 3:", "accepted" if cid else "REFUSED: %s" % error)
if cid is None:
    violations += 1

# 2. the very same declaration as Choice with one value is accepted and accepts "a  "
cid, error = load("d,format,fixed\nf,kind,,,3,Choice,a\n")
print("Choice 'a' in a fixed field of width 3:", "accepted" if cid else "refused: %s" % error)
if cid is not None:
    print("  validated('a  ') ->", repr(cid.field_formats[0].validated("a  ")))

# 3. the documented always-empty constant (docs/writing-an-icd.rst: "F always_empty X Constant")
cid, error = load("d,format,fixed\nf,always_empty,,X,3,Constant,\n")
print("always empty Constant in a fixed field of width 3:", "accepted" if cid else "REFUSED: %s" % error)
if cid is None:
    violations += 1

# 4. for comparison: a constant that fills the width is accepted
cid, error = load("d,format,fixed\nf,kind,,,3,Constant,abc\n")
print("Constant 'abc' in a fixed field of width 3:", "accepted" if cid else "refused: %s" % error)

sys.exit(1 if violations else 0)
