"""
C14 (repair 5430ea8 is incomplete): validio.Writer cannot write to a text stream whose
name is None (e.g. tempfile.SpooledTemporaryFile): AssertionError in the constructor.
The reader side has been repaired, the writer side has not.
"""
import sys
import tempfile

from cutplace import errors, interface, validio

violations = 0
for format_rows in ("d,format,fixed\nd,line delimiter,lf\nf,a,,,3\n", "d,format,delimited\nd,line delimiter,lf\nf,a\n"):
    cid = interface.create_cid_from_string(format_rows)
    with tempfile.SpooledTemporaryFile(mode="w+", newline="") as target:
        print("format=%s; target.name=%r" % (cid.data_format.format, target.name))
        try:
            writer = validio.Writer(cid, target)
            writer.write_row(["ab"])
            writer.close()
            target.seek(0)
            print("  written: %r" % target.read())
        except errors.CutplaceError as error:
            print("  cutplace error: %s" % error)
        except Exception as error:
            print("  %s: %r" % (type(error).__name__, error))
            violations += 1
    # reading from such a stream works
    with tempfile.SpooledTemporaryFile(mode="w+", newline="") as source:
        source.write("ab \n")
        source.seek(0)
        print("  reading from a nameless stream: %r" % list(validio.Reader(cid, source).rows()))
sys.exit(1 if violations else 0)
