"""
Finding 3 (C16, last sentence; repair d94e8b7 is incomplete): when XlsxRowWriter.write_row() fails on an
item that is no string (the writer passes such items to xlsxwriter's write(), which refuses for example
float("nan") / float("inf")), the items before it stay in the worksheet and the cell counter is not reset.
Every row written afterwards lands in the wrong row and is shifted to the right, so the table does not read
back identically. Repair d94e8b7 fixed this only for the two refusals the writer raises itself.

Run: cd /tmp/wt_04 && PYTHONPATH=/tmp/wt_04 /venv/bin/python -W ignore /tmp/hunt3_04/finding_3.py
Exit code 1 = violation observed, 0 = not observed.
"""
import os
import sys
import tempfile

from cutplace import rowio

folder = tempfile.mkdtemp(prefix="finding_3_")
xlsx_path = os.path.join(folder, "shifted.xlsx")

written_rows = []
writer = rowio.XlsxRowWriter(xlsx_path)
try:
    for row in (["r1a", "r1b", "r1c"], ["bad", float("nan"), "never"], ["r2a", "r2b", "r2c"], ["r3a", "r3b", "r3c"]):
        try:
            writer.write_row(row)
            written_rows.append(row)
        except Exception as error:
            print("write_row(%r) refused: %s: %s" % (row, type(error).__name__, error))
finally:
    writer.close()

read_rows = list(rowio.excel_rows(xlsx_path))
print("rows write_row() accepted:", written_rows)
print("rows read back           :", read_rows)
if read_rows != written_rows:
    print("VIOLATION: the rows accepted after the refused row do not read back identically")
    sys.exit(1)
print("no violation")
sys.exit(0)
