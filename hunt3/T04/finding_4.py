"""
Finding 4 (borderline; C16 last sentence, C10 in spirit): XlsxRowWriter.write_row() accepts a string with a
lone surrogate (for example what open(..., errors="surrogateescape") delivers for an undecodable byte), but
close() then fails with a plain UnicodeEncodeError - not a cutplace error - and the workbook with ALL rows
written so far is lost / unreadable. DelimitedRowWriter and FixedRowWriter report the same item as
DataFormatError for the one row and carry on.

Run: cd /tmp/wt_04 && PYTHONPATH=/tmp/wt_04 /venv/bin/python -W ignore /tmp/hunt3_04/finding_4.py
Exit code 1 = violation observed, 0 = not observed.
"""
import io
import os
import sys
import tempfile

from cutplace import data, errors, rowio

folder = tempfile.mkdtemp(prefix="finding_4_")
xlsx_path = os.path.join(folder, "surrogate.xlsx")
table = [["good", "row"], ["a\udcffb", "x"], ["another", "good row"]]

# For comparison: the delimited writer refuses the one row with a cutplace error.
delimited_format = data.DataFormat(data.FORMAT_DELIMITED)
delimited_format.set_property(data.KEY_ENCODING, "utf-8")
delimited_format.validate()
csv_path = os.path.join(folder, "surrogate.csv")
with rowio.DelimitedRowWriter(csv_path, delimited_format) as delimited_writer:
    for row in table:
        try:
            delimited_writer.write_row(row)
        except errors.DataFormatError as error:
            print("DelimitedRowWriter refused %r: DataFormatError" % row)

failure = None
writer = rowio.XlsxRowWriter(xlsx_path)
for row in table:
    writer.write_row(row)
    print("XlsxRowWriter.write_row(%r): accepted" % row)
try:
    writer.close()
except errors.CutplaceError as error:
    print("close(): cutplace error:", error)
except Exception as error:
    failure = error
    print("close(): %s: %s" % (type(error).__name__, error))

try:
    read_rows = list(rowio.excel_rows(xlsx_path))
except (errors.CutplaceError, OSError) as error:
    read_rows = None
    print("reading back:", type(error).__name__, error)
else:
    print("reading back:", read_rows)

if failure is not None or read_rows != table:
    print("VIOLATION: rows accepted by write_row() cannot be read back; close() raised %r" % failure)
    sys.exit(1)
print("no violation")
sys.exit(0)
