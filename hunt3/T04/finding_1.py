"""
Finding 1 (C16, also C03/C17): a formula cell of an .xlsx whose string result is not cached
(<c t="str"><f>...</f></c> without <v>, as written for example by Gnumeric) is read as the
four letter text 'None' instead of an empty cell.

Run: cd /tmp/wt_04 && PYTHONPATH=/tmp/wt_04 /venv/bin/python -W ignore /tmp/hunt3_04/finding_1.py
Exit code 1 = violation observed, 0 = not observed.
"""
import io
import os
import sys
import tempfile
import zipfile

from cutplace import data, errors, interface, rowio, validio

NS = "http://schemas.openxmlformats.org/spreadsheetml/2006/main"
PKG = "http://schemas.openxmlformats.org/package/2006"
DOC = "http://schemas.openxmlformats.org/officeDocument/2006/relationships"


def write_xlsx(path, sheet_data_xml, shared_strings_xml):
    with zipfile.ZipFile(path, "w", zipfile.ZIP_DEFLATED) as z:
        z.writestr(
            "[Content_Types].xml",
            '<?xml version="1.0" encoding="UTF-8"?><Types xmlns="%s/content-types">'
            '<Default Extension="rels" ContentType="application/vnd.openxmlformats-package.relationships+xml"/>'
            '<Default Extension="xml" ContentType="application/xml"/>'
            '<Override PartName="/xl/workbook.xml" ContentType="application/vnd.openxmlformats-officedocument.spreadsheetml.sheet.main+xml"/>'
            '<Override PartName="/xl/worksheets/sheet1.xml" ContentType="application/vnd.openxmlformats-officedocument.spreadsheetml.worksheet+xml"/>'
            '<Override PartName="/xl/sharedStrings.xml" ContentType="application/vnd.openxmlformats-officedocument.spreadsheetml.sharedStrings+xml"/>'
            "</Types>" % PKG,
        )
        z.writestr(
            "_rels/.rels",
            '<?xml version="1.0" encoding="UTF-8"?><Relationships xmlns="%s/relationships">'
            '<Relationship Id="rId1" Type="%s/officeDocument" Target="xl/workbook.xml"/></Relationships>' % (PKG, DOC),
        )
        z.writestr(
            "xl/workbook.xml",
            '<?xml version="1.0" encoding="UTF-8"?><workbook xmlns="%s" xmlns:r="%s">'
            '<sheets><sheet name="Sheet1" sheetId="1" r:id="rId1"/></sheets></workbook>' % (NS, DOC),
        )
        z.writestr(
            "xl/_rels/workbook.xml.rels",
            '<?xml version="1.0" encoding="UTF-8"?><Relationships xmlns="%s/relationships">'
            '<Relationship Id="rId1" Type="%s/worksheet" Target="worksheets/sheet1.xml"/>'
            '<Relationship Id="rId2" Type="%s/sharedStrings" Target="sharedStrings.xml"/>'
            "</Relationships>" % (PKG, DOC, DOC),
        )
        z.writestr(
            "xl/worksheets/sheet1.xml",
            '<?xml version="1.0" encoding="UTF-8"?><worksheet xmlns="%s"><sheetData>%s</sheetData></worksheet>'
            % (NS, sheet_data_xml),
        )
        z.writestr(
            "xl/sharedStrings.xml",
            '<?xml version="1.0" encoding="UTF-8"?><sst xmlns="%s">%s</sst>' % (NS, shared_strings_xml),
        )


def cid_for(format_name):
    cid_text = "D,Format,%s\nF,id,,,,Integer\nF,name,,,,Text\n" % format_name
    delimited_format = data.DataFormat(data.FORMAT_DELIMITED)
    delimited_format.validate()
    result = interface.Cid()
    result.read("cid_%s.csv" % format_name, rowio.delimited_rows(io.StringIO(cid_text), delimited_format))
    return result


def verdicts(cid, source):
    result = []
    with validio.Reader(cid, source, on_error="yield") as reader:
        for row_or_error in reader.rows():
            if isinstance(row_or_error, errors.DataError):
                result.append("rejected: %s" % row_or_error)
            else:
                result.append("accepted: %r" % row_or_error)
    return result


folder = tempfile.mkdtemp(prefix="finding_1_")
xlsx_path = os.path.join(folder, "uncached_formula.xlsx")
# Row 1: 1 | "x" ; row 2: 2 | =A9 (a string formula the producer did not evaluate, so there is no <v>)
write_xlsx(
    xlsx_path,
    '<row r="1"><c r="A1"><v>1</v></c><c r="B1" t="s"><v>0</v></c></row>'
    '<row r="2"><c r="A2"><v>2</v></c><c r="B2" t="str"><f>A9</f></c></row>',
    "<si><t>x</t></si>",
)

raw_rows = list(rowio.excel_rows(xlsx_path))
print("rowio.excel_rows():", raw_rows)

excel_verdicts = verdicts(cid_for("excel"), xlsx_path)
csv_verdicts = verdicts(cid_for("delimited"), io.StringIO("1,x\n2,\n"))
print("Excel, field 'name' must not be empty:")
for verdict in excel_verdicts:
    print("   ", verdict)
print("Same table as CSV (empty cell in row 2):")
for verdict in csv_verdicts:
    print("   ", verdict)

has_violation = raw_rows[1][1] == "None" or excel_verdicts[1].startswith("accepted")
if has_violation:
    print(
        "VIOLATION: the workbook contains no text 'None'; the cell without value is rendered as %r and accepted "
        "by a field that must not be empty" % raw_rows[1][1]
    )
    sys.exit(1)
print("no violation: cell is rendered as %r" % raw_rows[1][1])
sys.exit(0)
