"""
Finding 2 (C02, C16/C17): under "Format: Excel" a DateTime field with the rule
"YYYY-MM-DD 00:00:00" - the very rule docs/writing-an-icd.rst ("Mapping between Excel types
and cutplace") prescribes for Excel date cells - rejects every Excel date cell, although the cell is
rendered exactly in the layout of the rule ('1978-11-27 00:00:00').

Run: cd /tmp/wt_04 && PYTHONPATH=/tmp/wt_04 /venv/bin/python -W ignore /tmp/hunt3_04/finding_2.py
Exit code 1 = violation observed, 0 = not observed.
"""
import datetime
import io
import os
import sys
import tempfile

import xlsxwriter

from cutplace import data, errors, interface, rowio, validio

RULE = "YYYY-MM-DD 00:00:00"


def cid_for(format_name):
    cid_text = "D,Format,%s\nF,born,,,,DateTime,%s\n" % (format_name, RULE)
    delimited_format = data.DataFormat(data.FORMAT_DELIMITED)
    delimited_format.validate()
    result = interface.Cid()
    result.read("cid_%s.csv" % format_name, rowio.delimited_rows(io.StringIO(cid_text), delimited_format))
    return result


def verdict(cid, source):
    try:
        return "accepted: %r" % list(validio.rows(cid, source))
    except errors.DataError as error:
        return "rejected: %s" % error


folder = tempfile.mkdtemp(prefix="finding_2_")
xlsx_path = os.path.join(folder, "date.xlsx")
workbook = xlsxwriter.Workbook(xlsx_path)
worksheet = workbook.add_worksheet()
date_format = workbook.add_format({"num_format": "yyyy-mm-dd"})
worksheet.write_datetime(0, 0, datetime.date(1978, 11, 27), date_format)
workbook.close()

rendered_rows = list(rowio.excel_rows(xlsx_path))
print("date cell as rendered by rowio.excel_rows():", rendered_rows)
excel_verdict = verdict(cid_for("excel"), xlsx_path)
delimited_verdict = verdict(cid_for("delimited"), io.StringIO(rendered_rows[0][0] + "\n"))
print("rule %r, Format Excel,     date cell : %s" % (RULE, excel_verdict))
print("rule %r, Format Delimited, same text : %s" % (RULE, delimited_verdict))

if excel_verdict.startswith("rejected") and rendered_rows == [["1978-11-27 00:00:00"]]:
    print(
        "VIOLATION: the cell text %r is a real date in the layout of the rule %r but is rejected; "
        "DateTimeFieldFormat.validated_value() cuts off ' 00:00:00' because the rule has no hh/mm/ss "
        "although the rule itself ends in this literal text" % (rendered_rows[0][0], RULE)
    )
    sys.exit(1)
print("no violation")
sys.exit(0)
