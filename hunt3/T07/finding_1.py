"""
C09: "... and, if given, an example its own field accepts" (a CID is accepted IF AND ONLY IF ...).

The example of a field is judged once, while the F row is read, against the data format as it has been declared
up to that row. Data format rows below the field (Decimal separator, Thousands separator, Allowed characters)
do change what the field accepts in data (since repair eaeed93 for the separators, always for the allowed
characters), but the example is never judged again. So the loader

  A) accepts a CID whose example its own field rejects, and
  B) refuses a CID whose example its own field would accept.

Only the public API is used: cutplace.interface.Cid and cutplace.validio.rows.
"""
import io
import sys

from cutplace import errors, interface, validio


def load(cid_text):
    try:
        return interface.Cid(io.StringIO(cid_text))
    except errors.InterfaceError as error:
        return error


def field_verdict(cid, value):
    """True if the single field of ``cid`` accepts ``value`` as data."""
    if cid.data_format.format == "fixed":
        data_text = value + "\n"
    else:
        data_text = '"%s"\n' % value
    try:
        return list(validio.rows(cid, io.StringIO(data_text))) == [[value]]
    except errors.DataError as error:
        print("      data %r rejected: %s" % (value, error))
        return False


violations = 0

CASES_ACCEPTED_BUT_EXAMPLE_REJECTED = [
    (
        "A1 decimal separator declared below the field",
        'D,Format,Delimited\nF,amount,1.5,,,Decimal\nD,Decimal separator,","\nD,Item delimiter,;\n',
        "1.5",
    ),
    (
        "A2 allowed characters declared below the field",
        "D,Format,Delimited\nF,name,é,,,Text\nD,Allowed characters,32...127\n",
        "é",
    ),
    (
        "A3 same in fixed format",
        'D,Format,Fixed\nF,amount,1.5,,5,Decimal\nD,Decimal separator,","\n',
        "1.5  ",
    ),
]
for title, cid_text, example in CASES_ACCEPTED_BUT_EXAMPLE_REJECTED:
    print(title)
    cid = load(cid_text)
    if isinstance(cid, errors.InterfaceError):
        print("   CID refused (as the statement requires): %s" % cid)
        continue
    print("   CID accepted, data format: %s" % cid.data_format)
    if not field_verdict(cid, example):
        print("   VIOLATION: the CID was accepted but its own field rejects the example %r" % example)
        violations += 1

print("B1 example that the completed field accepts, separator declared below the field")
cid_b = load('D,Format,Delimited\nF,amount,"1,5",,,Decimal\nD,Decimal separator,","\nD,Item delimiter,;\n')
# The same CID without example, to ask the completed field for its verdict on the example.
cid_b_without_example = load('D,Format,Delimited\nF,amount,,,,Decimal\nD,Decimal separator,","\nD,Item delimiter,;\n')
assert not isinstance(cid_b_without_example, errors.InterfaceError)
if isinstance(cid_b, errors.InterfaceError):
    print("   CID refused: %s" % cid_b)
    if field_verdict(cid_b_without_example, "1,5"):
        print("   VIOLATION: the field of the completed CID accepts '1,5', yet the CID is refused because of it")
        violations += 1
else:
    print("   CID accepted")

print("violations: %d" % violations)
sys.exit(1 if violations else 0)
