#!/bin/sh
# re-evaluates every kept seeded change (seeded/<ID>-<v>/) against its property's quick check and refreshes meta.json["checks"]
cd "$(dirname "$0")/.." || exit 2
bad=0
out=$(mktemp /tmp/seeded_eval_XXXXXX.json)
trap 'rm -f "$out"' EXIT
for d in ${@:-seeded/C*-*}; do
  if grep -q '"retired"' $d/meta.json; then echo "$d retired"; continue; fi
  if grep -q '"not_judged"' $d/meta.json; then echo "$d not judged (the statement leaves it open)"; continue; fi
  id=$(echo $d | sed 's|seeded/\(C[0-9]*\)-.*|\1|')
  # a change written for one property but decided by another one names the deciding check in its meta.json
  other=$(python3 -c "import json,sys; print(json.load(open('$d/meta.json')).get('evaluate_with',''))")
  [ -n "$other" ] && id=$other
  tools/seeded.py $d $id > "$out" 2>&1
  python3 - $d "$out" $id <<'PY' || bad=$((bad+1))
import json,sys
d,res,pid=sys.argv[1:4]
r=json.load(open(res))
m=json.load(open(d+'/meta.json'))
m['checks']=r.get('checks'); m['confirmed'].update({"patch_applies_to_repo_HEAD":r.get('patch_applies'),"demo_exit_without_patch":r.get('demo_without_patch'),"demo_exit_with_patch":r.get('demo_with_patch'),"baseline_218_tests_still_pass_with_patch":r.get('baseline_survives')})
json.dump(m,open(d+'/meta.json','w'),indent=1)
ok=r.get('checks',{}).get(pid,{}).get('caught')
print(d, 'caught' if ok else 'MISSED', r.get('checks',{}).get(pid,{}).get('keys'))
sys.exit(0 if ok else 1)
PY
done
echo "seeded changes not caught: $bad"
