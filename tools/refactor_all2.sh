#!/bin/sh
# false-alarm test, second corpus: the refactorings written against the tree after round 6 (refactorings2/), all quick checks each
cd "$(dirname "$0")/.." || exit 2
for d in refactorings2/C*-*; do
  ( tools/refactor_eval.py $d > /tmp/refac2_$(basename $d).json 2>&1; python3 -c "
import json
d=json.load(open('/tmp/refac2_$(basename $d).json')); m=json.load(open('$d/meta.json'))
m.update({'patch_applies': d.get('patch_applies'), 'baseline_218_tests_still_pass': d.get('baseline_survives'), 'alarms_raised_by_the_20_quick_checks': {k: v['keys'] for k, v in d.get('alarms', {}).items()}})
json.dump(m, open('$d/meta.json', 'w'), indent=1)
print('$(basename $d)', 'applies', d.get('patch_applies'), 'baseline', d.get('baseline_survives'), 'alarms', {k:v['keys'][:3] or v['rc'] for k,v in d.get('alarms',{}).items()})" ) &
  while [ $(pgrep -fc refactor_eval.py) -ge 4 ]; do sleep 2; done
done
wait
