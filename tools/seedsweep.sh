#!/bin/sh
# quick tier of every claimed check for seeds $1..$2 (default 1..8); prints only checks that are not green
cd "$(dirname "$0")/.." || exit 2
lo=${1:-1}; hi=${2:-8}; tier=${3:-quick}
bad=0
for seed in $(seq $lo $hi); do
  for id in $(python3 -c "import json;print(' '.join(c['property_id'] for c in json.load(open('MANIFEST.json'))['checks']))"); do
    out=$(VERIF_SEED=$seed ./vcheck $id $tier 2>&1); rc=$?
    if [ $rc -ne 0 ]; then bad=$((bad+1)); echo "seed=$seed $id rc=$rc"; echo "$out" | grep -A1 '^VIOLATION\|^INCONCLUSIVE' | head -8; fi
  done
  echo "seed $seed done"
done
echo "not green: $bad"
