#!/bin/sh
# re-runs the false-alarm test: every kept behaviour-preserving refactoring against all quick checks (4 in parallel)
cd "$(dirname "$0")/.." || exit 2
# what the checks report on the unpatched tree at the old base (defects repaired since): computed once per sweep
rm -f /tmp/cpverif_refac_base_23fece6.json
python3 -c "
import sys, json; sys.path.insert(0, 'tools'); import refactor_eval
refactor_eval.base_keys('23fece6', [c['property_id'] for c in json.load(open('MANIFEST.json'))['checks']])"
for d in refactorings/C*-*; do
  ( REFACTOR_BASE=23fece6 tools/refactor_eval.py $d > /tmp/refac_$(basename $d).json 2>&1; python3 -c "
import json
d=json.load(open('/tmp/refac_$(basename $d).json')); print('$(basename $d)', 'applies', d.get('patch_applies'), d.get('evaluated_at',''), 'alarms', {k:v['keys'][:3] or v['rc'] for k,v in d.get('alarms',{}).items()})" ) &
  while [ $(pgrep -fc refactor_eval.py) -ge 4 ]; do sleep 2; done
done
wait
