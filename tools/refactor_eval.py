#!/usr/bin/env python3
"""False-alarm test: tools/refactor_eval.py <dir-with-patch.diff> [checks...]  applies a behaviour-preserving refactoring to a
scratch worktree of /repo, confirms the baseline tests still pass and runs the quick checks (default: all claimed) against
it.  Every check must stay green (exit 0).  Prints a JSON summary."""
import json, os, shutil, subprocess, sys, tempfile, time
HERE = os.path.dirname(os.path.dirname(os.path.abspath(__file__)))

def sh(cmd, **kw):
    return subprocess.run(cmd, shell=True, capture_output=True, text=True, **kw)

def base_keys(base, props):
    """Violation keys per check on the unpatched tree at commit `base` (cached in /tmp for the duration of a sweep)."""
    cache = "/tmp/cpverif_refac_base_%s.json" % base
    known = json.load(open(cache)) if os.path.exists(cache) else {}
    missing = [p for p in props if p not in known]
    if missing:
        scratch = tempfile.mkdtemp(prefix="cpverif_refbase_")
        wt = os.path.join(scratch, "wt")
        try:
            sh("git -C /repo worktree add --detach %s %s" % (wt, base))
            env = dict(os.environ, CPVERIF_REPO=wt, CPVERIF_OUT=os.path.join(scratch, "out"))
            for prop in missing:
                c = sh("%s/vcheck %s quick" % (HERE, prop), cwd=HERE, env=env)
                known[prop] = sorted(set(l.split("key=")[1].split(" what=")[0] for l in c.stdout.splitlines() if l.strip().startswith("key=")))
        finally:
            sh("git -C /repo worktree remove --force %s" % wt)
            shutil.rmtree(scratch, ignore_errors=True)
        json.dump(known, open(cache, "w"))
    return known


def main():
    src = os.path.abspath(sys.argv[1])
    props = sys.argv[2:] or [c["property_id"] for c in json.load(open(os.path.join(HERE, "MANIFEST.json")))["checks"]]
    scratch = tempfile.mkdtemp(prefix="cpverif_refac_")
    wt = os.path.join(scratch, "wt")
    out = {"dir": src}
    try:
        sh("git -C /repo worktree add --detach %s HEAD" % wt)
        base = os.environ.get("REFACTOR_BASE")
        a = sh("git -C %s apply %s" % (wt, os.path.join(src, "patch.diff")))
        if a.returncode != 0 and not base:
            # (a three-way merge that happens to apply can still be wrong - a moved line that uses a name the repair
            # introduced elsewhere: it is only tried when no earlier commit to evaluate at is given)
            a = sh("git -C %s apply --3way %s" % (wt, os.path.join(src, "patch.diff")))
            if a.returncode != 0 or "<<<<<<<" in sh("git -C %s diff" % wt).stdout:
                sh("git -C %s reset -q --hard; git -C %s clean -fdq" % (wt, wt))
                a = sh("git -C %s apply %s" % (wt, os.path.join(src, "patch.diff")))
        if a.returncode != 0 and base:
            # the refactoring was written against an earlier commit of /repo: evaluate it there
            sh("git -C /repo worktree remove --force %s" % wt)
            sh("git -C /repo worktree add --detach %s %s" % (wt, base))
            a = sh("git -C %s apply %s" % (wt, os.path.join(src, "patch.diff")))
            out["evaluated_at"] = base
        out["patch_applies"] = a.returncode == 0
        if a.returncode == 0:
            b = sh("/venv/bin/python %s/tools/baseline_off.py --repo %s" % (HERE, wt))
            out["baseline_survives"] = b.returncode == 0
            out["baseline"] = b.stdout.strip()[-200:]
            env = dict(os.environ, CPVERIF_REPO=wt, CPVERIF_OUT=os.path.join(scratch, "out"))
            out["alarms"] = {}
            # evaluated at an old commit the checks rightly report the defects repaired since then: only keys that the
            # unpatched tree at that commit does not show count as alarms of the refactoring
            reference = base_keys(out["evaluated_at"], props) if out.get("evaluated_at") else {}
            for prop in props:
                c = sh("%s/vcheck %s quick" % (HERE, prop), cwd=HERE, env=env)
                if c.returncode != 0:
                    keys = sorted(set(l.split("key=")[1].split(" what=")[0] for l in c.stdout.splitlines() if l.strip().startswith("key=")))
                    # (the innermost frame is part of some keys; refactorings rename and split functions)
                    seen = set(k.split("@")[0] for k in reference.get(prop, []))
                    new_keys = [k for k in keys if k.split("@")[0] not in seen]
                    if new_keys or (not keys and c.returncode != 0 and prop not in reference):
                        out["alarms"][prop] = {"rc": c.returncode, "keys": new_keys[:8], "tail": c.stdout[-400:]}
        else:
            out["apply_error"] = a.stderr[-300:]
    finally:
        sh("git -C /repo worktree remove --force %s" % wt)
        shutil.rmtree(scratch, ignore_errors=True)
    print(json.dumps(out, indent=1))

if __name__ == "__main__":
    main()
