#!/bin/sh
# tools/q.sh [-t tier] ID...  - runs the named checks and prints rc / number of violations / known findings per check
cd "$(dirname "$0")/.." || exit 2
tier=quick
if [ "$1" = "-t" ]; then tier=$2; shift 2; fi
for id in "$@"; do
  out=$(./vcheck $id $tier 2>&1); rc=$?
  echo "$id rc=$rc viol=$(echo "$out" | grep -c '^VIOLATION') known=$(echo "$out" | grep -c '^KNOWN-FINDING') $(echo "$out" | grep '  key=' | sed 's/ what=.*//' | sort -u | tr '\n' ' ' | cut -c1-300)"
done
