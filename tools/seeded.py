#!/usr/bin/env python3
"""Evaluates seeded breaking changes: tools/seeded.py <dir-with-patch.diff+demo.py> <property> [more properties...]
For the patch: (1) demo.py passes on the unchanged tree and fails with the patch, (2) the 218 baseline tests still pass
with the patch, (3) which quick checks report a VIOLATION with the patch.  Works on a scratch worktree of /repo under
/tmp (removed afterwards); /repo itself is not touched.  Prints a JSON summary."""
import json, os, shutil, subprocess, sys, tempfile, time
HERE = os.path.dirname(os.path.dirname(os.path.abspath(__file__)))

def sh(cmd, **kw):
    return subprocess.run(cmd, shell=True, capture_output=True, text=True, **kw)

def main():
    src = os.path.abspath(sys.argv[1])
    props = sys.argv[2:]
    scratch = tempfile.mkdtemp(prefix="cpverif_seeded_")
    out = {"dir": src, "props": props}
    try:
        sh("git -C /repo worktree add --detach %s HEAD" % os.path.join(scratch, "wt"))
        wt = os.path.join(scratch, "wt")
        demo = os.path.join(src, "demo.py")
        run_demo = lambda: sh("cd %s && PYTHONPATH=%s /venv/bin/python -W ignore %s" % (wt, wt, demo), timeout=600)
        r = run_demo(); out["demo_without_patch"] = r.returncode
        a = sh("git -C %s apply %s" % (wt, os.path.join(src, "patch.diff")))
        out["patch_applies"] = a.returncode == 0
        if a.returncode != 0:
            out["apply_error"] = a.stderr[-500:]
        else:
            r = run_demo(); out["demo_with_patch"] = r.returncode; out["demo_output"] = (r.stdout + r.stderr)[-300:]
            b = sh("/venv/bin/python %s/tools/baseline_off.py --repo %s" % (HERE, wt)); out["baseline_survives"] = b.returncode == 0; out["baseline"] = b.stdout.strip()[-300:]
            env = dict(os.environ, CPVERIF_REPO=wt, CPVERIF_OUT=os.path.join(scratch, "out"))
            out["checks"] = {}
            for prop in props:
                t0 = time.time()
                c = sh("%s/vcheck %s quick" % (HERE, prop), cwd=HERE, env=env)
                keys = sorted(set(l.split("key=")[1].split(" what=")[0] for l in c.stdout.splitlines() if l.strip().startswith("key=")))
                out["checks"][prop] = {"rc": c.returncode, "caught": c.returncode == 1 and "VIOLATION property=%s" % prop in c.stdout, "keys": keys[:6], "s": round(time.time() - t0)}
    finally:
        sh("git -C /repo worktree remove --force %s" % os.path.join(scratch, "wt"))
        shutil.rmtree(scratch, ignore_errors=True)
    print(json.dumps(out, indent=1))

if __name__ == "__main__":
    main()
