#!/usr/bin/env python3
"""Rewrites the table of seeded changes in DESIGN.md (between the SEEDED-TABLE markers) from seeded/*/meta.json and notes.md."""
import glob, json, os, re
HERE = os.path.dirname(os.path.dirname(os.path.abspath(__file__)))
rows = ["| seeded change | what it breaks / needs to manifest | caught by (mechanism keys of the quick check) | history |", "|---|---|---|---|"]
for d in sorted(glob.glob(os.path.join(HERE, "seeded", "C*-*"))):
    m = json.load(open(os.path.join(d, "meta.json")))
    notes = open(os.path.join(d, "notes.md")).read()
    patch = open(os.path.join(d, "patch.diff")).read()
    files = sorted(set(re.findall(r"^\+\+\+ b/(\S+)", patch, re.M)))
    first = [l.strip("# ").strip() for l in notes.splitlines() if l.strip()]
    summary = first[0] if first else ""
    if len(summary) < 40 and len(first) > 1:
        summary += ": " + first[1]
    summary = summary.replace("|", "/")[:230]
    pid = m.get("evaluate_with") or m["property"]
    chk = (m.get("checks") or {}).get(pid, {})
    keys = ", ".join("`%s`" % k for k in chk.get("keys", [])[:2]) or "-"
    history = m.get("history", "")
    if m.get("rebased"):
        history += "; " + m["rebased"]
    if m.get("retired"):
        verdict = "retired (no longer a defect): " + m["retired"]
    elif m.get("not_judged"):
        verdict = "not judged: " + m["not_judged"]
    else:
        verdict = ("caught: " if chk.get("caught") else "**MISSED** ") + keys
    rows.append("| %s (%s) | %s | %s | %s |" % (os.path.basename(d), ", ".join(files), summary, verdict.replace("|", "/"), history.replace("|", "/")))
p = os.path.join(HERE, "DESIGN.md")
s = open(p).read()
a, b = "<!-- SEEDED-TABLE-BEGIN -->", "<!-- SEEDED-TABLE-END -->"
s = s[: s.index(a) + len(a)] + "\n" + "\n".join(rows) + "\n" + s[s.index(b):]
open(p, "w").write(s)
print(len(rows) - 2, "seeded changes")
