#!/venv/bin/python
"""Run the repository's baseline test command with the verification guard OFF and
compare with /root/.vp/BASELINE.json: every test in stable_pass must pass.
Exit 0 when all of them pass, 1 otherwise.  Prints a one-line summary."""
import json, os, subprocess, sys, tempfile
import xml.etree.ElementTree as ET

def main():
    base = json.load(open("/root/.vp/BASELINE.json"))
    env = dict(os.environ)
    env.pop("CUTPLACE_VERIF", None)
    repo = "/repo"
    if "--repo" in sys.argv:  # self-test only: a scratch copy of the repository
        repo = os.path.abspath(sys.argv[sys.argv.index("--repo") + 1])
        env["PYTHONPATH"] = repo
    with tempfile.TemporaryDirectory() as tmp:
        junit = os.path.join(tmp, "junit.xml")
        before = set(subprocess.run(["git", "-C", repo, "status", "--porcelain", "--untracked-files=all"],
                                    capture_output=True, text=True).stdout.splitlines())
        cmd = base["cmd"].replace("<file>", junit).replace("cd /repo", "cd " + repo)
        proc = subprocess.run(cmd, shell=True, env=env, capture_output=True, text=True)
        after = subprocess.run(["git", "-C", repo, "status", "--porcelain", "--untracked-files=all"],
                               capture_output=True, text=True).stdout.splitlines()
        # remove files the suite left behind in the work tree (untracked only)
        for line in after:
            if line not in before and line.startswith("?? "):
                p = os.path.join(repo, line[3:])
                if os.path.isfile(p):
                    os.remove(p)
        passed, failed = set(), set()
        for case in ET.parse(junit).getroot().iter("testcase"):
            name = "%s::%s" % (case.get("classname"), case.get("name"))
            bad = any(child.tag in ("failure", "error", "skipped") for child in case)
            (failed if bad else passed).add(name)
    missing = [t for t in base["stable_pass"] if t not in passed]
    print("baseline: %d stable tests, %d of them passed now; suite total passed=%d failed=%d"
          % (len(base["stable_pass"]), len(base["stable_pass"]) - len(missing), len(passed), len(failed)))
    for t in missing:
        print("  NOT PASSING:", t)
    if "-v" in sys.argv:
        for t in sorted(failed):
            print("  failed:", t)
    return 1 if missing else 0

if __name__ == "__main__":
    sys.exit(main())
