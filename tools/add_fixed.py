#!/usr/bin/env python3
"""tools/add_fixed.py PROPERTY KEY COMMIT WHAT  - appends a 'fixed' entry to known_findings.json"""
import json, os, sys
HERE = os.path.dirname(os.path.dirname(os.path.abspath(__file__)))
p = os.path.join(HERE, "known_findings.json")
d = json.load(open(p))
prop, key, commit, what = sys.argv[1:5]
assert not any(f["key"] == key for f in d["findings"]), "key exists"
d["findings"].append({"property": prop, "key": key, "status": "fixed", "commit": commit,
                      "what": "fixed: property=%s %s %s" % (prop, commit, what)})
json.dump(d, open(p, "w"), indent=1, ensure_ascii=False)
open(p, "a").write("\n")
