#!/usr/bin/env python3
"""Rewrites the table of fix: commits in DESIGN.md (between the FIX-TABLE markers) from /repo's log and known_findings.json."""
import json, os, subprocess
HERE = os.path.dirname(os.path.dirname(os.path.abspath(__file__)))
kf = json.load(open(os.path.join(HERE, "known_findings.json")))["findings"]
log = subprocess.run("git -C /repo log --reverse --format='%h|%s'", shell=True, capture_output=True, text=True).stdout.strip().splitlines()
by = {}
for f in kf:
    if f["status"] == "fixed":
        by.setdefault(f["commit"], []).append(f)
rows = ["| commit | property | repair | mechanism key(s) |", "|--------|----------|--------|------------------|"]
for line in log:
    h, subj = line.split("|", 1)
    if not subj.startswith("fix:"):
        continue
    fs = by.get(h, [])
    rows.append("| %s | %s | %s | %s |" % (h, ",".join(sorted(set(f["property"] for f in fs))) or "-", subj[5:], "; ".join("`%s`" % f["key"] for f in fs) or "(see commit message)"))
p = os.path.join(HERE, "DESIGN.md")
s = open(p).read()
a, b = "<!-- FIX-TABLE-BEGIN -->", "<!-- FIX-TABLE-END -->"
s = s[: s.index(a) + len(a)] + "\n" + "\n".join(rows) + "\n" + s[s.index(b):]
open(p, "w").write(s)
print(len(rows) - 2, "fix commits")
