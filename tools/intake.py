#!/usr/bin/env python3
"""Takes in one seeded change delivered by a sub-agent: tools/intake.py <out-dir> <ID> <variant> <round> [property to evaluate with]
Copies patch.diff, demo.py and the notes to seeded/<ID>-<variant>/, confirms it with tools/seeded.py (demo passes without and
fails with the patch, baseline tests survive) and records which quick checks report it in meta.json."""
import json, os, shutil, subprocess, sys
HERE = os.path.dirname(os.path.dirname(os.path.abspath(__file__)))

def main():
    src, pid, variant, rnd = sys.argv[1:5]
    props = sys.argv[5:] or [pid]
    dst = os.path.join(HERE, "seeded", "%s-%s" % (pid, variant))
    os.makedirs(dst, exist_ok=True)
    for name in ("patch.diff", "demo.py"):
        shutil.copy(os.path.join(src, name), os.path.join(dst, name))
    notes = ""
    for name in ("notes.txt", "notes.md"):
        if os.path.exists(os.path.join(src, name)):
            notes = open(os.path.join(src, name)).read()
    open(os.path.join(dst, "notes.md"), "w").write(notes)
    head = subprocess.run("git -C /repo rev-parse --short HEAD", shell=True, capture_output=True, text=True).stdout.strip()
    r = json.loads(subprocess.run([os.path.join(HERE, "tools", "seeded.py"), dst] + props, capture_output=True, text=True).stdout)
    meta = {
        "property": pid, "variant": variant, "round": int(rnd), "written_against_repo_commit": head,
        "written_by": "independent sub-agent (round %s: asked for one change that needs two or three things to coincide, away from the central comparison) that saw only the property text and a scratch worktree of /repo" % rnd,
        "needs_to_manifest": notes,
        "confirmed": {"patch_applies_to_repo_HEAD": r.get("patch_applies"), "demo_exit_without_patch": r.get("demo_without_patch"),
                      "demo_exit_with_patch": r.get("demo_with_patch"), "baseline_218_tests_still_pass_with_patch": r.get("baseline_survives")},
        "checks": r.get("checks"),
    }
    json.dump(meta, open(os.path.join(dst, "meta.json"), "w"), indent=1)
    ok = all(meta["confirmed"][k] == v for k, v in (("patch_applies_to_repo_HEAD", True), ("demo_exit_without_patch", 0), ("baseline_218_tests_still_pass_with_patch", True))) and meta["confirmed"]["demo_exit_with_patch"] not in (0, None)
    print(pid, variant, "confirmed" if ok else "NOT CONFIRMED %s" % meta["confirmed"], {p: (c["caught"], c["keys"]) for p, c in (r.get("checks") or {}).items()})

main()
