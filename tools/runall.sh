#!/bin/sh
# runs every claimed check (tier $1, default quick) and prints one summary line per check
cd "$(dirname "$0")/.." || exit 2
tier=${1:-quick}
./vcheck --setup > /dev/null 2>&1 || echo "SETUP FAILED (./vcheck --setup)"
for id in $(python3 -c "import json;print(' '.join(c['property_id'] for c in json.load(open('MANIFEST.json'))['checks']))"); do
  out=$(./vcheck $id $tier 2>&1); rc=$?
  echo "$id rc=$rc $(echo "$out" | grep -c '^VIOLATION') violations, $(echo "$out" | grep -c '^KNOWN-FINDING') known; $(echo "$out" | tail -1 | cut -c1-150)"
done
