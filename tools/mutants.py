#!/usr/bin/env python3
"""Mutation self-test: applies each one-line mutant of selftest/mutants.json to /repo's working tree,
runs the owning properties' quick checks, restores the tree (git checkout) and reports caught / missed.
usage: tools/mutants.py [name-substring ...] [--baseline]  (--baseline also confirms the mutant survives the 218 tests)"""
import json, os, shutil, subprocess, sys, tempfile, time
HERE = os.path.dirname(os.path.dirname(os.path.abspath(__file__)))

def sh(cmd, **kw):
    return subprocess.run(cmd, shell=True, capture_output=True, text=True, **kw)

def main():
    args = [a for a in sys.argv[1:] if not a.startswith("--")]
    chunk = [a for a in sys.argv[1:] if a.startswith("--chunk=")]
    chunk = tuple(int(x) for x in chunk[0][8:].split("/")) if chunk else (0, 1)
    skip_precheck = "--no-precheck" in sys.argv
    with_baseline = "--baseline" in sys.argv
    mutants = json.load(open(os.path.join(HERE, "selftest", "mutants.json")))
    # work on a scratch copy of /repo's working tree (outside /repo and /verif); cutplace is imported from it
    # through CPVERIF_REPO, so /repo itself is never touched and other runs are not disturbed
    scratch = tempfile.mkdtemp(prefix="cpverif_mutants_")
    # (a clone, so that "revert" entries can undo a repair commit with git's own merge machinery)
    sh("git clone -q /repo %s" % scratch)
    env = dict(os.environ, CPVERIF_REPO=scratch, CPVERIF_OUT=os.path.join(scratch, "out"))
    results = []
    selected = [m for m in mutants if not args or any(a in m["name"] for a in args)]
    selected = [m for k, m in enumerate(selected) if k % chunk[1] == chunk[0]]
    names = set(m["name"] for m in selected)
    mutants = [m for m in mutants if m["name"] in names]
    args = []
    for prop in ([] if skip_precheck else sorted(set(p for m in selected for p in m["props"]))):
        r = sh("%s/vcheck %s quick" % (HERE, prop), cwd=HERE, env=env)
        if r.returncode != 0:
            print("refusing: %s is not green on the unchanged tree (rc=%d), 'caught' would mean nothing" % (prop, r.returncode)); return 2
    for m in mutants:
        if args and not any(a in m["name"] for a in args):
            continue
        if "revert" in m:
            r = sh("git -C %s -c user.name=x -c user.email=x@x revert --no-commit %s" % (scratch, m["revert"]))
            if r.returncode != 0:
                sh("git -C %s revert --abort; git -C %s reset -q --hard" % (scratch, scratch))
                results.append((m["name"], "STALE (revert does not apply)"))
                print(results[-1]); continue
            path, src = None, None
        else:
            path = os.path.join(scratch, m["file"])
            src = open(path, encoding="utf-8").read()
            if src.count(m["old"]) != 1:
                results.append((m["name"], "STALE (old text occurs %d times)" % src.count(m["old"])));
                print(results[-1]); continue
        try:
            if path:
                open(path, "w", encoding="utf-8").write(src.replace(m["old"], m["new"]))
            status = []
            if with_baseline:
                b = sh("/venv/bin/python %s/tools/baseline_off.py --repo %s" % (HERE, scratch))
                status.append("baseline:" + ("survives" if b.returncode == 0 else "KILLED-BY-TESTS"))
            for prop in m["props"]:
                t0 = time.time()
                r = sh("%s/vcheck %s quick" % (HERE, prop), cwd=HERE, env=env)
                caught = r.returncode == 1 and "VIOLATION property=%s" % prop in r.stdout
                status.append("%s:%s(%.0fs)" % (prop, "caught" if caught else ("MISSED rc=%d" % r.returncode), time.time() - t0))
        finally:
            if path:
                open(path, "w", encoding="utf-8").write(src)
            else:
                sh("git -C %s revert --abort; git -C %s reset -q --hard" % (scratch, scratch))
        results.append((m["name"], " ".join(status)))
        print(results[-1], flush=True)
    shutil.rmtree(scratch, ignore_errors=True)
    missed = [r for r in results if "MISSED" in r[1] or "STALE" in r[1]]
    print("%d mutants, %d not caught" % (len(results), len(missed)))
    return 1 if missed else 0

if __name__ == "__main__":
    sys.exit(main())
