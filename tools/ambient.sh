#!/bin/sh
# runs the repository's own tests on a scratch copy under the range and field monitors; prints what the monitors saw
HERE=$(cd "$(dirname "$0")/.." && pwd)
S=$(mktemp -d /tmp/cpverif_ambient_XXXX)
git -C /repo archive HEAD | tar -x -C "$S"
cd "$S" && CPVERIF_AMBIENT_OUT="$S/ambient.json" PYTHONPATH="$S:$HERE:$HERE/.deps" /venv/bin/python -W ignore -m pytest -q -p cpverif.ambient_plugin -p no:cacheprovider --timeout=900 tests 2>&1 | tail -3
python3 - "$S/ambient.json" <<'PY'
import json,sys
d=json.load(open(sys.argv[1]))
print("judged observations:", d["evaluations"]); print("counters:", json.dumps(d["counters"])[:900]); print("unjudged:", d["unjudged"]); print("notes:", d["notes"]); print("violation keys:", d["violation_keys"])
for v in d["violations"][:12]:
    print(" ", v["key"], json.dumps(v["case"],ensure_ascii=False)[:300], "| expected", str(v["expected"])[:120], "| observed", str(v["observed"])[:160])
PY
rm -rf "$S"
