#!/usr/bin/env python3
"""Regenerates MANIFEST.json from the table below (kept in one place so it is always valid)."""
import json, os, sys
HERE = os.path.dirname(os.path.dirname(os.path.abspath(__file__)))

CHECKS = {}

def check(pid, category, text, note, technique, design_ref):
    CHECKS[pid] = dict(category=category, text=text, note=note, technique=technique, design_ref=design_ref)

check("C01", "exploration",
      "Every Range/DecimalRange constructor and validate() call made while a generated + bounded-exhaustive workload runs "
      "is judged by a boundary monitor against an independent model of the documented range grammar; held on the "
      "executions observed (counts in the evidence), exhaustive for the 1-2 item sweep the property names and for all pairs of punctuation characters as quoted limits in every spelling.",
      "Trusts the independent grammar model cpverif/models/rangemodel.py (self-tested) and CPython 3.12.1; inputs outside the model's grammar are counted as unjudged.",
      "runtime monitor on Range.__init__/validate + executable reference model (M-range)", "DESIGN.md 5/C01")

check("C02", "exploration",
      "Every <Type>FieldFormat.validated() call made by a generated workload (direct calls and end-to-end through Cid.read + "
      "cutplace.rows) is judged by a boundary monitor against an independent per-type model (integer/decimal literal, choice "
      "tokenizer, date layout parser, glob and regex-subset matchers); thorough sweeps all integers of up to 6 characters for "
      "every length declaration 0..5 exhaustively. Fields are also used before their data format is complete (separators set later), fixed cells carry other white space at their edges, RegEx rules and cells reach beyond ASCII and hold line breaks; values that are no numbers (Infinity, NaN) and a second 61 are judged.",
      "Trusts cpverif/models/fieldmodel.py (self-tested), Python's int/Decimal/datetime; non-canonical spellings are unjudged.",
      "runtime monitor on FieldFormat.validated + executable reference model (M-field)", "DESIGN.md 5/C02")
check("C03", "exploration",
      "The full product types x empty flag x length declarations x allowed-character ranges x formats x guard cells is "
      "enumerated in both tiers; every validated() call is judged by the guard part of the field model, and the same cells are "
      "read through Reader in yield mode to check that rejections name the field; allowed ranges are also set after the field exists / declared below the fields, and a phase in every worker offers a character under a range that excludes it right after another data format has accepted it.",
      "Trusts the guard model in cpverif/models/fieldmodel.py; only the blank (U+0020) is padding of fixed cells; non-canonical number and date spellings are unjudged.",
      "runtime monitor on FieldFormat.validated + guard model, exhaustive enumeration of the stated product", "DESIGN.md 5/C03")

check("C04", "exploration",
      "Generated CIDs and tables (accepted/rejected cells, ragged rows, headers, none / one / two IsUnique checks, every fixed line-delimiter setting, cells of nothing but white space in fields that may be empty) are stored in six storages "
      "(delimited stream/file, fixed stream/file, generated ODS, generated XLSX) and read with cutplace.rows(on_error='yield'); "
      "every produced item is compared with the row model: verdict, row number, first offending column, input name, field name.",
      "Trusts M-field/M-rows and the independent ODS/XLSX producers (zipfile+XML, xlsxwriter).",
      "recorded read history vs executable row model (M-rows o M-raw)", "DESIGN.md 5/C04")
check("C05", "exploration",
      "Row sequences over tiny key alphabets are read through cutplace.Reader in all three modes; each produced item, the "
      "location and see-also location of every duplicate report and the end-of-data verdict of close() are compared with an "
      "independent uniqueness / distinct-count model (DistinctCount rules also with several comparisons; readers created up front; raise-mode runs also through cutplace.rows; errors re-inspected after the run; the same rows through a validating Writer; free-text keys holding the item delimiter or a line break); thorough enumerates all sequences of up to 5 rows over 5 row kinds.",
      "Trusts M-checks (two variants where a later row uses the key of a row that a later-declared check rejected: the statement's and the recorded defect's).",
      "recorded reader history vs executable model of the whole-file checks (M-checks)", "DESIGN.md 5/C05")

check("C06", "exploration",
      "Each generated case is read in the three error modes on fresh CIDs from six storages (alternately through Reader.rows() + close() and through cutplace.rows(), 60% of the CIDs with a DistinctCount check that can fail on a part of the data) and the recorded histories are "
      "compared with each other (continue = accepted rows of yield; raise = prefix + the same error), with the counters "
      "(conservation) and with the row model; yielded errors are re-inspected after the run; container faults are injected at "
      "every row boundary (unterminated quote, undecodable byte, UTF-16/32 without byte order mark, short fixed record incl. data ending at every position inside the last record, wrong delimiter, truncated ODS/XLSX "
      "archive, cut content.xml, bytes overwritten inside the compressed data of a part) and must end in DataFormatError in every mode.",
      "Relational oracle over executions of the real reader plus M-reader; corrupted containers that still parse are unjudged.",
      "recorded histories of three reader runs compared relationally + fault injection at row boundaries", "DESIGN.md 5/C06")

check("C13", "fault_enumeration",
      "fixed_rows is executed on every string up to length 6 (quick) / 9 (thorough) over {a,b,CR,LF} x all 39 width lists x the "
      "five delimiter settings and on single-character deletions / insertions / replacements at every offset of longer files "
      "(streams and real files), the strings up to length 5 / 6 also through cutplace.Reader on a character stream (half of its CIDs grown through the API between reads), the short strings also behind a leading U+FEFF; each execution is judged for losslessness (input rebuilt from the rows with permitted "
      "delimiters), item widths, error type, and acceptance of well-formed inputs. Exhaustive over the bounded space.",
      "Oracle is a reconstruction search independent of cutplace; acceptance of records that themselves contain CR/LF is unjudged.",
      "exhaustive execution of the real reader under a reconstruction oracle + single-character fault injection", "DESIGN.md 5/C13")

check("C12", "exploration",
      "All 4480 combinations of item delimiter, quote, escape, quoting and line delimiter are offered to Cid.read; for every "
      "accepted format generated tables over that format's own special characters are written by the real writer and read "
      "back by the real reader (rowio level and cutplace.Writer/rows level); the recorded round trip must be the identity.",
      "The round trip through the real code is its own oracle; formats the loader refuses are counted, not judged.",
      "round-trip monitor over executions of the real writer and reader for every accepted configuration", "DESIGN.md 5/C12")

check("C11", "exploration",
      "Every property x format x spelling of the pools (all code points x all spellings for the item delimiter, all permitted and "
      "a set of forbidden characters, names in three casings, ~45 encoding names, malformed values) is set through "
      "DataFormat.set_property and through Cid.read and compared with a table model; all pairs of delimiter/quote/escape/line "
      "delimiter and decimal/thousands values are completed through Cid.read for the consistency rules; defaults are read back.",
      "Trusts the table model cpverif/models/dataformatmodel.py and Python's codecs registry; ambiguous spellings are unjudged.",
      "boundary observation of set_property / Cid.read vs table model, exhaustive over the stated pools", "DESIGN.md 5/C11")

check("C07", "exploration",
      "The (header, rows, bad-row position and kind, limit, API, storage) space the property names is enumerated; the real "
      "cutplace.rows / cutplace.validate / applications.main --until are executed on each and compared with the reader model's "
      "(header, limit) window; a generator monitor on Reader.rows counts what validate() pulls.",
      "Trusts M-reader; compares only intact files.",
      "enumerated executions of the three APIs vs reader-window model + generator monitor on Reader.rows", "DESIGN.md 5/C07")

check("C08", "exploration",
      "Operation histories (reads in all modes, abandoned / unclosed / never started reads, validate with limit 0, writes with "
      "and without close) are executed on one Cid object; the recorded outcome of the last operation of every history - items, "
      "rejections with row numbers, end-of-data result, written text, counters - must equal the recorded outcome of the same "
      "operation on a freshly loaded Cid. All histories up to length 2 (quick) / 3 (thorough) over 66 operations x 6 CIDs are "
      "enumerated, longer ones sampled; pairs of runs that overlap in time (every interleaving of open / one row per step / close) are compared with each run alone on a fresh Cid.",
      "The reference is the implementation itself with fresh state (history + model where model = fresh execution).",
      "recorded operation histories compared with fresh-state executions of the same operation", "DESIGN.md 5/C08")

check("C14", "exploration",
      "Row sequences mixing accepted rows, rejected cells, wrong item counts and duplicates are written one at a time through "
      "cutplace.Writer (delimited and fixed CIDs, a sixth named by the path of a CID file, headers, whole-file checks, every line-delimiter setting, skip initial space, both declaration orders of DistinctCount and IsUnique); after every "
      "write_row (or write_rows with one row) the stream is inspected and compared with the writer model (grown by exactly the row's encoding iff the row "
      "conforms), close() is compared with the distinct-count model, the same rows written to a file named by its path and handed in bulk to write_rows() of further writers must give the same output, and the output is read back under a fresh CID (its end-of-data verdict being the one of the whole-file checks over the written rows).",
      "Trusts M-field/M-rows and csv.writer for the default dialect's encoding.",
      "stream-growth monitor after every write + writer model + read-back through the real reader", "DESIGN.md 5/C14")

check("C20", "exploration",
      "Recording field-format and check subclasses (the documented plugin boundary) are registered in the harness process and "
      "their call log is compared with the sequence the protocol model predicts, over generated CIDs / tables / header / limit / "
      "three modes / reader (also read again after close), rows(), validate() and writer / 1-3 consecutive runs on one CID, with classes defined late, classes deriving from other user classes and checks handed over through Cid.add_check(); rejections caused by user classes must tell their row; the same classes are also loaded from a plugin "
      "folder (names with glob characters included) by import_plugins and by the command line's --plugins in subprocesses and log to a file.",
      "Trusts the guard model and M-protocol; 'reset once' is judged as 'at least once before the first row, never later'.",
      "call-log monitor at the plugin boundary vs protocol model (trace specification)", "DESIGN.md 5/C20")

check("C18", "exploration",
      "The argv shapes the property names (CID valid / rejected / missing in four suffixes x every ordered list of 0-3 data "
      "files over nine file kinds x --until values, for delimited, fixed, ODS and XLSX data, plus an injected EIO in the middle "
      "of a file) are enumerated and run in-process through applications.main and, sampled, as real subprocesses; the observed "
      "exit code is compared with the documented table, per-file verdicts coming from cutplace.validate on a fresh CID.",
      "Relational to the programmatic API; rejected+unreadable in one invocation is unjudged.",
      "enumerated executions of the command line vs exit-code table relational to the API + I/O failpoint", "DESIGN.md 5/C18")

check("C15", "fault_enumeration",
      "ODS files are produced by an independent encoder (zipfile + hand-written ODF XML) with all 128 combinations of the optional "
      "encoding features plus header rows, nested row groups, merged cells and annotations, 1-3 sheets and three XML encodings; every sheet is read with ods_rows (and through cutplace.rows under an "
      "ODS CID) and compared with the logical table; faults (missing sheet, not a zip, no content.xml, truncation at every 64th/128th "
      "byte, content.xml cut at tag boundaries, repeat counts that are non-positive, non-numeric for XML or absurdly big, nesting beyond the recursion limit) must end in DataFormatError.",
      "Trusts the encoder cpverif/storage.py (ODF 1.2 white-space rules); trailing runs of empty rows and constructs the encoder never emits are unjudged.",
      "independent encoder -> real reader comparison + container fault enumeration", "DESIGN.md 5/C15")

check("C16", "exploration",
      "Workbooks are produced with xlsxwriter driven directly (all cell kinds, boundary integers up to 2^53, stress floats, sampled "
      "dates and times, 1-3 sheets with distinguishable contents, ragged rows); every sheet is read with excel_rows and through "
      "cutplace.rows with a Sheet property and each cell compared with the text computed from the produced value; string tables "
      "are written with XlsxRowWriter and read back.",
      "Trusts xlsxwriter as independent producer (numbers stored with %.16G) and Python's float repr as 'shortest text'.",
      "independent producer -> real reader comparison, per cell, + writer round trip", "DESIGN.md 5/C16")

check("C09", "exploration",
      "Generated valid CIDs (four formats, all field types with rules from the C02 grammars and examples the field model accepts, "
      "0-3 checks) are loaded through Cid.read; meaning-preserving rewrites must stay accepted and parse to the same interface "
      "(observed through the public attributes); each entry of a ~45-defect catalogue is applied at every applicable row and must "
      "be refused with an InterfaceError whose text names that row.",
      "Defect catalogue and rewrite set are those of DESIGN.md plus the round-3/4 additions (field after check, undeclared names anywhere in a DistinctCount rule, fractional / multi-part lengths, untokenizable cells).",
      "boundary observation of Cid.read under rewrite-equivalence and single-defect injection at every row", "DESIGN.md 5/C09")

check("C10", "fault_enumeration",
      "Every cell of every row kind of four valid base CIDs and every cell of their data is replaced, one at a time, by each of "
      "~160 hostile values and by 22 hostile decorations of the cell's own value; the CID is loaded, the data validated under it, and a tenth also run through applications.main; "
      "containers are truncated / get one byte replaced at every offset (archives sampled in quick). An exception monitor at "
      "the API boundary admits only InterfaceError / DataError and never exit code 4; the innermost cutplace frame of an "
      "escaping traceback names the mechanism. Thorough adds all cell pairs over the 25 most productive values.",
      "Fault enumeration over a finite hostile pool; anything outside the pool is not covered. OSError is environment (C18).",
      "exception-type monitor at the API boundary under exhaustive single-cell fault injection", "DESIGN.md 5/C10")

check("C17", "exploration",
      "Each logical case (CID contents + rectangular table of accepted and rejected text cells) is stored in all 3 x 3 "
      "combinations of CID storage {csv, ods, xlsx} and data format {delimited, ods, excel}; the real loader and reader run on "
      "every combination and the recorded interfaces / per-row verdicts / returned values are compared with each other and "
      "with the row model.",
      "Relational oracle over nine executions per case; independent ODS and XLSX producers.",
      "relational comparison of nine recorded executions per case + row model", "DESIGN.md 5/C17")

check("C19", "exploration",
      "CREATE TABLE statements are generated by the real SqlFactory for all four dialects from CIDs covering, exhaustively, every "
      "Integer range over the boundary set +-(2^k + d) and +-(10^k + d) and, sampled, keyword / near-keyword names in three casings, Decimal "
      "rules, Integer rules and length declarations of several parts in any order, empty marks, CIDs that grow through the API between two statements of one factory; the statement is parsed back and every column compared with the DDL model "
      "(order, quoting - keyword tables cross-checked with the vendors' reserved words -, NOT NULL, a column type that exists in the dialect and whose interval contains both limits, decimal digits, text length); sql.write_create() is run on CIDs stored as CSV, ODS and Excel.",
      "Trusts the DDL model in cpverif/props/c19.py; ANSI int between 32 and 64 bit and open-ended ranges are unjudged.",
      "output of the real generator parsed back and judged by a DDL model, exhaustive over the type-boundary set", "DESIGN.md 5/C19")

NOT_YET = "check not built yet in this session; see DESIGN.md section 5 for the planned monitor"

def main():
    props = [json.loads(l) for l in open(os.path.join(HERE, "properties.jsonl"))]
    manifest = {
        "version": 1,
        "setup_cmd": "./vcheck --setup",
        "hooks": {
            "guard": "CUTPLACE_VERIF",
            "enable": "no source hooks are needed: monitors are attached from the harness process by rebinding attributes of the imported cutplace modules (see DESIGN.md 2.2); ./vcheck exports CUTPLACE_VERIF=1 for uniformity",
            "baseline_off_cmd": "/venv/bin/python tools/baseline_off.py",
            "source_commits": [],
            "add_only": True,
        },
        "engines": [
            {"name": "cpverif", "path": "cpverif/", "serves_properties": sorted(CHECKS),
             "kind_free_text": "runtime monitoring: boundary monitors + executable reference models + recorded-history oracles over generated, exhaustive-bounded and fault-injected workloads run against /repo's working tree"}
        ],
        "checks": [],
        "not_applicable": [],
        "notes": "Exit 0 held / 1 VIOLATION / 2 INCONCLUSIVE (deciding monitor never reached). known_findings.json lists genuine defects: open ones print KNOWN-FINDING, fixed ones suppress nothing.",
    }
    for p in props:
        pid = p["id"]
        if pid in CHECKS:
            c = CHECKS[pid]
            manifest["checks"].append({
                "property_id": pid,
                "quick_cmd": "./vcheck %s quick" % pid,
                "thorough_cmd": "./vcheck %s thorough" % pid,
                "evidence_file": "evidence/%s.json" % pid,
                "replay_cmd_template": "./vcheck %s --replay {path}" % pid,
                "engine": "cpverif",
                "level_claimed": {"category": c["category"], "text": c["text"], "design_ref": c["design_ref"]},
                "level_note": c["note"],
                "technique": c["technique"],
            })
        else:
            manifest["not_applicable"].append({"property_id": pid, "reason": NOT_YET})
    with open(os.path.join(HERE, "MANIFEST.json"), "w") as f:
        json.dump(manifest, f, indent=1)
    print("MANIFEST.json: %d checks, %d not_applicable" % (len(manifest["checks"]), len(manifest["not_applicable"])))

if __name__ == "__main__":
    main()
