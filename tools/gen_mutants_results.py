#!/usr/bin/env python3
"""tools/gen_mutants_results.py LOG...  - rewrites selftest/RESULTS.md from the logs of tools/mutants.py --baseline"""
import ast, json, os, subprocess, sys
HERE = os.path.dirname(os.path.dirname(os.path.abspath(__file__)))
catalogue = json.load(open(os.path.join(HERE, "selftest", "mutants.json")))
results = {}
for path in sys.argv[1:]:
    for line in open(path):
        line = line.strip()
        if line.startswith("('"):
            name, status = ast.literal_eval(line)
            results[name] = status
head = subprocess.run("git -C /repo log --format=%h -1", shell=True, capture_output=True, text=True).stdout.strip()
rows = []
caught = survives = 0
for m in catalogue:
    status = results.get(m["name"], "not run")
    baseline = "survives" if "baseline:survives" in status else ("killed by tests" if "KILLED-BY-TESTS" in status else "?")
    verdict = " ".join(p for p in status.split() if not p.startswith("baseline:"))
    ok = "MISSED" not in status and "STALE" not in status and status != "not run"
    caught += ok
    survives += baseline == "survives"
    where = m.get("file") or ("git revert %s" % m["revert"])
    rows.append("| %s | %s | %s | %s |" % (m["name"], where, baseline, verdict))
text = """# Mutation self-test results

Produced by `tools/mutants.py --baseline` (4 chunks in parallel) on a scratch clone of /repo at %s and rewritten by
`tools/gen_mutants_results.py`. Each mutant is one textual edit of `selftest/mutants.json` or the `git revert` of one repair
commit; *baseline* says whether the 218 stable tests of BASELINE.json still pass with the mutant (mutants killed by those tests
are kept: the checks must catch them as well); *result* is the verdict of the owning properties' quick checks (caught = exit 1
with a VIOLATION line for that property).

**%d mutants, %d caught, %d of them survive the baseline tests.**

| mutant | where | baseline tests | result |
|---|---|---|---|
%s
""" % (head, len(catalogue), caught, survives, "\n".join(rows))
open(os.path.join(HERE, "selftest", "RESULTS.md"), "w").write(text)
print(len(catalogue), "mutants,", caught, "caught,", survives, "survive the baseline")
