"""
C18 finding 3: a named file that can be opened but not read results in exit
code 1 ("data must be fixed") instead of 3 if the CID declares the ODS format
(or is an *.ods itself), while the same file results in 3 with the other
formats. Uses /proc/self/mem (Linux), which can be opened but fails with EIO
on read().
"""
import atexit
import logging
import os
import shutil
import sys
import tempfile

from cutplace import applications

logging.disable(logging.CRITICAL)

UNREADABLE_PATH = "/proc/self/mem"


def cli(argv):
    try:
        return applications.main(["cutplace"] + argv)
    except SystemExit as error:
        return "SystemExit(%r)" % (error.code,)


def write(path, text):
    with open(path, "w", encoding="utf-8", newline="") as target:
        target.write(text)
    return path


try:
    with open(UNREADABLE_PATH, "rb") as unreadable_file:
        unreadable_file.read(1)
    print("%s can be read here, cannot demonstrate" % UNREADABLE_PATH)
    sys.exit(0)
except FileNotFoundError:
    print("%s does not exist here, cannot demonstrate" % UNREADABLE_PATH)
    sys.exit(0)
except OSError as error:
    print("reading %s fails with: %s" % (UNREADABLE_PATH, error))

folder = tempfile.mkdtemp(prefix="c18_f3_", dir=os.path.dirname(os.path.abspath(__file__)))
atexit.register(shutil.rmtree, folder, True)
format_to_exit_code = {}
for format_name in ("Delimited", "Excel", "ODS"):
    cid_path = write(
        os.path.join(folder, "cid_%s.csv" % format_name.lower()), "D,Format,%s\nF,name,,,,Text\n" % format_name
    )
    format_to_exit_code[format_name] = cli([cid_path, UNREADABLE_PATH])
    print("data format %-9s: cutplace cid.csv %s -> exit code %s" % (format_name, UNREADABLE_PATH, format_to_exit_code[format_name]))

# The same for a CID that cannot be read.
suffix_to_exit_code = {}
for suffix in ("csv", "xls", "ods"):
    link_path = os.path.join(folder, "unreadable_cid." + suffix)
    os.symlink(UNREADABLE_PATH, link_path)
    suffix_to_exit_code[suffix] = cli([link_path])
    print("unreadable CID *.%s -> exit code %s" % (suffix, suffix_to_exit_code[suffix]))

is_violation = format_to_exit_code["ODS"] != 3 or suffix_to_exit_code["ods"] != 3
print("VIOLATION" if is_violation else "ok")
sys.exit(1 if is_violation else 0)
