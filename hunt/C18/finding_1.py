"""
C18 finding 1: "--until N" does not have the same effect as the validation
limit of cutplace.validate(): faults in the basic structure of a file beyond
the limit (or anywhere in the file with --until 0) make the command line exit
with 1 although cutplace.validate(cid, file, validate_until=N) accepts the file.
"""
import atexit
import logging
import os
import shutil
import sys
import tempfile

import cutplace
from cutplace import applications, errors

logging.disable(logging.CRITICAL)


def cli(argv):
    try:
        return applications.main(["cutplace"] + argv)
    except SystemExit as error:
        return "SystemExit(%r)" % (error.code,)


def api_accepts(cid_path, data_path, until):
    try:
        cutplace.validate(cid_path, data_path, validate_until=until)
        return True
    except errors.CutplaceError:
        return False


def write(path, text):
    with open(path, "w", encoding="utf-8", newline="") as target:
        target.write(text)
    return path


folder = tempfile.mkdtemp(prefix="c18_f1_", dir=os.path.dirname(os.path.abspath(__file__)))
atexit.register(shutil.rmtree, folder, True)
cases = []

# (a) delimited data: rows 1..3 are fine, row 5 has a quote that never ends.
cid_delimited = write(
    os.path.join(folder, "cid_delimited.csv"), "D,Format,Delimited\nF,id,,,,Integer,0...99\nF,name\n"
)
late_quote = write(os.path.join(folder, "late_quote.csv"), '1,a\n2,b\n3,c\n4,d\n5,"e\n')
cases.append(("delimited, open quote in row 5", cid_delimited, late_quote, 2))
cases.append(("delimited, open quote in row 5", cid_delimited, late_quote, 0))

# (b) fixed data: the third line is too short.
cid_fixed = write(
    os.path.join(folder, "cid_fixed.csv"),
    "D,Format,Fixed\nD,Line delimiter,LF\nF,id,,,2,Integer,0...99\nF,name,,,3\n",
)
short_line = write(os.path.join(folder, "short_line.txt"), "01abc\n02def\n03g")
cases.append(("fixed, row 3 too short", cid_fixed, short_line, 1))

# (c) Excel / ODS data: with a limit of 0 cutplace.validate() does not even look at the file.
cid_excel = write(os.path.join(folder, "cid_excel.csv"), "D,Format,Excel\nF,id,,,,Integer,0...99\nF,name\n")
no_excel = write(os.path.join(folder, "no_excel.xls"), "this is no Excel file")
cases.append(("Excel, file is plain text", cid_excel, no_excel, 0))
cid_ods = write(os.path.join(folder, "cid_ods.csv"), "D,Format,ODS\nF,id,,,,Integer,0...99\nF,name\n")
no_ods = write(os.path.join(folder, "no_ods.ods"), "this is no ODS file")
cases.append(("ODS, file is plain text", cid_ods, no_ods, 0))

violation_count = 0
for title, cid_path, data_path, until in cases:
    exit_code = cli(["--until", str(until), cid_path, data_path])
    accepted_by_api = api_accepts(cid_path, data_path, until)
    is_violation = accepted_by_api != (exit_code == 0)
    if is_violation:
        violation_count += 1
    print(
        "%-32s --until %d: exit code=%s; cutplace.validate(..., validate_until=%d) %s -> %s"
        % (title, until, exit_code, until, "accepts" if accepted_by_api else "rejects", "VIOLATION" if is_violation else "ok")
    )

print("violations: %d" % violation_count)
sys.exit(1 if violation_count else 0)
