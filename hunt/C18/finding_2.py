"""
C18 finding 2: with "--until N" placed between the CID and the data file(s)
the command exits with 2 ("arguments must be fixed") although the CID loads and
the file is accepted; the same arguments in any other order exit with 0.
"""
import contextlib
import io
import atexit
import logging
import os
import shutil
import sys
import tempfile

import cutplace
from cutplace import applications

logging.disable(logging.CRITICAL)


def cli(argv):
    with contextlib.redirect_stderr(io.StringIO()) as stderr:
        try:
            result = applications.main(["cutplace"] + argv)
        except SystemExit as error:
            result = error.code
    return result, stderr.getvalue().strip().split("\n")[-1]


def write(path, text):
    with open(path, "w", encoding="utf-8", newline="") as target:
        target.write(text)
    return path


folder = tempfile.mkdtemp(prefix="c18_f2_", dir=os.path.dirname(os.path.abspath(__file__)))
atexit.register(shutil.rmtree, folder, True)
cid_path = write(os.path.join(folder, "cid.csv"), "D,Format,Delimited\nF,id,,,,Integer,0...99\nF,name\n")
data_path = write(os.path.join(folder, "data.csv"), "1,a\n2,b\n")
other_path = write(os.path.join(folder, "other.csv"), "3,c\n")

cutplace.validate(cid_path, data_path, validate_until=1)  # accepted by the API
cutplace.validate(cid_path, other_path, validate_until=1)  # accepted by the API

results = []
for argv in (
    ["--until", "1", cid_path, data_path],
    [cid_path, data_path, "--until", "1"],
    [cid_path, "--until", "1", data_path],
    [cid_path, data_path, "--until", "1", other_path],
):
    exit_code, last_error_line = cli(argv)
    results.append(exit_code)
    print("exit code %s for: cutplace %s" % (exit_code, " ".join(os.path.basename(item) for item in argv)))
    if last_error_line:
        print("    " + last_error_line)

is_violation = results[0] == 0 and results[1] == 0 and (results[2] != 0 or results[3] != 0)
print("VIOLATION" if is_violation else "ok")
sys.exit(1 if is_violation else 0)
