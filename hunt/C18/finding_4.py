"""
C18 finding 4 (exotic): the rule of a DistinctCount check is evaluated with
eval() and full builtins; a SystemExit raised by the expression is not an
Exception, so neither checks.DistinctCountCheck._eval() nor
applications.main() handle it and the command ends with exit code 0 although
(a) the CID never finished loading or (b) the file fails the check.
"""
import atexit
import logging
import os
import shutil
import sys
import tempfile

from cutplace import applications, interface

logging.disable(logging.CRITICAL)


def cli(argv):
    try:
        return applications.main(["cutplace"] + argv)
    except SystemExit as error:
        # What the operating system gets to see: sys.exit(None) and sys.exit(0) both mean exit code 0.
        return 0 if error.code in (None, 0) else error.code


def write(path, text):
    with open(path, "w", encoding="utf-8", newline="") as target:
        target.write(text)
    return path


folder = tempfile.mkdtemp(prefix="c18_f4_", dir=os.path.dirname(os.path.abspath(__file__)))
atexit.register(shutil.rmtree, folder, True)
data_path = write(os.path.join(folder, "three.csv"), "1\n2\n3\n")

# (a) CID that never loads.
cid_a = write(os.path.join(folder, "cid_a.csv"), 'D,Format,Delimited\nF,a\nC,c,DistinctCount,a >= 0 and exit(0)\n')
try:
    interface.Cid(cid_a)
    cid_a_loads = True
except BaseException as error:
    cid_a_loads = False
    print("(a) Cid(%s) fails with %r" % (os.path.basename(cid_a), error))
exit_code_a = cli([cid_a])
print("(a) exit code: %s" % exit_code_a)

# (b) File with 3 distinct values checked against "a < 3".
cid_plain = write(os.path.join(folder, "cid_plain.csv"), "D,Format,Delimited\nF,a\nC,c,DistinctCount,a < 3\n")
cid_b = write(os.path.join(folder, "cid_b.csv"), "D,Format,Delimited\nF,a\nC,c,DistinctCount,a < 3 or exit()\n")
exit_code_plain = cli([cid_plain, data_path])
exit_code_b = cli([cid_b, data_path])
print("(b) rule 'a < 3': exit code %s; rule 'a < 3 or exit()': exit code %s" % (exit_code_plain, exit_code_b))

is_violation = (not cid_a_loads and exit_code_a == 0) or (exit_code_plain == 1 and exit_code_b == 0)
print("VIOLATION" if is_violation else "ok")
sys.exit(1 if is_violation else 0)
