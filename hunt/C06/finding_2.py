"""
Finding 2: a short fixed record is swallowed instead of ending in a
DataFormatError.

rowio.fixed_rows() reads each field with read(field_length) and never looks
into what it read. If a record is too short by no more characters than the
line delimiter has, the line delimiter itself is consumed as the tail of the
last field:

* last record of the data (line delimiter any, lf, cr or crlf): after the
  record read() hits the end of the input, which
  _has_data_after_skipped_line_delimiter() takes as regular end of data;
* any record of CR LF terminated data with the default line delimiter "any":
  the "\r" ends up in the field and the remaining "\n" is a valid delimiter.

The resulting row (for example ['ef', '78\n']) is then even *accepted*
because fixed fields are stripped before they are validated.

Exit code 1 if the violation shows on the code under test, 0 otherwise.
"""
import io
import sys

import cutplace
import cutplace.errors
import cutplace.interface


def fixed_cid(line_delimiter):
    cid_text = "d,format,fixed\nd,encoding,utf-8\n"
    if line_delimiter is not None:
        cid_text += "d,line delimiter,%s\n" % line_delimiter
    cid_text += "f,code,,,2\nf,amount,,,3,Integer\n"
    return cutplace.interface.create_cid_from_string(cid_text)


def run(line_delimiter, data, on_error):
    reader = cutplace.Reader(fixed_cid(line_delimiter), io.StringIO(data, newline=""), on_error=on_error)
    items = []
    raised = None
    try:
        for item in reader.rows():
            items.append(item)
    except cutplace.errors.DataError as error:
        raised = error
    return items, raised, reader.accepted_rows_count, reader.rejected_rows_count


CASES = [
    # (description, line delimiter in CID, data)
    ("last record 1 character short, LF, default line delimiter", None, "ab123\ncd456\nef78\n"),
    ("last record 1 character short, LF, line delimiter lf", "lf", "ab123\ncd456\nef78\n"),
    ("last record 1 character short, CR, line delimiter cr", "cr", "ab123\rcd456\ref78\r"),
    ("last record 2 characters short, CR LF, line delimiter crlf", "crlf", "ab123\r\ncd456\r\nef7\r\n"),
    ("first record 1 character short, CR LF, default line delimiter", None, "ab12\r\ncd456\r\nef789\r\n"),
    ("middle record 1 character short, CR LF, default line delimiter", None, "ab123\r\ncd45\r\nef789\r\n"),
]


def main():
    violated = False
    # Sanity check: the same kind of fault in the middle of LF data is detected.
    _, raised, _, _ = run(None, "ab123\ncd45\nef789\n", "yield")
    print("reference (middle record short, LF): %s" % type(raised).__name__)
    for description, line_delimiter, data in CASES:
        print("--- %s: %r" % (description, data))
        for on_error in ("yield", "continue", "raise"):
            items, raised, accepted, rejected = run(line_delimiter, data, on_error)
            print("  %-8s: items=%s raised=%s accepted=%s rejected=%s" % (on_error, items, raised, accepted, rejected))
            if not isinstance(raised, cutplace.errors.DataFormatError):
                print("  VIOLATION: short fixed record did not end in a DataFormatError (mode %r)" % on_error)
                violated = True
    return 1 if violated else 0


if __name__ == "__main__":
    sys.exit(main())
