"""
Finding 4: one date/time formatted cell that xlrd cannot convert aborts the
whole Excel pass with a DataFormatError in every mode, although the workbook
(the container) is perfectly well formed.

rowio._excel_cell_value() calls xlrd.xldate_as_tuple() for every cell with a
date or time number format. xlrd raises XLDateAmbiguous for day numbers 1...60
(dates in January/February 1900, but also any duration of 24 hours or more
such as 25:30:00 == 1.0625), XLDateNegative for negative numbers and
XLDateTooLarge for huge ones. excel_rows() catches this with
"except Exception" and turns it into DataFormatError("cannot read Excel
file: 1.0625"). So instead of "one data error for the rejected row", modes
'yield' and 'continue' stop at that row and never produce or count the rows
after it.

Exit code 1 if the violation shows on the code under test, 0 otherwise.
"""
import os
import sys
import tempfile

import xlsxwriter

import cutplace
import cutplace.errors
import cutplace.interface

CID_TEXT = "d,format,excel\nf,employee\nf,hours_worked\n"


def write_workbook(path):
    workbook = xlsxwriter.Workbook(path)
    worksheet = workbook.add_worksheet()
    duration_format = workbook.add_format({"num_format": "[h]:mm:ss"})
    # Durations as fractions of a day: 12:00:00, 25:30:00, 06:00:00, 18:00:00
    for row_index, (name, duration) in enumerate(
        [("alice", 0.5), ("bob", 25.5 / 24), ("carol", 0.25), ("dave", 0.75)]
    ):
        worksheet.write_string(row_index, 0, name)
        worksheet.write_number(row_index, 1, duration, duration_format)
    workbook.close()


def main():
    violated = False
    path = os.path.join(tempfile.mkdtemp(prefix="hunt_c06_f4_"), "hours.xlsx")
    write_workbook(path)
    print("4 data rows; row 2 holds the duration 25:30:00 in a cell with time format [h]:mm:ss")
    for on_error in ("yield", "continue", "raise"):
        cid = cutplace.interface.create_cid_from_string(CID_TEXT)
        reader = cutplace.Reader(cid, path, on_error=on_error)
        items = []
        raised = None
        try:
            for item in reader.rows():
                items.append(item)
        except cutplace.errors.DataError as error:
            raised = error
        accepted, rejected = reader.accepted_rows_count, reader.rejected_rows_count
        print("  %-8s: items=%s raised=%r accepted=%s rejected=%s" % (on_error, items, raised, accepted, rejected))
        if on_error in ("yield", "continue"):
            if isinstance(raised, cutplace.errors.DataFormatError):
                print("  VIOLATION: a well formed workbook ended in a DataFormatError (mode %r)" % on_error)
                violated = True
            if accepted + rejected != 4:
                print("  VIOLATION: accepted + rejected = %d but there are 4 data rows" % (accepted + rejected))
                violated = True
            rows = [item for item in items if not isinstance(item, Exception)]
            if ["carol", "06:00:00"] not in rows:
                print("  VIOLATION: valid rows after the odd cell are never produced")
                violated = True
    return 1 if violated else 0


if __name__ == "__main__":
    sys.exit(main())
