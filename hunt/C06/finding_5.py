"""
Finding 5: broken archives that surface as something else than a
DataFormatError.

(a) Excel: rowio.excel_rows() has "except OSError: raise" (meant for missing
    files) in front of the catch-all that converts library errors into
    DataFormatError. A damaged ZIP directory of an existing, readable *.xlsx
    makes zipfile seek to a negative position, which fails with
    OSError(EINVAL) - and is passed on as OSError in every mode. The very same
    damage in an *.ods results in a DataFormatError.

(b) ODS: the values of table:number-columns-repeated (and text:c) are checked
    for "is an integer >= 1" only, an absurd count ends in OverflowError or
    MemoryError from "[cell_value] * repeated_count" instead of a
    DataFormatError.

Exit code 1 if the violation shows on the code under test, 0 otherwise.
"""
import os
import struct
import sys
import tempfile
import zipfile

import xlsxwriter

import cutplace
import cutplace.errors
import cutplace.interface

_NAMESPACES = (
    'xmlns:office="urn:oasis:names:tc:opendocument:xmlns:office:1.0" '
    'xmlns:table="urn:oasis:names:tc:opendocument:xmlns:table:1.0" '
    'xmlns:text="urn:oasis:names:tc:opendocument:xmlns:text:1.0"'
)


def write_xlsx(path):
    workbook = xlsxwriter.Workbook(path)
    worksheet = workbook.add_worksheet()
    for row_index in range(5):
        worksheet.write_string(row_index, 0, "r%d" % row_index)
        worksheet.write_string(row_index, 1, "%d" % row_index)
    workbook.close()


def write_ods(path, rows_xml):
    content_xml = (
        '<?xml version="1.0" encoding="UTF-8"?>'
        '<office:document-content %s office:version="1.2"><office:body><office:spreadsheet>'
        '<table:table table:name="Sheet1">%s</table:table>'
        "</office:spreadsheet></office:body></office:document-content>"
    ) % (_NAMESPACES, rows_xml)
    with zipfile.ZipFile(path, "w", zipfile.ZIP_DEFLATED) as ods_zip:
        ods_zip.writestr("mimetype", "application/vnd.oasis.opendocument.spreadsheet", zipfile.ZIP_STORED)
        ods_zip.writestr("content.xml", content_xml)


def damage_zip_directory_offset(source_path, target_path):
    """
    Copy of the ZIP ``source_path`` where the "offset of start of central
    directory" in the "end of central directory" record is too big by 16 MB.
    """
    with open(source_path, "rb") as source_file:
        zip_data = bytearray(source_file.read())
    end_of_central_directory_index = zip_data.rfind(b"PK\x05\x06")
    assert end_of_central_directory_index >= 0
    (offset,) = struct.unpack_from("<I", zip_data, end_of_central_directory_index + 16)
    struct.pack_into("<I", zip_data, end_of_central_directory_index + 16, offset + 0x01000000)
    with open(target_path, "wb") as target_file:
        target_file.write(bytes(zip_data))


def outcome(cid_text, data_path, on_error):
    cid = cutplace.interface.create_cid_from_string(cid_text)
    reader = cutplace.Reader(cid, data_path, on_error=on_error)
    try:
        items = list(reader.rows())
        return "completed with %d items" % len(items), None
    except BaseException as error:
        return "%s: %s" % (type(error).__name__, error), error


def row_xml(cells):
    return "<table:table-row>%s</table:table-row>" % "".join(
        '<table:table-cell office:value-type="string"><text:p>%s</text:p></table:table-cell>' % cell for cell in cells
    )


def main():
    violated = False
    folder = tempfile.mkdtemp(prefix="hunt_c06_f5_")

    print("--- (a) *.xlsx and *.ods with a damaged offset of the ZIP central directory")
    good_xlsx_path = os.path.join(folder, "good.xlsx")
    write_xlsx(good_xlsx_path)
    broken_xlsx_path = os.path.join(folder, "broken.xlsx")
    damage_zip_directory_offset(good_xlsx_path, broken_xlsx_path)
    good_ods_path = os.path.join(folder, "good.ods")
    write_ods(good_ods_path, row_xml(["r0", "0"]))
    broken_ods_path = os.path.join(folder, "broken.ods")
    damage_zip_directory_offset(good_ods_path, broken_ods_path)
    with open(broken_xlsx_path, "rb"):
        pass  # The broken file exists and can be opened, so this is no environment issue.
    for data_format, path in (("excel", broken_xlsx_path), ("ods", broken_ods_path)):
        cid_text = "d,format,%s\nf,code\nf,amount,,,,Integer\n" % data_format
        for on_error in ("yield", "continue", "raise"):
            text, error = outcome(cid_text, path, on_error)
            print("  %-5s %-8s: %s" % (data_format, on_error, text))
            if not isinstance(error, cutplace.errors.DataFormatError):
                print("  VIOLATION: broken archive did not end in a DataFormatError")
                violated = True

    print("--- (b) *.ods with absurd table:number-columns-repeated")
    cid_text = "d,format,ods\nf,code\nf,amount,,,,Integer\n"
    # NOTE: 10**14 would end in a MemoryError, the following in an OverflowError.
    absurd_cell_xml = (
        '<table:table-row><table:table-cell table:number-columns-repeated="%d"><text:p>x</text:p>'
        "</table:table-cell></table:table-row>" % (10 ** 30)
    )
    absurd_ods_path = os.path.join(folder, "absurd.ods")
    write_ods(absurd_ods_path, row_xml(["r0", "0"]) + absurd_cell_xml + row_xml(["r2", "2"]))
    for on_error in ("yield", "continue", "raise"):
        text, error = outcome(cid_text, absurd_ods_path, on_error)
        print("  ods   %-8s: %s" % (on_error, text))
        if not isinstance(error, cutplace.errors.DataFormatError):
            print("  VIOLATION: malformed ODS did not end in a DataFormatError")
            violated = True
    return 1 if violated else 0


if __name__ == "__main__":
    sys.exit(main())
