"""
Finding 3: ODS rows inside <table:table-row-group>, <table:table-header-rows>
or <table:table-rows> are silently dropped, so the counters do not account for
every data row (and an invalid row among them is never rejected).

rowio.ods_rows() collects the rows with
table_element.findall("table:table-row"), i.e. only direct children of
<table:table>. ODF 1.2 (and LibreOffice) wrap rows in

* <table:table-row-group> when rows are grouped (Data > Group and Outline),
* <table:table-header-rows> when "rows to repeat" are set for printing,
* <table:table-rows> (allowed by the schema as plain container).

Exit code 1 if the violation shows on the code under test, 0 otherwise.
"""
import os
import sys
import tempfile
import zipfile

import cutplace
import cutplace.errors
import cutplace.interface

_NAMESPACES = (
    'xmlns:office="urn:oasis:names:tc:opendocument:xmlns:office:1.0" '
    'xmlns:table="urn:oasis:names:tc:opendocument:xmlns:table:1.0" '
    'xmlns:text="urn:oasis:names:tc:opendocument:xmlns:text:1.0"'
)


def row_xml(cells):
    return "<table:table-row>%s</table:table-row>" % "".join(
        '<table:table-cell office:value-type="string"><text:p>%s</text:p></table:table-cell>' % cell for cell in cells
    )


def write_ods(path, rows_xml):
    content_xml = (
        '<?xml version="1.0" encoding="UTF-8"?>'
        '<office:document-content %s office:version="1.2"><office:body><office:spreadsheet>'
        '<table:table table:name="Sheet1"><table:table-column table:number-columns-repeated="2"/>'
        "%s</table:table></office:spreadsheet></office:body></office:document-content>"
    ) % (_NAMESPACES, rows_xml)
    with zipfile.ZipFile(path, "w", zipfile.ZIP_DEFLATED) as ods_zip:
        ods_zip.writestr("mimetype", "application/vnd.oasis.opendocument.spreadsheet", zipfile.ZIP_STORED)
        ods_zip.writestr("content.xml", content_xml)
        ods_zip.writestr(
            "META-INF/manifest.xml",
            '<?xml version="1.0" encoding="UTF-8"?>'
            '<manifest:manifest xmlns:manifest="urn:oasis:names:tc:opendocument:xmlns:manifest:1.0"/>',
        )


def run(cid_text, ods_path, on_error):
    cid = cutplace.interface.create_cid_from_string(cid_text)
    reader = cutplace.Reader(cid, ods_path, on_error=on_error)
    items = []
    raised = None
    try:
        for item in reader.rows():
            items.append(item)
    except cutplace.errors.DataError as error:
        raised = error
    return items, raised, reader.accepted_rows_count, reader.rejected_rows_count


def main():
    violated = False
    folder = tempfile.mkdtemp(prefix="hunt_c06_f3_")

    # Case 1: 4 data rows, rows 2 and 3 are grouped; row 3 has a broken amount.
    cid_text = "d,format,ods\nf,code\nf,amount,,,,Integer\n"
    grouped_path = os.path.join(folder, "grouped.ods")
    write_ods(
        grouped_path,
        row_xml(["a", "1"])
        + "<table:table-row-group>" + row_xml(["b", "2"]) + row_xml(["c", "x"]) + "</table:table-row-group>"
        + row_xml(["d", "4"]),
    )
    print("--- 4 data rows, rows 2 and 3 in a table:table-row-group, row 3 is invalid ('x' as Integer)")
    for on_error in ("yield", "continue", "raise"):
        items, raised, accepted, rejected = run(cid_text, grouped_path, on_error)
        print("  %-8s: items=%s raised=%s accepted=%s rejected=%s" % (on_error, items, raised, accepted, rejected))
        if on_error != "raise":
            if accepted + rejected != 4:
                print("  VIOLATION: accepted + rejected = %d but there are 4 data rows" % (accepted + rejected))
                violated = True
        elif raised is None:
            print("  VIOLATION: 'raise' completed although data row 3 is invalid")
            violated = True

    # Case 2: the heading is marked as "row to repeat" and the CID declares 1 header row.
    cid_with_header_text = "d,format,ods\nd,header,1\nf,code\nf,amount,,,,Integer\n"
    header_path = os.path.join(folder, "header_rows.ods")
    write_ods(
        header_path,
        "<table:table-header-rows>" + row_xml(["code", "amount"]) + "</table:table-header-rows>"
        + row_xml(["a", "1"]) + row_xml(["b", "2"]),
    )
    print("--- heading in table:table-header-rows, header=1, 2 data rows")
    items, raised, accepted, rejected = run(cid_with_header_text, header_path, "yield")
    print("  yield   : items=%s raised=%s accepted=%s rejected=%s" % (items, raised, accepted, rejected))
    if accepted + rejected != 2:
        print("  VIOLATION: accepted + rejected = %d but there are 2 data rows" % (accepted + rejected))
        violated = True

    # Case 3: plain <table:table-rows> container.
    rows_path = os.path.join(folder, "table_rows.ods")
    write_ods(rows_path, "<table:table-rows>" + row_xml(["a", "1"]) + row_xml(["b", "x"]) + "</table:table-rows>")
    print("--- 2 data rows in table:table-rows, row 2 is invalid")
    items, raised, accepted, rejected = run(cid_text, rows_path, "yield")
    print("  yield   : items=%s raised=%s accepted=%s rejected=%s" % (items, raised, accepted, rejected))
    if accepted + rejected != 2:
        print("  VIOLATION: accepted + rejected = %d but there are 2 data rows" % (accepted + rejected))
        violated = True
    return 1 if violated else 0


if __name__ == "__main__":
    sys.exit(main())
