"""
Finding 6: two readers working on the same Cid object at the same time (for
example to compare the modes, or two files, in lockstep) corrupt each other's
results, so 'continue' no longer produces the accepted rows of 'yield'.

The state of the checks (keys seen by IsUnique, values seen by DistinctCount)
is stored in the check objects owned by the Cid, not in the Reader. Creating a
Reader and starting Reader.rows() both reset this shared state, and every
validated row of one reader is remembered as "already seen" for the other one.

Each reader on its own (or used one after the other) gives the documented
result; this needs the literally same Cid object in two readers that are
active at the same time.

Exit code 1 if the violation shows on the code under test, 0 otherwise.
"""
import io
import sys

import cutplace
import cutplace.errors
import cutplace.interface

CID_TEXT = """d,format,delimited
d,encoding,utf-8
f,id,,,,Integer
f,name
c,id_must_be_unique,IsUnique,id
"""
# Row 3 has a broken id, row 4 is a duplicate of row 2.
DATA = "1,a\n2,b\nx,c\n2,d\n3,e\n"


def main():
    violated = False
    cid = cutplace.interface.create_cid_from_string(CID_TEXT)

    # Reference: one reader after the other using the same CID.
    reference_yield = list(cutplace.rows(cid, io.StringIO(DATA, newline=""), on_error="yield"))
    reference_continue = list(cutplace.rows(cid, io.StringIO(DATA, newline=""), on_error="continue"))
    reference_accepted = [item for item in reference_yield if not isinstance(item, Exception)]
    print("one after the other:")
    print("  yield   :", reference_yield)
    print("  continue:", reference_continue)
    assert reference_accepted == reference_continue

    # Now in lockstep: whenever 'yield' accepted a row, fetch the next row from 'continue'.
    yield_rows = cutplace.rows(cid, io.StringIO(DATA, newline=""), on_error="yield")
    continue_rows = cutplace.rows(cid, io.StringIO(DATA, newline=""), on_error="continue")
    lockstep_yield = []
    lockstep_continue = []
    for item in yield_rows:
        lockstep_yield.append(item)
        if not isinstance(item, Exception):
            try:
                lockstep_continue.append(next(continue_rows))
            except StopIteration:
                pass
    lockstep_continue.extend(continue_rows)
    lockstep_accepted = [item for item in lockstep_yield if not isinstance(item, Exception)]
    print("in lockstep:")
    print("  yield   :", lockstep_yield)
    print("  continue:", lockstep_continue)
    if lockstep_accepted != lockstep_continue:
        print("VIOLATION: 'continue' produced %s but 'yield' accepted %s" % (lockstep_continue, lockstep_accepted))
        violated = True
    if [str(item) for item in lockstep_yield] != [str(item) for item in reference_yield]:
        print("VIOLATION: 'yield' result for the same CID and data depends on another active reader")
        violated = True
    return 1 if violated else 0


if __name__ == "__main__":
    sys.exit(main())
