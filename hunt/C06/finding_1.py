"""
Finding 1: cutplace.rows() / cutplace.validate() / "with Reader(...)" replace the
pending error by a CheckError from the end-of-data checks.

BaseValidator.__exit__() unconditionally calls close(), which runs
check_at_end() of all checks - even while a DataError (row rejection in mode
'raise') or a DataFormatError (broken container, any mode) is propagating. A
DistinctCount check evaluated on the partially read data then fails and its
CheckError replaces the original exception.

Exit code 1 if the violation shows on the code under test, 0 otherwise.
"""
import io
import sys

import cutplace
import cutplace.errors
import cutplace.interface

CID_TEXT = """d,format,delimited
d,encoding,utf-8
f,branch,,,,Integer
f,name,,,1...5
c,at_least_three_branches,DistinctCount,branch >= 3
"""
# 4 data rows with 3 distinct branches; row 2 has a name that is too long.
DATA_ONE_BAD_ROW = "1,a\n2,toolongname\n3,c\n2,d\n"
# Row 3 starts a quoted field that is never terminated.
DATA_UNTERMINATED_QUOTE = '1,a\n2,b\n3,"c\n4,d\n'


def run(data, on_error):
    cid = cutplace.interface.create_cid_from_string(CID_TEXT)
    items = []
    raised = None
    try:
        for item in cutplace.rows(cid, io.StringIO(data, newline=""), on_error=on_error):
            items.append(item)
    except cutplace.errors.CutplaceError as error:
        raised = error
    return items, raised


def describe(error):
    return "None" if error is None else "%s(%s)" % (type(error).__name__, error)


def main():
    violated = False

    print("--- part A: 'raise' must raise the same error that 'yield' reports for the first rejected row")
    yield_items, yield_raised = run(DATA_ONE_BAD_ROW, "yield")
    yielded_errors = [item for item in yield_items if isinstance(item, Exception)]
    print("yield   : items=%s, raised at end=%s" % (yield_items, describe(yield_raised)))
    raise_items, raise_raised = run(DATA_ONE_BAD_ROW, "raise")
    print("raise   : items=%s, raised=%s" % (raise_items, describe(raise_raised)))
    first_error = yielded_errors[0]
    if (raise_raised is None) or (type(raise_raised) is not type(first_error)) or (str(raise_raised) != str(first_error)):
        print("VIOLATION: 'raise' raised %s instead of %s" % (describe(raise_raised), describe(first_error)))
        print("           (original error only survives as __context__: %r)" % (raise_raised.__context__,))
        violated = True

    print("--- part B: a broken container must end in a DataFormatError in every mode")
    for on_error in ("yield", "continue", "raise"):
        items, raised = run(DATA_UNTERMINATED_QUOTE, on_error)
        print("%-8s: items=%s, raised=%s" % (on_error, items, describe(raised)))
        if not isinstance(raised, cutplace.errors.DataFormatError):
            print("VIOLATION: mode %r ended with %s instead of a DataFormatError" % (on_error, describe(raised)))
            violated = True

    print("--- part C: same with cutplace.validate()")
    cid = cutplace.interface.create_cid_from_string(CID_TEXT)
    try:
        cutplace.validate(cid, io.StringIO(DATA_UNTERMINATED_QUOTE, newline=""))
        print("validate: no error")
        violated = True
    except cutplace.errors.CutplaceError as error:
        print("validate: raised=%s" % describe(error))
        if not isinstance(error, cutplace.errors.DataFormatError):
            print("VIOLATION: validate() reports %s instead of the DataFormatError" % type(error).__name__)
            violated = True
    return 1 if violated else 0


if __name__ == "__main__":
    sys.exit(main())
