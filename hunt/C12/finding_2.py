"""
C12 finding 2: data formats with encodings the CID loader accepts as text encodings ("punycode", "idna")
silently change or truncate plain ASCII tables on a write / read round trip through a file.

Run: cd /tmp/wh_c12 && PYTHONPATH=/tmp/wh_c12 /venv/bin/python -W ignore /tmp/hunt_c12/finding_2.py
"""
import os
import sys
import tempfile

from cutplace import interface, validio


def create_cid(encoding):
    cid = interface.Cid()
    cid.read(
        "inline",
        [
            ["d", "format", "delimited"],
            ["d", "encoding", encoding],
            ["d", "item delimiter", ","],
            ["f", "a", "", "X"],
            ["f", "b", "", "X"],
        ],
    )
    return cid


def round_trip(cid, path, table):
    with validio.Writer(cid, path) as writer:
        writer.write_rows(table)
    return list(validio.rows(cid, path))


def main():
    violated = False
    folder = tempfile.mkdtemp(prefix="finding_2_", dir=os.path.dirname(os.path.abspath(__file__)))
    path = os.path.join(folder, "data.csv")
    cases = [
        ("punycode", [["a", "b"], ["c", "d"]]),
        ("idna", [["a.b", "c"]]),
        ("idna", [["a", "b"], ["c", "d"]]),
        # For comparison: a mainstream encoding.
        ("utf-8", [["a.b", "c"], ["c", "d"]]),
    ]
    for encoding, table in cases:
        cid = create_cid(encoding)  # The CID loader accepts the data format.
        try:
            table_read = round_trip(cid, path, table)
            outcome = "read back %r" % table_read
            is_same = table_read == table
        except Exception as error:
            outcome = "failed with %r" % error
            is_same = False
        with open(path, "rb") as data_file:
            data_bytes = data_file.read()
        print("encoding=%s: wrote %r; file contains %r; %s; identical=%s" % (encoding, table, data_bytes, outcome, is_same))
        violated = violated or not is_same
    os.remove(path)
    os.rmdir(folder)
    if violated:
        print("VIOLATION: accepted data format does not round trip a plain ASCII table")
        return 1
    print("no violation")
    return 0


if __name__ == "__main__":
    sys.exit(main())
