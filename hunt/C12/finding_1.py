"""
C12 finding 1: a cell longer than 131072 characters can be written but not read back.

Run: cd /tmp/wh_c12 && PYTHONPATH=/tmp/wh_c12 /venv/bin/python -W ignore /tmp/hunt_c12/finding_1.py
"""
import io
import sys

from cutplace import errors, interface, rowio


def create_cid():
    cid = interface.Cid()
    cid.read(
        "inline",
        [
            ["d", "format", "delimited"],
            ["d", "encoding", "utf-8"],
            ["d", "item delimiter", ","],
            ["d", "quote character", '"'],
            ["d", "escape character", '"'],
            ["d", "quoting", "minimal"],
            ["d", "line delimiter", "lf"],
            ["f", "a", "", "X"],
            ["f", "b", "", "X"],
        ],
    )
    return cid


def round_trip(data_format, table):
    out = io.StringIO()
    writer = rowio.DelimitedRowWriter(out, data_format)
    writer.write_rows(table)
    return list(rowio.delimited_rows(io.StringIO(out.getvalue()), data_format))


def main():
    data_format = create_cid().data_format
    violated = False
    for cell_length in (131072, 131073):
        for cell in ("x" * cell_length, "\n" * cell_length, '"' * cell_length):
            table = [[cell, "y"]]
            try:
                table_read = round_trip(data_format, table)
                is_same = table_read == table
                print("cell of %d x %r: read back identical=%s" % (cell_length, cell[0], is_same))
                violated = violated or not is_same
            except errors.DataFormatError as error:
                print("cell of %d x %r: written without error, reading back fails: %s" % (cell_length, cell[0], error))
                violated = True
    if violated:
        print("VIOLATION: a table of strings that was written cannot be read back")
        return 1
    print("no violation")
    return 0


if __name__ == "__main__":
    sys.exit(main())
