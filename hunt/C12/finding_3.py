"""
C12 finding 3: the CID loader accepts delimited data formats whose item delimiter or quote character cannot be
represented in the declared (or default) encoding. For such formats no table with two columns (respectively
no table under quoting "all") can be written to a file and read back.

Run: cd /tmp/wh_c12 && PYTHONPATH=/tmp/wh_c12 /venv/bin/python -W ignore /tmp/hunt_c12/finding_3.py
"""
import os
import sys
import tempfile

from cutplace import interface, rowio


def create_cid(properties):
    cid = interface.Cid()
    rows = [["d", "format", "delimited"]]
    rows += [["d", name, value] for name, value in properties]
    rows += [["f", "a", "", "X"], ["f", "b", "", "X"]]
    cid.read("inline", rows)
    return cid


def main():
    violated = False
    folder = tempfile.mkdtemp(prefix="finding_3_", dir=os.path.dirname(os.path.abspath(__file__)))
    path = os.path.join(folder, "data.csv")
    table = [["a", "b"], ["c", "d"]]
    cases = [
        # Default encoding of a DataFormat is cp1252.
        [("item delimiter", "0x2502")],
        [("encoding", "ascii"), ("item delimiter", "0xa7")],
        [("encoding", "latin-1"), ("item delimiter", '"\\u20ac"')],
        [("encoding", "utf-8"), ("item delimiter", "0xd800")],
        [("encoding", "cp864"), ("item delimiter", ","), ("quote character", "%"), ("quoting", "all")],
        # For comparison: the same delimiter with an encoding that can represent it.
        [("encoding", "utf-8"), ("item delimiter", "0x2502")],
    ]
    for properties in cases:
        data_format = create_cid(properties).data_format  # The CID loader accepts the data format.
        try:
            with rowio.DelimitedRowWriter(path, data_format) as writer:
                writer.write_rows(table)
            table_read = list(rowio.delimited_rows(path, data_format))
            outcome = "read back %r" % table_read
            is_same = table_read == table
        except Exception as error:
            outcome = "failed with %s: %s" % (type(error).__name__, error)
            is_same = False
        print("%s: %s; identical=%s" % (properties, outcome, is_same))
        violated = violated or not is_same
    os.remove(path)
    os.rmdir(folder)
    if violated:
        print("VIOLATION: accepted data format cannot round trip any table with 2 columns through a file")
        return 1
    print("no violation")
    return 0


if __name__ == "__main__":
    sys.exit(main())
