"""
Finding 3: A DateTime rule in which the month is directly followed by the
minutes ("MMmm", for example in "DDMMmm" or "YYYYMMmmss") is translated to a
broken strptime format: "MM" becomes "%m", and the following replacement of
"mm" by "%M" then hits the "m" of "%m" ("%mmm" -> "%%Mm"). The field rejects
every value in the layout of the rule and accepts the literal text "%Mm".

Run: cd /tmp/wh_c02 && PYTHONPATH=/tmp/wh_c02 /venv/bin/python -W ignore /tmp/hunt_c02/finding_3.py
"""
import io
import sys

from cutplace import data, errors, fields, interface, validio

violations = []
delimited = data.DataFormat(data.FORMAT_DELIMITED)
delimited.validate()

CASES = (
    # rule, value in the layout of the rule, text that is no date at all
    ("MMmm", "0359", "%Mm"),
    ("hh:MMmm", "12:0359", "12:%Mm"),
    ("YYYY-MMmm", "2020-0359", "2020-%Mm"),
    ("mmMM", "5903", None),  # control: the other order works
    ("MM mm", "03 59", None),  # control: with a separator it works
)
for rule, proper_value, improper_value in CASES:
    field_format = fields.DateTimeFieldFormat("d", False, "", rule, delimited)
    print("rule %r is translated to strptime format %r" % (rule, field_format.strptime_format))
    try:
        result = field_format.validated(proper_value)
        print("    %-12r accepted as %r" % (proper_value, tuple(result)[:6]))
    except errors.FieldValueError as error:
        print("    %-12r REJECTED: %s" % (proper_value, error))
        violations.append("rule %r rejects %r" % (rule, proper_value))
    if improper_value is not None:
        try:
            result = field_format.validated(improper_value)
            print("    %-12r ACCEPTED as %r" % (improper_value, tuple(result)[:6]))
            violations.append("rule %r accepts %r" % (rule, improper_value))
        except errors.FieldValueError as error:
            print("    %-12r rejected" % improper_value)

# End to end; even the example in the CID cannot be a valid value.
cid_text = (
    "D,Format,Delimited\n"
    " ,Name,Example,Empty,Length,Type,Rule\n"
    "F,stamp,%s,,,DateTime,DDMMmm\n"
)
try:
    interface.create_cid_from_string(cid_text % "24120359")
    print("end to end: CID with example 24120359 for rule DDMMmm accepted")
except errors.InterfaceError as error:
    print("end to end: CID with example 24120359 for rule DDMMmm REJECTED: %s" % error)
    violations.append("end to end: example 24120359 refused for rule DDMMmm")
cid = interface.create_cid_from_string(cid_text % "")
try:
    validio.validate(cid, io.StringIO("24120359\n"))
    print("end to end: row 24120359 accepted")
except errors.DataError as error:
    print("end to end: row 24120359 REJECTED: %s" % error)
    violations.append("end to end: row 24120359 rejected for rule DDMMmm")

print()
if violations:
    print("VIOLATION of C02 (DateTime: a real calendar date/time in the layout of the rule is accepted):")
    for violation in violations:
        print("  -", violation)
    sys.exit(1)
print("no violation observed")
sys.exit(0)
